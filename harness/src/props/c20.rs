//! C20 — covariance kernels are valid positive-definite kernels, scalar and matrix form (DESIGN §3 C20).
//!
//! Events: every `Kernel::forward` call for `f64`, `&f64`, `Vector`, `&Vector`, `Matrix`, `&Matrix`.
//! Oracle: scalar form — symmetry and variance-at-zero bitwise, non-negativity, non-increase along
//! 64-point distance ladders, bound by the variance; Gram matrices of the scalar form — symmetric,
//! Jacobi eigenvalues >= −c·n·ε·λmax and a Cholesky certificate of K + c·n·ε·λmax·I; matrix form —
//! shape rows(x) × rows(y) and entries equal to the scalar form within the a-priori cancellation
//! bound of the ‖x‖² + ‖y‖² − 2xy expansion.
use crate::gen::Rng;
use crate::oracle::linref;
use crate::report::{guard, jf, jnum, par_cases, Cfg, Hasher, Report};
use compute::linalg::{matmul, matmul_blocked, xtx, Dot, Matrix, Vector};
use compute::predict::{Kernel, RBFKernel, RQKernel};
use serde_json::{json, Value};

const EPS: f64 = f64::EPSILON;
const TINY: f64 = f64::MIN_POSITIVE;
/// slack for "non-increasing" and "<= variance": powf is accurate to < 1 ulp but not proven monotone
const MONO_SLACK: f64 = 4.0 * EPS;
/// PSD tolerance constant c in c·n·ε·λmax
const C_PSD: f64 = 8.0;

enum Ker {
    Rbf(RBFKernel, f64, f64),
    Rq(RQKernel, f64, f64, f64),
}

const FORMS: [&str; 6] = ["Vector", "&Vector", "Matrix(n×1)", "&Matrix(n×1)", "Matrix(1×n)", "&Matrix(1×n)"];

impl Ker {
    fn name(&self) -> &'static str {
        match self {
            Ker::Rbf(..) => "rbf",
            Ker::Rq(..) => "rq",
        }
    }
    fn var(&self) -> f64 {
        match self {
            Ker::Rbf(_, v, _) => *v,
            Ker::Rq(_, v, _, _) => *v,
        }
    }
    fn len_scale(&self) -> f64 {
        match self {
            Ker::Rbf(_, _, l) => *l,
            Ker::Rq(_, _, _, l) => *l,
        }
    }
    fn params(&self) -> Value {
        match self {
            Ker::Rbf(_, v, l) => json!({"kernel": "RBF", "var": v, "length_scale": l}),
            Ker::Rq(_, v, a, l) => json!({"kernel": "RQ", "var": v, "alpha": a, "length_scale": l}),
        }
    }
    fn by_value(&self, x: f64, y: f64) -> f64 {
        match self {
            Ker::Rbf(k, ..) => Kernel::<f64, f64>::forward(k, x, y),
            Ker::Rq(k, ..) => Kernel::<f64, f64>::forward(k, x, y),
        }
    }
    fn by_ref(&self, x: f64, y: f64) -> f64 {
        match self {
            Ker::Rbf(k, ..) => Kernel::<&f64, f64>::forward(k, &x, &y),
            Ker::Rq(k, ..) => Kernel::<&f64, f64>::forward(k, &x, &y),
        }
    }
    fn matrix(&self, x: &[f64], y: &[f64], form: usize) -> Matrix {
        macro_rules! call {
            ($k:expr) => {
                match form {
                    0 => Kernel::<Vector, Matrix>::forward($k, Vector::new(x.to_vec()), Vector::new(y.to_vec())),
                    1 => Kernel::<&Vector, Matrix>::forward($k, &Vector::new(x.to_vec()), &Vector::new(y.to_vec())),
                    2 => Kernel::<Matrix, Matrix>::forward($k, Matrix::new(x.to_vec(), x.len() as i32, 1), Matrix::new(y.to_vec(), y.len() as i32, 1)),
                    3 => Kernel::<&Matrix, Matrix>::forward($k, &Matrix::new(x.to_vec(), x.len() as i32, 1), &Matrix::new(y.to_vec(), y.len() as i32, 1)),
                    4 => Kernel::<Matrix, Matrix>::forward($k, Matrix::new(x.to_vec(), 1, x.len() as i32), Matrix::new(y.to_vec(), 1, y.len() as i32)),
                    _ => Kernel::<&Matrix, Matrix>::forward($k, &Matrix::new(x.to_vec(), 1, x.len() as i32), &Matrix::new(y.to_vec(), 1, y.len() as i32)),
                }
            };
        }
        match self {
            Ker::Rbf(k, ..) => call!(k),
            Ker::Rq(k, ..) => call!(k),
        }
    }
    /// Matrix / &Matrix operands of arbitrary shape: x is an r×c Matrix holding the r·c points in storage
    /// (row-major) order, likewise y.
    fn matrix_shaped(&self, x: &[f64], xs: (usize, usize), y: &[f64], ys: (usize, usize), owned: bool) -> Matrix {
        let mx = Matrix::new(x.to_vec(), xs.0 as i32, xs.1 as i32);
        let my = Matrix::new(y.to_vec(), ys.0 as i32, ys.1 as i32);
        macro_rules! call {
            ($k:expr) => {
                if owned {
                    Kernel::<Matrix, Matrix>::forward($k, mx, my)
                } else {
                    Kernel::<&Matrix, Matrix>::forward($k, &mx, &my)
                }
            };
        }
        match self {
            Ker::Rbf(k, ..) => call!(k),
            Ker::Rq(k, ..) => call!(k),
        }
    }
    /// The mathematical kernel value relative to the variance (harness-side, used only to decide
    /// whether a case is informative — never to judge the library).
    fn ideal(&self, d2: f64) -> f64 {
        match self {
            Ker::Rbf(_, _, l) => (-d2 / (2.0 * l * l)).exp(),
            Ker::Rq(_, _, a, l) => (-a * (d2 / (2.0 * a * l * l)).ln_1p()).exp(),
        }
    }
    fn informative(&self, x: f64, y: f64) -> bool {
        let v = self.ideal((x - y) * (x - y));
        v > 1e-3 && v < 0.999
    }
    /// Is the exact kernel value above the underflow threshold at squared distance d2? (for "positive")
    fn representable(&self, d2: f64) -> bool {
        match self {
            Ker::Rbf(_, v, l) => v.ln() - d2 / (2.0 * l * l) > -700.0,
            Ker::Rq(_, v, a, l) => v.ln() - a * (d2 / (2.0 * a * l * l)).ln_1p() > -700.0,
        }
    }
    /// A-priori bound on |matrix form − scalar form| at (x, y), given the two values.
    fn cancellation_bound(&self, x: f64, y: f64, ks: f64, km: f64) -> f64 {
        let l = self.len_scale();
        // d2 from x² + y² − 2xy versus (x − y)²: worst case 5.5ε(x²+y²); 32ε leaves >= 10× over what is observed
        let e = 32.0 * EPS * (x * x + y * y);
        let delta = e / (2.0 * l * l);
        let d2 = (x - y) * (x - y);
        let own = match self {
            Ker::Rbf(..) => 16.0 * EPS * (2.0 + (d2 / (2.0 * l * l)).min(750.0)),
            Ker::Rq(_, _, a, _) => 16.0 * EPS * (2.0 + a),
        };
        (delta.exp_m1() + own) * ks.abs().max(km.abs()) + 4.0 * TINY
    }
}

fn make_kernel(rng: &mut Rng, which: usize) -> Result<Ker, String> {
    // log-uniform, but one time in four a "round" value that an implementation might special-case
    let special = [0.5, 1.0, 2.0, 0.25, 1.5, 3.0, 10.0, 0.1];
    let pick = |rng: &mut Rng| if rng.chance(0.25) { *rng.choose(&special) } else { rng.log_range(1e-2, 1e2) };
    let var = pick(rng);
    let l = pick(rng);
    let a = pick(rng);
    if which == 0 {
        guard(|| RBFKernel::new(var, l)).map(|k| Ker::Rbf(k, var, l))
    } else {
        guard(|| RQKernel::new(var, a, l)).map(|k| Ker::Rq(k, var, a, l))
    }
}

/// n points in ±1e3 whose mutual distances are comparable with the length scale (so that the Gram
/// matrix is neither the identity nor rank one), with duplicates now and then.
fn point_set(rng: &mut Rng, n: usize, l: f64) -> Vec<f64> {
    let c = rng.range(-900.0, 900.0);
    let s = (l * 10f64.powf(rng.range(-1.5, 1.5))).min(100.0);
    let mode = rng.usize(0, 5);
    let mut p: Vec<f64> = (0..n)
        .map(|i| match mode {
            0 => c + s * i as f64 / n as f64, // regular grid
            1 => rng.range(-1e3, 1e3),       // whole range
            _ => c + s * rng.normal(),
        })
        .map(|v| v.clamp(-1e3, 1e3))
        .collect();
    if n >= 2 && rng.chance(0.15) {
        let (i, j) = (rng.usize(0, n - 1), rng.usize(0, n - 1));
        p[i] = p[j]; // repeated point: singular Gram matrix, still PSD
    }
    p
}

// ---------------------------------------------------------------------------------------------

fn scalar_checks(rep: &mut Report, k: &Ker, rng: &mut Rng) {
    let regime = k.name();
    let (var, l) = (k.var(), k.len_scale());
    // ---- pairs
    for t in 0..32 {
        let d = (l * 10f64.powf(rng.range(-3.0, 2.0))).min(1000.0) * if rng.bool() { 1.0 } else { -1.0 };
        let x = rng.range(-1e3 + d.abs().min(999.0), 1e3 - d.abs().min(999.0));
        let y = (x + d).clamp(-1e3, 1e3);
        rep.case(regime);
        let r = guard(|| (k.by_value(x, y), k.by_value(y, x), k.by_value(x, x), k.by_ref(x, y)));
        let head = |obs: Value| json!({"kernel": k.params(), "x": x, "y": y, "observed": obs});
        let (kxy, kyx, kxx, kref) = match r {
            Err(msg) => {
                rep.check("C20.scalar.no_panic", regime, false, || head(json!({"panic": msg})));
                continue;
            }
            Ok(v) => v,
        };
        rep.seen(&format!("cover:{}:f64", regime), 3);
        rep.seen(&format!("cover:{}:&f64", regime), 1);
        rep.check("C20.symmetric", regime, kxy.to_bits() == kyx.to_bits(), || head(json!({"k(x,y)": jnum(kxy), "k(y,x)": jnum(kyx)})));
        rep.check("C20.variance_at_zero", regime, kxx.to_bits() == var.to_bits(), || head(json!({"k(x,x)": jnum(kxx), "variance": var})));
        rep.check("C20.scalar.kinds_agree", regime, kref.to_bits() == kxy.to_bits(), || head(json!({"by_value": jnum(kxy), "by_reference": jnum(kref)})));
        let d2 = (x - y) * (x - y);
        let pos = kxy >= 0.0 && (kxy > 0.0 || !k.representable(d2));
        rep.check("C20.positive", regime, pos, || head(json!({"k(x,y)": jnum(kxy), "expected": "> 0 (>= 0 once the exact value is below 1e-304)"})));
        rep.check("C20.bounded", regime, kxy <= var * (1.0 + MONO_SLACK), || head(json!({"k(x,y)": jnum(kxy), "variance": var, "expected": "k <= variance"})));
        if t == 0 {
            rep.distinct(Hasher::new().s(regime).f(var).f(l).f(x).f(y).finish(), k.informative(x, y));
        }
    }
    // ---- 64-point distance ladder from distance 0 outwards
    let x = rng.range(-500.0, 500.0);
    let sign = if rng.bool() { 1.0 } else { -1.0 };
    let dmax = (l * 30.0).min(450.0);
    let dmin = (l * 1e-3).min(dmax * 1e-3);
    let mut pts: Vec<(f64, f64)> = (0..64)
        .map(|j| {
            let d = if j == 0 { 0.0 } else { dmin * (dmax / dmin).powf((j - 1) as f64 / 62.0) };
            let y = x + sign * d;
            ((x - y).abs(), y) // the distance as the kernel itself computes it
        })
        .collect();
    pts.sort_by(|a, b| a.0.partial_cmp(&b.0).unwrap());
    rep.case(regime);
    let vals = guard(|| pts.iter().map(|&(_, y)| k.by_value(x, y)).collect::<Vec<f64>>());
    let head = |obs: Value| json!({"kernel": k.params(), "x": x, "ladder_first_last_distance": [pts[0].0, pts[63].0], "observed": obs});
    match vals {
        Err(msg) => {
            rep.check("C20.scalar.no_panic", regime, false, || head(json!({"panic": msg})));
        }
        Ok(v) => {
            let mut bad = None;
            let mut worst = 0.0f64;
            for j in 1..64 {
                if pts[j].0 == pts[j - 1].0 {
                    continue;
                }
                let ratio = v[j] / v[j - 1];
                if ratio.is_finite() {
                    worst = worst.max((ratio - 1.0) / MONO_SLACK);
                }
                if !(v[j] <= v[j - 1] * (1.0 + MONO_SLACK)) && bad.is_none() {
                    bad = Some(j);
                }
            }
            if k.name() == "rbf" {
                rep.note_max("worst_ratio.rbf.monotone((k_j/k_{j-1}-1)/4ε)", worst);
            }
            rep.check("C20.monotone", regime, bad.is_none(), || {
                let j = bad.unwrap();
                head(json!({"distance_a": pts[j - 1].0, "k_a": jnum(v[j - 1]), "distance_b": pts[j].0, "k_b": jnum(v[j]), "expected": "k_b <= k_a since distance_b > distance_a"}))
            });
            rep.distinct(Hasher::new().s("ladder").s(regime).f(var).f(l).f(x).finish(), k.ideal(pts[63].0 * pts[63].0) < 0.5);
        }
    }
}

/// Eigenvalues of a symmetric matrix by cyclic Jacobi rotations, ascending. Same scheme as
/// `oracle::linref::jacobi_eigenvalues`, but the rotated pair is set to zero explicitly, so the sweep
/// loop really terminates after the usual 6..10 sweeps instead of running into the sweep limit.
fn sym_eigenvalues(a: &[f64], n: usize) -> Vec<f64> {
    let mut m = a.to_vec();
    for i in 0..n {
        for j in 0..i {
            let s = 0.5 * (m[i * n + j] + m[j * n + i]);
            m[i * n + j] = s;
            m[j * n + i] = s;
        }
    }
    for _sweep in 0..60 {
        let mut off = 0.0;
        for i in 0..n {
            for j in 0..i {
                off += m[i * n + j] * m[i * n + j];
            }
        }
        let diag: f64 = (0..n).map(|i| m[i * n + i] * m[i * n + i]).sum();
        if off <= 1e-40 * diag.max(TINY) {
            break;
        }
        for p in 0..n {
            for q in p + 1..n {
                let apq = m[p * n + q];
                if apq == 0.0 {
                    continue;
                }
                let theta = (m[q * n + q] - m[p * n + p]) / (2.0 * apq);
                let t = if theta == 0.0 { 1.0 } else { theta.signum() / (theta.abs() + (theta * theta + 1.0).sqrt()) };
                let c = 1.0 / (t * t + 1.0).sqrt();
                let s = t * c;
                for k in 0..n {
                    let akp = m[k * n + p];
                    let akq = m[k * n + q];
                    m[k * n + p] = c * akp - s * akq;
                    m[k * n + q] = s * akp + c * akq;
                }
                for k in 0..n {
                    let apk = m[p * n + k];
                    let aqk = m[q * n + k];
                    m[p * n + k] = c * apk - s * aqk;
                    m[q * n + k] = s * apk + c * aqk;
                }
                m[p * n + q] = 0.0;
                m[q * n + p] = 0.0;
            }
        }
    }
    let mut ev: Vec<f64> = (0..n).map(|i| m[i * n + i]).collect();
    ev.sort_by(|a, b| a.partial_cmp(b).unwrap_or(std::cmp::Ordering::Equal));
    ev
}

/// PSD certificate. Returns (ok, detail, min-eigenvalue ratio against the tolerance).
fn psd(kmat: &[f64], n: usize) -> (bool, Value, f64) {
    if let Some(i) = kmat.iter().position(|v| !v.is_finite()) {
        return (false, json!({"reason": "non-finite entry", "row": i / n, "col": i % n, "value": jnum(kmat[i])}), f64::INFINITY);
    }
    let scale = kmat.iter().fold(0.0f64, |m, v| m.max(v.abs()));
    if scale == 0.0 {
        return (true, json!(null), 0.0);
    }
    let a: Vec<f64> = kmat.iter().map(|v| v / scale).collect();
    let ev = match guard(|| sym_eigenvalues(&a, n)) {
        Ok(e) => e,
        Err(m) => return (false, json!({"reason": "eigenvalue oracle failed", "panic": m}), f64::INFINITY),
    };
    let (lmin, lmax) = (ev[0], ev[n - 1].abs().max(ev[0].abs()));
    let tol = C_PSD * n as f64 * EPS * lmax;
    let ratio = if lmin < 0.0 { -lmin / tol } else { 0.0 };
    if !(lmin >= -tol) {
        return (false, json!({"reason": "negative eigenvalue", "lambda_min/lambda_max": lmin / lmax, "tolerance": tol / lmax, "lambda_min_scaled": lmin, "lambda_max_scaled": lmax}), ratio);
    }
    let mut shifted = a.clone();
    for i in 0..n {
        shifted[i * n + i] += tol.max(TINY);
    }
    if linref::cholesky(&shifted, n).is_none() {
        return (false, json!({"reason": "Cholesky of K + c·n·ε·λmax·I broke down", "lambda_min_scaled": lmin, "shift": tol}), ratio);
    }
    (true, json!(null), ratio)
}

fn gram_checks(rep: &mut Report, k: &Ker, rng: &mut Rng, n: usize) {
    let regime = k.name();
    let p = point_set(rng, n, k.len_scale());
    rep.case(regime);
    let g = guard(|| {
        let mut g = vec![0.0; n * n];
        for i in 0..n {
            for j in 0..n {
                g[i * n + j] = if (i + j) % 2 == 0 { k.by_value(p[i], p[j]) } else { k.by_ref(p[i], p[j]) };
            }
        }
        g
    });
    let head = |obs: Value| json!({"kernel": k.params(), "points": jf(&p), "n": n, "observed": obs});
    let g = match g {
        Err(msg) => {
            rep.check("C20.scalar.no_panic", regime, false, || head(json!({"panic": msg})));
            return;
        }
        Ok(g) => g,
    };
    let var = k.var();
    let nontrivial = n >= 2 && (0..n * n).any(|q| q / n != q % n && k.informative(p[q / n], p[q % n]));
    rep.distinct(Hasher::new().s("gram").s(regime).fs(&p).f(var).f(k.len_scale()).finish(), nontrivial);
    if nontrivial {
        rep.seen(&format!("cover:{}:gram-nontrivial", regime), 1);
    }
    let asym = (0..n * n).find(|&q| g[q].to_bits() != g[(q % n) * n + q / n].to_bits());
    rep.check("C20.gram.symmetric", regime, asym.is_none(), || head(json!({"i": asym.unwrap() / n, "j": asym.unwrap() % n})));
    let (ok, why, ratio) = psd(&g, n);
    if k.name() == "rbf" {
        rep.note_max("worst_ratio.rbf.gram.min_eig(-λmin/(8nελmax))", ratio);
    }
    rep.check("C20.gram.psd", regime, ok, || head(why));
}

/// second point set: near the first one (so that entries are informative)
fn second_set(rng: &mut Rng, k: &Ker, x: &[f64], ny: usize) -> Vec<f64> {
    let c = x[rng.usize(0, x.len() - 1)];
    let s = k.len_scale().min(50.0);
    (0..ny).map(|_| (c + s * 3.0 * rng.normal()).clamp(-1e3, 1e3)).collect()
}

fn matrix_checks(rep: &mut Report, k: &Ker, rng: &mut Rng, nx: usize, ny: usize, form: usize, family: &str) {
    let regime = format!("{}:{}{}", k.name(), FORMS[form].split('(').next().unwrap(), family);
    let x = point_set(rng, nx, k.len_scale());
    // second set: near the first one or the same set (Gram matrix)
    let same = nx == ny && rng.chance(0.5);
    let y = if same { x.clone() } else { second_set(rng, k, &x, ny) };
    rep.case(&regime);
    rep.seen(&format!("cover:{}:{}{}", k.name(), FORMS[form], family), 1);
    let r = guard(|| k.matrix(&x, &y, form));
    judge_matrix(rep, k, &regime, json!(FORMS[form]), &x, &y, same, r);
}

/// A Matrix operand of any shape r×c is the set of its r·c entries in storage order (the matrix forms
/// flatten their operands): every pair of shapes r, c in 1..6 for the two operands, owned and borrowed.
fn shape_checks(rep: &mut Report, k: &Ker, rng: &mut Rng, xs: (usize, usize), ys: (usize, usize), owned: bool) {
    let kind = if owned { "Matrix" } else { "&Matrix" };
    let two_d = |s: (usize, usize)| s.0 > 1 && s.1 > 1;
    let class = match (two_d(xs), two_d(ys)) {
        (true, true) => "both-2-D",
        (true, false) => "first-2-D",
        (false, true) => "second-2-D",
        _ => "row/column",
    };
    let regime = format!("{}:{}:shape-r×c:{}", k.name(), kind, class);
    let (nx, ny) = (xs.0 * xs.1, ys.0 * ys.1);
    let x = point_set(rng, nx, k.len_scale());
    let same = nx == ny && rng.chance(0.3);
    let y = if same { x.clone() } else { second_set(rng, k, &x, ny) };
    rep.case(&regime);
    rep.seen(&format!("cover:shape:first={}×{}", xs.0, xs.1), 1);
    rep.seen(&format!("cover:shape:second={}×{}", ys.0, ys.1), 1);
    rep.seen(&format!("cover:{}:{}:shape-r×c:{}", k.name(), kind, class), 1);
    let r = guard(|| k.matrix_shaped(&x, xs, &y, ys, owned));
    judge_matrix(rep, k, &regime, json!({"kind": kind, "first_shape": [xs.0, xs.1], "second_shape": [ys.0, ys.1]}), &x, &y, same, r);
}

/// shape rows(x) × rows(y), entries equal to the scalar form, bitwise symmetric on one point set
fn judge_matrix(rep: &mut Report, k: &Ker, regime: &str, kind: Value, x: &[f64], y: &[f64], same: bool, r: Result<Matrix, String>) {
    let (nx, ny) = (x.len(), y.len());
    let head = |obs: Value| json!({"kernel": k.params(), "argument_kind": kind.clone(), "x": jf(x), "y": jf(y), "observed": obs});
    let m = match r {
        Err(msg) => {
            rep.check("C20.matrix.no_panic", regime, false, || head(json!({"panic": msg})));
            return;
        }
        Ok(m) => m,
    };
    rep.check("C20.matrix.no_panic", regime, true, || json!(null));
    let shape_ok = m.nrows == nx && m.ncols == ny && m.data.len() == nx * ny;
    if !rep.check("C20.matrix.shape", regime, shape_ok, || head(json!({"shape": [m.nrows, m.ncols], "len": m.data.len(), "expected": [nx, ny]}))) {
        return;
    }
    let mut worst = 0.0f64;
    let mut at = (0, 0);
    let informative = x.iter().any(|&a| y.iter().any(|&b| k.informative(a, b)));
    for i in 0..nx {
        for j in 0..ny {
            let ks = k.by_value(x[i], y[j]);
            let km = m.data[i * ny + j];
            if ks.to_bits() == km.to_bits() {
                continue;
            }
            let err = (km - ks).abs();
            let b = k.cancellation_bound(x[i], y[j], ks, km);
            let q = if err.is_nan() { f64::INFINITY } else { err / b };
            if q > worst {
                worst = q;
                at = (i, j);
            }
        }
    }
    rep.note_max(&format!("worst_ratio.{}.matrix_vs_scalar", k.name()), worst);
    rep.distinct(Hasher::new().s("mat").s(regime).fs(x).fs(y).finish(), informative && nx * ny > 1);
    rep.check("C20.matrix.entries", regime, worst <= 1.0, || {
        let (i, j) = at;
        head(json!({"i": i, "j": j, "x_i": x[i], "y_j": y[j], "matrix_form": jnum(m.data[i * ny + j]), "scalar_form": jnum(k.by_value(x[i], y[j])), "err/bound": worst}))
    });
    if same {
        let asym = (0..nx * nx).find(|&q| m.data[q].to_bits() != m.data[(q % nx) * nx + q / nx].to_bits());
        rep.check("C20.matrix.gram_symmetric", regime, asym.is_none(), || head(json!({"i": asym.unwrap() / nx, "j": asym.unwrap() % nx, "a": m.data[asym.unwrap()], "b": m.data[(asym.unwrap() % nx) * nx + asym.unwrap() / nx]})));
    }
}

// ---------------------------------------------------------------------------------------------
// round hyper-parameter values: the values a user types (and an implementation might special-case)

/// class label of a mixture parameter / variance / length scale value
fn round_class(v: f64) -> &'static str {
    if v.fract() == 0.0 {
        "integer"
    } else if (2.0 * v).fract() == 0.0 {
        "half-integer"
    } else if (4.0 * v).fract() == 0.0 {
        "quarter"
    } else if ((3.0 * v).round() / 3.0 - v).abs() <= 2.0 * EPS * v {
        "third"
    } else {
        "decimal"
    }
}
/// every j/2 up to 12, sparser half-integers and integers up to the end of the range, quarters, thirds, decimals
fn round_grid() -> Vec<f64> {
    let mut g: Vec<f64> = (1..=24).map(|j| j as f64 / 2.0).collect();
    g.extend([13.5, 15.5, 16.0, 16.5, 20.5, 25.0, 31.5, 32.0, 32.5, 47.5, 50.0, 63.5, 64.0, 64.5, 80.5, 99.0, 99.5]);
    g.extend([0.25, 0.75, 1.25, 1.75, 2.25, 0.125, 0.375, 0.0625]);
    g.extend([1.0 / 3.0, 2.0 / 3.0, 4.0 / 3.0, 5.0 / 3.0, 7.0 / 3.0, 10.0 / 3.0]);
    g.extend([0.02, 0.05, 0.1, 0.2, 0.3, 0.7, 1.1, 2.2, 7.3, 12.7]);
    g
}

fn make_round_kernel(rng: &mut Rng, which: usize, i: usize, grid: &[f64]) -> Result<Ker, String> {
    let pick = |rng: &mut Rng| if rng.chance(0.5) { *rng.choose(grid) } else { rng.log_range(1e-2, 1e2) };
    let var = pick(rng);
    let l = pick(rng);
    // the parameter that is walked through the whole grid: the length scale (RBF) / the mixture parameter (RQ)
    let walked = grid[(i / 2) % grid.len()];
    if which == 0 {
        guard(|| RBFKernel::new(var, walked)).map(|k| Ker::Rbf(k, var, walked))
    } else {
        guard(|| RQKernel::new(var, walked, l)).map(|k| Ker::Rq(k, var, walked, l))
    }
}

// ---------------------------------------------------------------------------------------------
// degenerate and structured point sets
//
// Random clouds never produce a point set whose points all coincide (with each other, with the origin),
// nor two sets that are regular grids with a bit-identical step. Both are what a user passes first
// (`Vector::zeros(n)`, a single point, `arange(0, 10, 1)` against its midpoints), and both are where a
// matrix form that normalises its inputs (division by a range / a largest magnitude) or that recognises
// structure (Toeplitz / Hankel / low-rank fast paths) leaves the general code. The oracle is unchanged:
// the scalar form entry by entry within the cancellation bound of the expansion, plus the output
// variance wherever x_i = y_j.

const DEGENERATE: [&str; 9] = ["all-zero", "all-neg-zero", "mixed-signed-zero", "constant", "two-constants", "single-point", "duplicates", "first-constant", "second-constant"];
const GRIDS: [&str; 11] = ["self", "shift-multiple", "shift-fraction", "shift-free", "other-length", "other-step", "reversed", "descending-shifted", "geometric", "integer-lattice", "lattice-subset"];
/// operand forms of the two families: the six of `FORMS` and a genuinely 2-D Matrix, owned and borrowed
const FORMS8: [&str; 8] = ["Vector", "&Vector", "Matrix(n×1)", "&Matrix(n×1)", "Matrix(1×n)", "&Matrix(1×n)", "Matrix(r×c)", "&Matrix(r×c)"];

/// (r, c) with r·c = n and r as close to sqrt(n) as possible (1×n for a prime).
fn near_square(n: usize) -> (usize, usize) {
    let mut r = (n as f64).sqrt() as usize;
    while r > 1 && n % r != 0 {
        r -= 1;
    }
    (r.max(1), n / r.max(1))
}

fn call_form(k: &Ker, x: &[f64], y: &[f64], form: usize) -> Matrix {
    if form < 6 {
        k.matrix(x, y, form)
    } else {
        k.matrix_shaped(x, near_square(x.len()), y, near_square(y.len()), form == 6)
    }
}

/// "equals the output variance at zero distance", matrix form: every entry with x_i = y_j (±0 are the
/// same point) against the variance, within the bound that the entry check grants the expansion.
fn judge_zero_distance(rep: &mut Report, k: &Ker, regime: &str, kind: &str, x: &[f64], y: &[f64], r: &Result<Matrix, String>) {
    let m = match r {
        Ok(m) if m.data.len() == x.len() * y.len() => m,
        _ => return, // panic / shape: reported by judge_matrix
    };
    let var = k.var();
    let mut bad = None;
    let mut any = false;
    'o: for (i, &a) in x.iter().enumerate() {
        for (j, &b) in y.iter().enumerate() {
            if a == b {
                any = true;
                let km = m.data[i * y.len() + j];
                if !((km - var).abs() <= k.cancellation_bound(a, b, var, km)) {
                    bad = Some((i, j));
                    break 'o;
                }
            }
        }
    }
    if any {
        rep.seen(&format!("cover:{}:matrix-variance-at-zero", k.name()), 1);
        rep.check("C20.matrix.variance_at_zero", regime, bad.is_none(), || {
            let (i, j) = bad.unwrap();
            json!({"kernel": k.params(), "argument_kind": kind, "x": jf(x), "y": jf(y), "observed": {"i": i, "j": j, "x_i": jnum(x[i]), "y_j": jnum(y[j]), "matrix_form": jnum(m.data[i * y.len() + j]), "variance": var}})
        });
    }
}

/// A constant at one of the magnitudes a coordinate takes inside ±1e3 (down to the subnormals, whose
/// squares underflow; up to the end of the range).
fn constant_value(rng: &mut Rng, l: f64) -> f64 {
    let mag = match rng.usize(0, 9) {
        0 => 5e-324,
        1 => rng.log_range(1e-300, 1e-160),
        2 => rng.log_range(1e-160, 1e-8),
        3 => rng.log_range(1e-8, 1e-1),
        4 => 1.0,
        5 => 1e3,
        6 => rng.usize(1, 999) as f64,
        7 => l * rng.log_range(1e-2, 1e2),
        _ => rng.log_range(0.1, 1e3),
    }
    .min(1e3);
    if rng.bool() {
        mag
    } else {
        -mag
    }
}

fn degenerate_checks(rep: &mut Report, k: &Ker, rng: &mut Rng, class: &str, form: usize, cap: usize) {
    let l = k.len_scale();
    let size = |rng: &mut Rng| match rng.usize(0, 4) {
        0 => 1,
        1 => 2,
        2 => rng.usize(8, 16.min(cap).max(8)).min(cap),
        _ => rng.usize(1, cap),
    };
    let (mut nx, mut ny) = (size(rng), size(rng));
    if rng.chance(0.4) {
        ny = nx;
    }
    // a non-constant companion set at distances comparable with the length scale
    let cloud = |rng: &mut Rng, c: f64, n: usize| -> Vec<f64> { (0..n).map(|_| (c + l.min(50.0) * 2.0 * rng.normal()).clamp(-1e3, 1e3)).collect() };
    let (x, y): (Vec<f64>, Vec<f64>) = match class {
        "all-zero" => (vec![0.0; nx], vec![0.0; ny]),
        "all-neg-zero" => (vec![-0.0; nx], vec![-0.0; ny]),
        "mixed-signed-zero" => {
            let z = |rng: &mut Rng, n: usize| (0..n).map(|_| if rng.bool() { 0.0 } else { -0.0 }).collect::<Vec<f64>>();
            (z(rng, nx), z(rng, ny))
        }
        "constant" => {
            let c = constant_value(rng, l);
            (vec![c; nx], vec![c; ny])
        }
        "two-constants" => {
            let c = constant_value(rng, l);
            let d = (c + l * rng.log_range(0.05, 5.0) * if rng.bool() { 1.0 } else { -1.0 }).clamp(-1e3, 1e3);
            let d = if rng.chance(0.2) { 0.0 } else { d };
            (vec![c; nx], vec![d; ny])
        }
        "single-point" => {
            let a = if rng.chance(0.3) { 0.0 } else { constant_value(rng, l) };
            match rng.usize(0, 3) {
                0 => (vec![a], vec![a]),
                1 => (vec![a], vec![(a + l * rng.log_range(0.05, 5.0)).clamp(-1e3, 1e3)]),
                2 => {
                    ny = ny.max(2);
                    (vec![a], cloud(rng, a, ny))
                }
                _ => {
                    nx = nx.max(2);
                    (cloud(rng, a, nx), vec![a])
                }
            }
        }
        "duplicates" => {
            let c = if rng.chance(0.3) { 0.0 } else { constant_value(rng, l) };
            let pool: Vec<f64> = (0..rng.usize(1, 3)).map(|q| if q == 0 { c } else { (c + l.min(50.0) * 2.0 * rng.normal()).clamp(-1e3, 1e3) }).collect();
            nx = nx.max(2);
            let draw = |rng: &mut Rng, n: usize| (0..n).map(|_| *rng.choose(&pool)).collect::<Vec<f64>>();
            let x = draw(rng, nx);
            let y = if nx == ny && rng.bool() { x.clone() } else { draw(rng, ny) };
            (x, y)
        }
        "first-constant" | "second-constant" => {
            let c = if rng.chance(0.4) { if rng.bool() { 0.0 } else { -0.0 } } else { constant_value(rng, l) };
            let other = ny.max(2);
            let mut o = cloud(rng, c, other);
            if rng.chance(0.3) {
                o[0] = c; // the constant occurs in the other set: one column / row at zero distance
            }
            if class == "first-constant" {
                (vec![c; nx], o)
            } else {
                (o, vec![c; nx])
            }
        }
        _ => unreachable!(),
    };
    let regime = format!("{}:{}:degenerate:{}", k.name(), FORMS8[form].split('(').next().unwrap(), class);
    rep.case(&regime);
    rep.seen(&format!("cover:{}:degenerate:{}", k.name(), class), 1);
    rep.seen(&format!("cover:{}:{}:degenerate", k.name(), FORMS8[form]), 1);
    let same = x.len() == y.len() && x.iter().zip(&y).all(|(a, b)| a.to_bits() == b.to_bits());
    let r = guard(|| call_form(k, &x, &y, form));
    judge_zero_distance(rep, k, &regime, FORMS8[form], &x, &y, &r);
    judge_matrix(rep, k, &regime, json!(FORMS8[form]), &x, &y, same, r);
}

/// A step m·2^e (m in 4..=7, i.e. three significant bits) in [target/4, target]: all of its small
/// multiples are exact. Returns (step, 2^e).
fn dyadic_below(target: f64, rng: &mut Rng) -> (f64, f64) {
    let e = target.log2().floor() as i32;
    let unit = 2f64.powi(e - 3);
    (unit * rng.usize(4, 7) as f64, unit)
}

/// Two structured point sets of class `class`. Grids are built as start + i·h with one `h` for both
/// sets; the "exact" flavour has start and h on a common dyadic lattice (every point, difference and the
/// recovered step are exact), the "decimal" flavour uses the values a user types (0.1, 0.25, 2.5, ...).
fn grid_pair(rng: &mut Rng, class: &str, l: f64, cap: usize) -> (Vec<f64>, Vec<f64>, bool) {
    let n = match rng.usize(0, 5) {
        // powers of two and their neighbours (unrolled loops, size-gated fast paths), small sets, anything
        0 => *rng.choose(&[4usize, 8, 16, 32]),
        1 => rng.usize(2, 7).min(cap),
        2 => *rng.choose(&[5usize, 9, 10, 15, 17, 31, 33, 48, 60]),
        _ => rng.usize(8, 60),
    }
    .min(cap)
    .max(2);
    let exact = rng.chance(0.6);
    // the grid spans 0.3..10 length scales
    let span = (l * rng.log_range(0.3, 10.0)).min(250.0);
    let (h, unit) = if exact {
        dyadic_below(span / n as f64, rng)
    } else {
        let d = 10f64.powf((span / n as f64).log10().floor()) / 10.0;
        let m = *rng.choose(&[1.0, 2.0, 2.5, 3.0, 5.0, 7.0]);
        (m * d, d / 10.0)
    };
    // start on the lattice of `unit`, the whole family inside ±1e3
    let room = (900.0 - 3.0 * n as f64 * h).max(0.0);
    let start = if rng.chance(0.2) { 0.0 } else { (rng.range(-room, room) / unit).round() * unit };
    let grid = |s: f64, step: f64, len: usize| -> Vec<f64> { (0..len).map(|i| s + i as f64 * step).collect() };
    let x = grid(start, h, n);
    let rev = |v: &[f64]| v.iter().rev().copied().collect::<Vec<f64>>();
    let q = rng.usize(0, 3);
    let sign = if rng.bool() { 1.0 } else { -1.0 };
    let (x, y, same) = match class {
        "self" => (x.clone(), x, true),
        "shift-multiple" => {
            let kk = *rng.choose(&[1usize, 1, 2, 3, n / 2, n, n + 1]);
            let y = grid(start + sign * kk.max(1) as f64 * h, h, n);
            (x, y, false)
        }
        "shift-fraction" => {
            let f = if exact { *rng.choose(&[0.5, 0.25, 0.75, 0.125, 1.5, 2.5]) } else { *rng.choose(&[0.5, 1.0 / 3.0, 0.1, 0.25, 1.5, 2.0 / 3.0]) };
            let y = grid(start + sign * f * h, h, n);
            (x, y, false)
        }
        "shift-free" => {
            let d = sign * (l * rng.log_range(0.01, 10.0)).min(100.0);
            let d = if exact { (d / (unit / 8.0)).round() * (unit / 8.0) } else { d };
            let y = grid(start + d, h, n);
            (x, y, false)
        }
        "other-length" => {
            let ny = loop {
                let m = rng.usize(1, cap.min(3 * n)); // 3·n·h is the room every class has
                if m != n {
                    break m;
                }
            };
            let y = grid(start + if q == 0 { 0.0 } else { sign * h * 0.5 }, h, ny);
            if rng.bool() {
                (x, y, false)
            } else {
                (y, x, false)
            }
        }
        "other-step" => {
            let f = *rng.choose(&[2.0, 0.5, 1.25, 0.75, 3.0]);
            let y = grid(start + if q == 0 { 0.0 } else { sign * h * 0.5 }, f * h, n);
            (x, y, false)
        }
        "reversed" => {
            let shifted = grid(start + sign * h * *rng.choose(&[0.0, 0.5, 1.0, 2.0]), h, n);
            match q {
                0 => (x.clone(), rev(&x), false),
                1 => (rev(&x), x, false),
                2 => (x, rev(&shifted), false),
                _ => (rev(&shifted), x, false),
            }
        }
        "descending-shifted" => {
            // both descending, the same (negative) step, different start points
            let shifted = grid(start + sign * h * *rng.choose(&[0.5, 1.0, 0.25, 3.0]), h, n);
            (rev(&x), rev(&shifted), false)
        }
        "geometric" => {
            // a·r^i, r = 2^(1/m) or 2 or 10^(1/m): the ratio, not the difference, is constant
            let r = *rng.choose(&[2.0, 2f64.sqrt(), 1.5, 1.1, 10f64.powf(0.25), 1.25]);
            let top = (l * rng.log_range(1.0, 30.0)).min(900.0);
            let a = top / r.powi(n as i32 - 1);
            let g = |a: f64| -> Vec<f64> { (0..n).map(|i| (a * r.powi(i as i32)).clamp(-1e3, 1e3)).collect() };
            let x = g(a);
            match q {
                0 => (x.clone(), x, true),
                1 => (x, g(a * r), false),
                2 => (x, g(a * 1.5), false),
                _ => (x.clone(), x.iter().map(|v| -v).collect(), false),
            }
        }
        "integer-lattice" => {
            let step = *rng.choose(&[1.0, 1.0, 2.0, 3.0, 5.0]);
            let s = rng.int(-400, 400) as f64;
            let x = grid(if rng.chance(0.3) { 0.0 } else { s }, step, n);
            let off = *rng.choose(&[0.0, 1.0, 2.0, -1.0, 0.5, -0.5, 7.0]);
            match q {
                0 => (x.clone(), x, true),
                _ => {
                    let y = grid(x[0] + off, step, n);
                    let same = off == 0.0;
                    (x, y, same)
                }
            }
        }
        "lattice-subset" => {
            // integer points without a common step: a sorted random subset, and a permutation of a lattice
            let s = rng.int(-400, 400);
            let mut pts: Vec<f64> = Vec::new();
            let mut v = s;
            for _ in 0..n {
                v += rng.int(1, 3);
                pts.push(v as f64);
            }
            let mut perm = grid(s as f64, 1.0, n);
            rng.shuffle(&mut perm);
            match q {
                0 => (pts.clone(), pts, true),
                1 => (pts, perm, false),
                2 => (perm.clone(), perm, true),
                _ => (grid(s as f64, 1.0, n), pts, false),
            }
        }
        _ => unreachable!(),
    };
    (x, y, same)
}

fn grid_checks(rep: &mut Report, rng: &mut Rng, which: usize, class: &str, form: usize, cap: usize) {
    // integer lattices have steps >= 1: a length scale of at least a third of a step keeps entries informative
    let lattice = class == "integer-lattice" || class == "lattice-subset";
    let mut k = None;
    for _ in 0..16 {
        match make_kernel(rng, which) {
            Ok(c) if !lattice || c.len_scale() >= 0.3 => {
                k = Some(c);
                break;
            }
            Ok(_) => {}
            Err(msg) => {
                rep.check("C20.ctor.accepts_valid", if which == 0 { "rbf" } else { "rq" }, false, || json!({"panic": msg}));
                return;
            }
        }
    }
    let k = match k {
        Some(k) => k,
        None => return,
    };
    let (x, y, same) = grid_pair(rng, class, k.len_scale(), cap);
    if !x.iter().chain(&y).all(|v| v.abs() <= 1e3) {
        rep.note_add("grid.cases_outside_1e3_skipped", 1.0); // the quantifier ends at ±1e3
        return;
    }
    let regime = format!("{}:{}:grid:{}", k.name(), FORMS8[form].split('(').next().unwrap(), class);
    rep.case(&regime);
    rep.seen(&format!("cover:{}:grid:{}", k.name(), class), 1);
    rep.seen(&format!("cover:{}:{}:grid", k.name(), FORMS8[form]), 1);
    if x.len() >= 16 && y.len() >= 16 {
        rep.seen(&format!("cover:{}:grid:{}:len>=16", k.name(), class), 1);
    }
    if x.iter().any(|&a| y.iter().any(|&b| a != b && k.informative(a, b))) {
        rep.seen(&format!("cover:{}:grid:{}:informative", k.name(), class), 1);
    }
    let r = guard(|| call_form(&k, &x, &y, form));
    judge_zero_distance(rep, &k, &regime, FORMS8[form], &x, &y, &r);
    judge_matrix(rep, &k, &regime, json!(FORMS8[form]), &x, &y, same, r);
}

// ---------------------------------------------------------------------------------------------
// history independence of the kernels with respect to other library calls on the same thread
//
// A kernel is a function of its parameters and its two point sets. Its matrix form is assembled from the
// library's general-purpose pieces (reshape, element-wise maps, broadcast sums, an A·Bᵀ product with
// inner dimension 1), which every other user of the library calls with OTHER shapes. Whatever those
// calls leave behind on the thread (workspaces, caches, lazily initialised tables) must not reach the
// kernel. Each case runs, on a thread of its own, a sequence of rounds "unrelated work, then one
// matrix-form evaluation"; every evaluation is compared bit for bit with the same evaluation made as the
// first library call of a fresh thread, and — as everywhere — entry by entry with the scalar form.
// The work never enters a verdict (it belongs to other properties); only the number of calls that
// returned is recorded.

const WORK: [&str; 11] = ["dot_t", "t_dot", "dot", "t_dot_t", "matmul-flags", "mat-vec", "broadcast", "reshape", "elementwise-map", "linear-gram", "other-kernel-shapes"];
const PATTERNS: [&str; 4] = ["big-then-small", "small-then-big", "growing", "shrinking"];

fn on_fresh_thread<T: Send>(f: impl FnOnce() -> T + Send) -> T {
    std::thread::scope(|s| s.spawn(f).join().expect("fresh thread"))
}

fn rand_vec(rng: &mut Rng, n: usize) -> Vec<f64> {
    // entries of either sign away from zero, so that nothing left behind by the work is a neutral element
    (0..n).map(|_| rng.range(0.5, 10.0) * if rng.bool() { 1.0 } else { -1.0 }).collect()
}
fn rand_matrix(rng: &mut Rng, r: usize, c: usize) -> Matrix {
    Matrix::new(rand_vec(rng, r * c), r as i32, c as i32)
}

/// Unrelated library work of class `kind` with dimensions up to `size` (rows and columns 2..size, never
/// the n×1 shapes of the kernels themselves). Returns the number of library calls that returned.
fn do_work(rng: &mut Rng, kind: &str, size: usize, other: &Ker) -> usize {
    let size = size.max(2);
    let mut done = 0usize;
    let mut ok = |r: Result<(), String>| {
        if r.is_ok() {
            done += 1;
        }
    };
    let dim = |rng: &mut Rng| rng.usize(2, size);
    for rep_no in 0..3 {
        let (m, l, n) = (if rep_no == 0 { size } else { dim(rng) }, dim(rng), dim(rng));
        match kind {
            "dot_t" => {
                let (a, b) = (rand_matrix(rng, m, l), rand_matrix(rng, n, l));
                ok(guard(|| {
                    std::hint::black_box(a.dot_t(&b));
                }));
                ok(guard(|| {
                    std::hint::black_box((&a).dot_t(b.clone()));
                }));
            }
            "t_dot" => {
                let (a, b) = (rand_matrix(rng, l, m), rand_matrix(rng, l, n));
                ok(guard(|| {
                    std::hint::black_box(a.t_dot(&b));
                }));
                ok(guard(|| {
                    std::hint::black_box((&a).t_dot(b.clone()));
                }));
            }
            "dot" => {
                let (a, b) = (rand_matrix(rng, m, l), rand_matrix(rng, l, n));
                ok(guard(|| {
                    std::hint::black_box(a.dot(&b));
                }));
                ok(guard(|| {
                    std::hint::black_box((&a).dot(b.clone()));
                }));
            }
            "t_dot_t" => {
                let (a, b) = (rand_matrix(rng, l, m), rand_matrix(rng, n, l));
                ok(guard(|| {
                    std::hint::black_box(a.t_dot_t(&b));
                }));
                ok(guard(|| {
                    std::hint::black_box((&a).t_dot_t(b.clone()));
                }));
            }
            "matmul-flags" => {
                for (ta, tb) in [(false, false), (true, false), (false, true), (true, true)] {
                    // op(A) is m×l, op(B) is l×n
                    let (ra, ca) = if ta { (l, m) } else { (m, l) };
                    let (rb, cb) = if tb { (n, l) } else { (l, n) };
                    let (a, b) = (rand_vec(rng, ra * ca), rand_vec(rng, rb * cb));
                    ok(guard(|| {
                        std::hint::black_box(matmul(&a, &b, ra, rb, ta, tb));
                    }));
                    let bs = *rng.choose(&[1usize, 2, 4, 8, 16, 64]);
                    ok(guard(|| {
                        std::hint::black_box(matmul_blocked(&a, &b, ra, rb, ta, tb, bs));
                    }));
                }
                let x = rand_vec(rng, m * l);
                ok(guard(|| {
                    std::hint::black_box(xtx(&x, m));
                }));
            }
            "mat-vec" => {
                let a = rand_matrix(rng, m, l);
                let (v, w, u) = (Vector::new(rand_vec(rng, l)), Vector::new(rand_vec(rng, m)), Vector::new(rand_vec(rng, l)));
                ok(guard(|| {
                    std::hint::black_box(a.dot(&v));
                }));
                ok(guard(|| {
                    std::hint::black_box(a.t_dot(&w));
                }));
                ok(guard(|| {
                    std::hint::black_box(w.dot(&a));
                }));
                ok(guard(|| {
                    std::hint::black_box(v.dot_t(&a));
                }));
                ok(guard(|| {
                    std::hint::black_box(v.dot(&u));
                }));
            }
            "broadcast" => {
                let (col, row, full, full2, one) = (rand_matrix(rng, m, 1), rand_matrix(rng, 1, n), rand_matrix(rng, m, n), rand_matrix(rng, m, n), rand_matrix(rng, 1, 1));
                ok(guard(|| {
                    std::hint::black_box(&col + &row);
                }));
                ok(guard(|| {
                    std::hint::black_box(&row - &col);
                }));
                ok(guard(|| {
                    std::hint::black_box(&full - &row);
                }));
                ok(guard(|| {
                    std::hint::black_box(&col * &full);
                }));
                ok(guard(|| {
                    std::hint::black_box(&full / &full2);
                }));
                ok(guard(|| {
                    std::hint::black_box(&one + &full);
                }));
                ok(guard(|| {
                    std::hint::black_box(-(2.0 * &full) / 3.0 + 1.0);
                }));
            }
            "reshape" => {
                let full = rand_matrix(rng, m, n);
                let v = Vector::new(rand_vec(rng, m * n));
                ok(guard(|| {
                    std::hint::black_box(full.reshape(-1, 1));
                }));
                ok(guard(|| {
                    std::hint::black_box(full.reshape(1, -1));
                }));
                ok(guard(|| {
                    std::hint::black_box(full.reshape(n as i32, m as i32));
                }));
                ok(guard(|| {
                    std::hint::black_box(full.reshape(-1, m as i32));
                }));
                ok(guard(|| {
                    std::hint::black_box(full.t());
                }));
                ok(guard(|| {
                    std::hint::black_box(v.reshape(m as i32, n as i32));
                }));
                ok(guard(|| {
                    std::hint::black_box(v.reshape(-1, 1).reshape(1, -1));
                }));
            }
            "elementwise-map" => {
                let long = Vector::new((0..50 * size).map(|_| rng.range(0.1, 5.0)).collect::<Vec<f64>>());
                let full = Matrix::new((0..m * n).map(|_| rng.range(0.1, 5.0)).collect::<Vec<f64>>(), m as i32, n as i32);
                let a = rng.range(-3.0, 3.0);
                ok(guard(|| {
                    std::hint::black_box(long.powf(a));
                }));
                ok(guard(|| {
                    std::hint::black_box(long.exp());
                }));
                ok(guard(|| {
                    std::hint::black_box(long.powi(2));
                }));
                ok(guard(|| {
                    std::hint::black_box(full.powf(-a));
                }));
                ok(guard(|| {
                    std::hint::black_box((-full.powi(2)).exp());
                }));
            }
            "linear-gram" => {
                // linear kernel on d-dimensional features, and the weights·cross-covariance product of a GP prediction
                let d = rng.usize(2, 8.min(size));
                let (f, g) = (rand_matrix(rng, m, d), rand_matrix(rng, n, d));
                ok(guard(|| {
                    std::hint::black_box(f.dot_t(&f));
                }));
                ok(guard(|| {
                    std::hint::black_box(f.dot_t(&g));
                }));
                let (ks, w) = (rand_matrix(rng, n, m), rand_matrix(rng, 1, m));
                ok(guard(|| {
                    std::hint::black_box(ks.dot_t(&w));
                }));
            }
            "other-kernel-shapes" => {
                let (x, y) = (rand_vec(rng, m), rand_vec(rng, n));
                let form = rng.usize(0, 7);
                ok(guard(|| {
                    std::hint::black_box(call_form(other, &x, &y, form));
                }));
                ok(guard(|| {
                    std::hint::black_box(other.by_value(x[0], y[0]));
                }));
            }
            _ => unreachable!(),
        }
    }
    done
}

/// (work size, number of kernel points) per round.
fn pattern_rounds(rng: &mut Rng, pattern: &str, wcap: usize, kcap: usize) -> Vec<(usize, usize)> {
    let w = |rng: &mut Rng, lo: usize, hi: usize| rng.usize(lo.min(wcap), hi.min(wcap));
    let k = |rng: &mut Rng, lo: usize, hi: usize| rng.usize(lo.min(kcap), hi.min(kcap));
    let mut ladder = vec![(w(rng, 2, 3), k(rng, 1, 3)), (w(rng, 4, 8), k(rng, 4, 8)), (w(rng, 9, 20), k(rng, 9, 20)), (w(rng, 21, 40), k(rng, 21, 60))];
    match pattern {
        "big-then-small" => vec![(w(rng, 17, 40), k(rng, 1, 4))],
        "small-then-big" => vec![(w(rng, 2, 4), k(rng, 24, 60))],
        "growing" => ladder,
        _ => {
            ladder.reverse();
            ladder
        }
    }
}

fn history_checks(cfg: &Cfg, rep: &mut Report, rng: &mut Rng, which: usize, form: usize, work: &str, pattern: &str) {
    let make = |rng: &mut Rng, which: usize, rep: &mut Report| match make_kernel(rng, which) {
        Ok(k) => Some(k),
        Err(msg) => {
            rep.check("C20.ctor.accepts_valid", if which == 0 { "rbf" } else { "rq" }, false, || json!({"panic": msg}));
            None
        }
    };
    let (k, other) = match (make(rng, which, rep), make(rng, 1 - which, rep)) {
        (Some(k), Some(o)) => (k, o),
        _ => return,
    };
    let (wcap, kcap) = if cfg.miri() { (4, 4) } else { (40, 60) };
    let rounds = pattern_rounds(rng, pattern, wcap, kcap);
    // point sets of every round (generated here: all randomness comes from the case rng)
    let sets: Vec<(Vec<f64>, Vec<f64>, bool)> = rounds
        .iter()
        .map(|&(_, nk)| {
            let x = point_set(rng, nk, k.len_scale());
            let same = rng.chance(0.4);
            let ny = if rng.bool() { nk } else { rng.usize(1, kcap) };
            let y = if same { x.clone() } else { second_set(rng, &k, &x, ny) };
            (x, y, same)
        })
        .collect();
    let work_seed = rng.u64();
    // reference: each evaluation as the first library call of a new thread
    let fresh: Vec<Result<Matrix, String>> = sets.iter().map(|(x, y, _)| on_fresh_thread(|| guard(|| call_form(&k, x, y, form)))).collect();
    // the history: one thread, work and evaluations interleaved
    let hist: Vec<(usize, Result<Matrix, String>)> = on_fresh_thread(|| {
        let mut wr = Rng::new(work_seed);
        rounds.iter().zip(&sets).map(|(&(wsize, _), (x, y, _))| (do_work(&mut wr, work, wsize, &other), guard(|| call_form(&k, x, y, form)))).collect()
    });
    let regime = format!("{}:{}:after:{}", k.name(), FORMS8[form].split('(').next().unwrap(), work);
    for (r, ((x, y, same), (calls, got))) in sets.iter().zip(hist).enumerate() {
        rep.case(&regime);
        rep.seen(&format!("cover:history:pattern:{}", pattern), 1);
        rep.seen(&format!("cover:{}:{}:history", k.name(), FORMS8[form]), 1);
        rep.note_add(&format!("history.work_calls_returned.{}", work), calls as f64);
        if calls == 0 {
            rep.note_add("history.rounds_without_any_completed_work_call", 1.0);
        }
        let diff = match (&fresh[r], &got) {
            (Ok(a), Ok(b)) => {
                if (a.nrows, a.ncols, a.data.len()) != (b.nrows, b.ncols, b.data.len()) {
                    Some(usize::MAX)
                } else {
                    (0..a.data.len()).find(|&q| a.data[q].to_bits() != b.data[q].to_bits())
                }
            }
            (Err(_), Err(_)) => None,
            _ => Some(usize::MAX),
        };
        rep.check("C20.matrix.history_independent", &regime, diff.is_none(), || {
            let mut o = json!({"kernel": k.params(), "argument_kind": FORMS8[form], "x": jf(x), "y": jf(y), "preceded_on_the_same_thread_by": work, "work_dimensions_up_to": rounds[r].0, "pattern": pattern, "round": r,
                               "expected": "bit-identical to the same call made as the first library call of a new thread"});
            match (&fresh[r], &got, diff) {
                (Ok(a), Ok(b), Some(q)) if q != usize::MAX => {
                    let (i, j) = (q / y.len().max(1), q % y.len().max(1));
                    o["observed"] = json!({"i": i, "j": j, "after_the_work": jnum(b.data[q]), "on_a_fresh_thread": jnum(a.data[q]), "scalar_form": jnum(k.by_value(x[i.min(x.len() - 1)], y[j]))});
                }
                (a, b, _) => {
                    o["observed"] = json!({"after_the_work": b.as_ref().map(|m| vec![m.nrows, m.ncols]).map_err(|e| e.clone()), "on_a_fresh_thread": a.as_ref().map(|m| vec![m.nrows, m.ncols]).map_err(|e| e.clone())});
                }
            }
            o
        });
        judge_matrix(rep, &k, &regime, json!({"kind": FORMS8[form], "after": work}), x, y, *same, got);
    }
}

pub fn run(cfg: &Cfg, rep: &mut Report) {
    rep.rule = "per case one kernel (RBF / RQ alternating; variance, length scale, mixture parameter log-uniform in (1e-2,1e2)): 32 scalar pairs in ±1e3 at distances 1e-3..1e2 length scales, one 64-point distance ladder, one Gram matrix of the scalar form on 1..60 points spread over 0.03..30 length scales (grid / uniform / normal clouds, repeated points now and then), and one matrix-form call per argument kind (Vector, &Vector, Matrix n×1 and 1×n, owned and borrowed) on two point sets of independent sizes 1..60. Matrix-shape family: every pair of operand shapes r×c, r, c in 1..6 (1296 pairs: columns, rows, 1×1 and genuinely 2-D arrays holding r·c points), owned and borrowed, both kernels. round-parameter family: the mixture parameter (RQ) / length scale (RBF) walks a grid of round values (every j/2 up to 12, half-integers and integers up to 99.5, quarters, thirds, decimals), variance and the other parameter round one time in two; scalar pairs, ladder and one matrix-form call per argument kind on 1..12 points. Degenerate point sets (per kernel x class x operand form, 2 (12) rounds): all points +0 / -0 / mixed signed zeros, one constant (5e-324 .. 1e3, both signs), two different constants, single points (against itself, another point, a cloud), sets drawn from a pool of <= 3 values, one set constant (also 0) and the other a cloud; sizes 1, 2, 8..16, 1..60; matrix form against scalar form entry by entry and against the variance wherever x_i = y_j. Structured point sets (per kernel x class x operand form, 3 (24) rounds; 2..60 points: powers of two and their neighbours, 2..7, 8..60): grids start + i*h with one h for both sets, on a common dyadic lattice (all arithmetic exact) or with typed decimal steps, against themselves, shifted by multiples / fractions of the step / freely, other length, other step, reversed, both descending with an offset; geometric grids; integer lattices with integer / half-integer offsets; irregular integer subsets and permuted lattices; operand forms Vector, &Vector, Matrix n x 1, 1 x n, r x c, owned and borrowed. History family (per kernel x operand form x kind of work, 2 (16) rounds): on a thread of its own, unrelated library work with other shapes (dot_t / t_dot / dot / t_dot_t products of matrices with 2..40 rows and columns, matmul / matmul_blocked with all transpose flags and xtx, matrix-vector products, broadcast sums of other shapes, reshapes, element-wise maps on vectors of 100..2000 entries, linear-kernel Gram matrices of 2..8-dimensional features, the other kernel on other sizes), then a matrix-form evaluation; big-then-small, small-then-big, four growing and four shrinking rounds; each evaluation compared bit for bit with the same call on a fresh thread and entry by entry with the scalar form. non-trivial = an entry strictly between 0.1% and 99.9% of the variance; distinct by parameters and points".into();
    rep.assume("'positive' is asserted as k >= 0, and k > 0 wherever the exact value exceeds exp(-700): beyond that a correct kernel underflows to zero");
    rep.assume("monotone / bounded carry a 4ε relative slack (powf is accurate but not proven monotone)");
    rep.assume("a Matrix argument of shape r×c is the point set of its r·c entries in storage (row-major) order: a single column, a single row or a genuinely 2-D array; the matrix form must have r·c rows (columns) for it and equal the scalar form on the flattened points");
    rep.assume("matrix-form entries may differ from the scalar form by the cancellation error of x²+y²−2xy: relative expm1(32ε(x²+y²)/(2ℓ²)) + 16ε(2+t) (t = exponent for RBF, mixture parameter for RQ)");
    rep.assume("matrix form at zero distance (x_i = y_j, +0 = -0): the variance within the same bound as any other entry (the expansion x²+y²−2xy is exactly 0 there in IEEE arithmetic, but the property does not promise a bit pattern for the matrix form)");
    rep.assume("history independence: a kernel evaluation is a function of the kernel parameters and the two point sets, so the same call returns the same bits whatever other library calls (of any shape) the thread made before; compared with the same call made as the first library call of a new thread. The unrelated work itself is not judged here");
    let n_cases = cfg.pick(600, 15_000, 10);
    par_cases(cfg, rep, 1, n_cases, |i, rng, rep| {
        let k = match make_kernel(rng, i % 2) {
            Ok(k) => k,
            Err(msg) => {
                rep.check("C20.ctor.accepts_valid", if i % 2 == 0 { "rbf" } else { "rq" }, false, || json!({"panic": msg}));
                return;
            }
        };
        scalar_checks(rep, &k, rng);
        let n = match (i / 2) % 6 {
            0 => 1,
            1 => 2,
            2 => rng.usize(3, 8),
            3 => 60,
            _ => rng.usize(9, 60),
        };
        let n = if cfg.miri() { n.min(6) } else { n };
        gram_checks(rep, &k, rng, n);
        let cap = if cfg.miri() { 5 } else { 60 };
        for form in 0..6 {
            let (nx, ny) = match (i / 2 + form) % 5 {
                0 => (1, rng.usize(1, cap)),
                1 => (rng.usize(1, cap), 1),
                2 => {
                    let m = rng.usize(2, cap);
                    (m, m)
                }
                _ => (rng.usize(1, cap), rng.usize(1, cap)),
            };
            matrix_checks(rep, &k, rng, nx, ny, form, "");
        }
        if i < 4 {
            rep.sample(|| json!({"kernel": k.params(), "k(0,0)": k.by_value(0.0, 0.0), "k(0,1)": k.by_value(0.0, 1.0), "k(0,3)": k.by_value(0.0, 3.0)}));
        }
    });
    // ---- Matrix operands of every shape r×c, r, c in 1..6, for both arguments
    let smax: usize = if cfg.miri() { 3 } else { 6 };
    let n_pairs = smax.pow(4);
    let n_shape = cfg.pick(n_pairs, 4 * n_pairs, 12);
    par_cases(cfg, rep, 2, n_shape, |i, rng, rep| {
        // under the reduced workloads a random pair, otherwise the complete enumeration
        let q = if cfg.lite { rng.usize(0, n_pairs - 1) } else { i % n_pairs };
        let xs = (q % smax + 1, q / smax % smax + 1);
        let ys = (q / (smax * smax) % smax + 1, q / (smax * smax * smax) % smax + 1);
        for which in 0..2 {
            let k = match make_kernel(rng, which) {
                Ok(k) => k,
                Err(msg) => {
                    rep.check("C20.ctor.accepts_valid", if which == 0 { "rbf" } else { "rq" }, false, || json!({"panic": msg}));
                    continue;
                }
            };
            for owned in [true, false] {
                if cfg.lite && owned != (i % 2 == 0) {
                    continue;
                }
                shape_checks(rep, &k, rng, xs, ys, owned);
            }
        }
    });
    // ---- round hyper-parameter values
    let grid = round_grid();
    let grid = &grid;
    let n_round = cfg.pick(2 * grid.len(), 16 * grid.len(), 8);
    par_cases(cfg, rep, 3, n_round, |i, rng, rep| {
        let which = i % 2;
        let k = match make_round_kernel(rng, which, i, grid) {
            Ok(k) => k,
            Err(msg) => {
                rep.check("C20.ctor.accepts_valid", if which == 0 { "rbf" } else { "rq" }, false, || json!({"panic": msg}));
                return;
            }
        };
        if let Ker::Rq(_, _, a, _) = &k {
            rep.seen(&format!("round:rq:alpha:{}", round_class(*a)), 1);
        }
        if let Ker::Rbf(_, _, l) = &k {
            rep.seen(&format!("round:rbf:length_scale:{}", round_class(*l)), 1);
        }
        scalar_checks(rep, &k, rng);
        let cap = if cfg.miri() { 4 } else { 12 };
        for form in 0..6 {
            // at least 9 entries two times in three: unrolled element-wise loops have a remainder path
            let (nx, ny) = if (i / 2 + form) % 3 == 0 { (rng.usize(1, cap), rng.usize(1, cap)) } else { (rng.usize(3, cap), rng.usize(3, cap)) };
            matrix_checks(rep, &k, rng, nx, ny, form, ":round-params");
        }
    });
    // ---- degenerate point sets
    let cap = if cfg.miri() { 4 } else { 60 };
    let n_deg = cfg.pick(2 * DEGENERATE.len() * 8 * 2, 2 * DEGENERATE.len() * 8 * 12, DEGENERATE.len());
    par_cases(cfg, rep, 4, n_deg, |i, rng, rep| {
        // (kernel, class, form) enumerated; the reduced workloads walk the diagonal
        let (which, class, form) = if cfg.lite { (i % 2, DEGENERATE[i % DEGENERATE.len()], i % 8) } else { (i % 2, DEGENERATE[(i / 2) % DEGENERATE.len()], (i / (2 * DEGENERATE.len())) % 8) };
        match make_kernel(rng, which) {
            Ok(k) => degenerate_checks(rep, &k, rng, class, form, cap),
            Err(msg) => {
                rep.check("C20.ctor.accepts_valid", if which == 0 { "rbf" } else { "rq" }, false, || json!({"panic": msg}));
            }
        }
    });
    // ---- structured point sets
    let cap = if cfg.miri() { 9 } else { 60 };
    let n_grid = cfg.pick(2 * GRIDS.len() * 8 * 3, 2 * GRIDS.len() * 8 * 24, GRIDS.len());
    par_cases(cfg, rep, 5, n_grid, |i, rng, rep| {
        let (which, class, form) = if cfg.lite { (i % 2, GRIDS[i % GRIDS.len()], i % 8) } else { (i % 2, GRIDS[(i / 2) % GRIDS.len()], (i / (2 * GRIDS.len())) % 8) };
        grid_checks(rep, rng, which, class, form, cap);
    });
    // ---- history independence w.r.t. other library calls on the same thread
    let combos = 2 * 8 * WORK.len();
    let n_hist = cfg.pick(2 * combos, 16 * combos, 4);
    par_cases(cfg, rep, 6, n_hist, |i, rng, rep| {
        // (kernel, operand form, kind of work) enumerated, the interleaving pattern rotating against them;
        // the reduced workloads walk the diagonal
        let (which, form, wi) = if cfg.lite { (i % 2, i % 8, (i * 5) % WORK.len()) } else { (i % 2, (i / 2) % 8, (i / 16) % WORK.len()) };
        let pattern = PATTERNS[(wi + form + which + i / combos) % PATTERNS.len()];
        history_checks(cfg, rep, rng, which, form, WORK[wi], pattern);
    });
    if !cfg.lite {
        for name in ["rbf", "rq"] {
            for f in ["Vector", "&Vector", "Matrix", "&Matrix"] {
                for w in WORK {
                    rep.require(&format!("{}:{}:after:{}", name, f, w), 1);
                }
            }
            for f in FORMS8 {
                rep.require(&format!("cover:{}:{}:history", name, f), 1);
            }
        }
        for p in PATTERNS {
            rep.require(&format!("cover:history:pattern:{}", p), 1);
        }
    }
    for name in ["rbf", "rq"] {
        for c in DEGENERATE {
            rep.require(&format!("cover:{}:degenerate:{}", name, c), 1);
        }
        for c in GRIDS {
            rep.require(&format!("cover:{}:grid:{}", name, c), 1);
            if !cfg.lite {
                rep.require(&format!("cover:{}:grid:{}:len>=16", name, c), 1);
                rep.require(&format!("cover:{}:grid:{}:informative", name, c), 1);
            }
        }
        rep.require(&format!("cover:{}:matrix-variance-at-zero", name), 1);
        if !cfg.lite {
            for f in FORMS8 {
                rep.require(&format!("cover:{}:{}:degenerate", name, f), 1);
                rep.require(&format!("cover:{}:{}:grid", name, f), 1);
            }
        }
    }
    for name in ["rbf", "rq"] {
        rep.require(name, 1);
        rep.require(&format!("cover:{}:f64", name), 1);
        rep.require(&format!("cover:{}:&f64", name), 1);
        rep.require(&format!("cover:{}:gram-nontrivial", name), 1);
        for f in FORMS {
            rep.require(&format!("cover:{}:{}", name, f), 1);
        }
    }
    for name in ["rbf", "rq"] {
        for f in FORMS {
            rep.require(&format!("cover:{}:{}:round-params", name, f), 1);
        }
        for kind in ["Matrix", "&Matrix"] {
            for class in ["both-2-D", "first-2-D", "second-2-D", "row/column"] {
                if !cfg.lite {
                    rep.require(&format!("cover:{}:{}:shape-r×c:{}", name, kind, class), 1);
                }
            }
        }
    }
    if !cfg.lite {
        for r in 1..=smax {
            for c in 1..=smax {
                rep.require(&format!("cover:shape:first={}×{}", r, c), 1);
                rep.require(&format!("cover:shape:second={}×{}", r, c), 1);
            }
        }
        for class in ["integer", "half-integer", "quarter", "third", "decimal"] {
            rep.require(&format!("round:rq:alpha:{}", class), 1);
            rep.require(&format!("round:rbf:length_scale:{}", class), 1);
        }
    }
}
