//! C17 — statistical transforms and combinatorics satisfy their defining identities (DESIGN §3 C17).
//!
//! Events: return value or panic of `logistic`, `logit`, `softmax`, `boxcox`, `boxcox_shifted`,
//! `binom_coeff`, `binom_coeff_alt`.
//! Oracles: order / range / symmetry relations on consecutive f32-representable arguments,
//! condition-scaled round-trip bounds, a max-shifted softmax reference with a double-double
//! normaliser on inputs that live on a 2^-20 grid (so that every shift is exact), the
//! `expm1(λ ln t)/λ` form of Box–Cox, and a u128 Pascal table for the binomial coefficient.
use crate::gen::Rng;
use crate::oracle::{dd, exact};
use crate::report::{guard, jf, jnum, par_cases, same_bits, Cfg, Hasher, Report};
use compute::functions::{binom_coeff, binom_coeff_alt, boxcox, boxcox_shifted, logistic, logit, softmax};
use serde_json::{json, Value};

const EPS: f64 = f64::EPSILON;
const TINY: f64 = f64::MIN_POSITIVE;

/// Register `checked` evaluations of one assertion of which `failed` failed (bulk form of
/// `rep.check` for the f32 sweep, where a map lookup per point would dominate the run time).
fn bulk(rep: &mut Report, assertion: &str, regime: &str, checked: u64, failed: u64, first: Option<Value>) {
    if checked == 0 {
        return;
    }
    if failed == 0 {
        rep.assert_stat(assertion).checked += checked;
        return;
    }
    rep.check(assertion, regime, false, || first.unwrap_or(json!(null)));
    let st = rep.assert_stat(assertion);
    st.checked += checked - 1;
    st.failed += failed - 1;
    if let Some(v) = rep.violations.get_mut(&format!("{}|{}", assertion, regime)) {
        v.count += failed - 1;
    }
}

// ---------------------------------------------------------------------------------------------
// logistic / logit

fn f32_at(k: u32) -> f64 {
    f32::from_bits(k) as f64
}

/// Sweep the consecutive non-negative f32 values with bit patterns lo..=hi together with their
/// negatives. `lo > 0`: the pair (lo-1, lo) is included so that chunks tile the whole range.
fn sweep(rep: &mut Report, lo: u32, hi: u32, regime: &str) {
    let start = if lo == 0 { 0 } else { lo - 1 };
    let mut prev_p = logistic(f32_at(start));
    let mut prev_n = logistic(-f32_at(start));
    let (mut n_mono, mut f_mono, mut first_mono) = (0u64, 0u64, None);
    let (mut n_range, mut f_range, mut first_range) = (0u64, 0u64, None);
    let (mut n_sym, mut f_sym, mut first_sym) = (0u64, 0u64, None);
    let mut worst_sym = 0.0f64;
    let mut k = start;
    loop {
        let x = f32_at(k);
        let sp = logistic(x);
        let sn = logistic(-x);
        // range (NaN fails)
        n_range += 2;
        if !((0.0..=1.0).contains(&sp) && (0.0..=1.0).contains(&sn)) {
            f_range += 1;
            if first_range.is_none() {
                first_range = Some(json!({"x": x, "logistic(x)": jnum(sp), "logistic(-x)": jnum(sn), "expected": "both in [0,1]"}));
            }
        }
        // symmetry
        n_sym += 1;
        let d = (sn - (1.0 - sp)).abs();
        if d > worst_sym || d.is_nan() {
            worst_sym = d;
        }
        if !(d <= 8.0 * EPS) {
            f_sym += 1;
            if first_sym.is_none() {
                first_sym = Some(json!({"x": x, "logistic(-x)": jnum(sn), "1-logistic(x)": jnum(1.0 - sp), "abs_diff": jnum(d), "bound": 8.0 * EPS}));
            }
        }
        if k > start {
            // monotone on both half-lines: x_{k-1} < x_k  and  -x_k < -x_{k-1}
            n_mono += 2;
            if !(sp >= prev_p) || !(sn <= prev_n) {
                f_mono += 1;
                if first_mono.is_none() {
                    first_mono = Some(json!({"x_prev": f32_at(k - 1), "x": x, "logistic(x_prev)": jnum(prev_p), "logistic(x)": jnum(sp),
                        "logistic(-x_prev)": jnum(prev_n), "logistic(-x)": jnum(sn), "expected": "non-decreasing"}));
                }
            }
        }
        prev_p = sp;
        prev_n = sn;
        if k == hi {
            break;
        }
        k += 1;
    }
    let pts = (hi - start + 1) as u64;
    rep.evaluations += 2 * pts;
    rep.seen(regime, 2 * pts);
    bulk(rep, "C17.logistic.monotone", regime, n_mono, f_mono, first_mono);
    bulk(rep, "C17.logistic.range", regime, n_range, f_range, first_range);
    bulk(rep, "C17.logistic.symmetry", regime, n_sym, f_sym, first_sym);
    rep.note_max("worst_ratio.logistic.symmetry(abs_diff/8eps)", worst_sym / (8.0 * EPS));
}

fn logit_of_logistic(rep: &mut Report, x: f64) {
    let regime = "logit∘logistic:|x|<=30";
    rep.case(regime);
    let s = logistic(x);
    match guard(|| logit(s)) {
        Err(msg) => {
            rep.check("C17.logit.accepts", regime, false, || json!({"x": x, "p=logistic(x)": jnum(s), "panic": msg}));
        }
        Ok(back) => {
            // error sources: relative error of s amplified by 1/(1-s), plus the rounding of the logarithm (∝ |x|)
            let bound = 16.0 * EPS * (1.0 / (1.0 - s) + x.abs());
            let err = (back - x).abs();
            rep.note_max("worst_ratio.logit∘logistic", err / bound);
            rep.check("C17.logit∘logistic.identity", regime, err <= bound, || json!({"x": x, "logistic(x)": s, "logit(logistic(x))": jnum(back), "abs_err": jnum(err), "bound": bound}));
        }
    }
}

fn logistic_of_logit(rep: &mut Report, p: f64, regime: &str) {
    rep.case(regime);
    match guard(|| logit(p)) {
        Err(msg) => {
            rep.check("C17.logit.accepts", regime, false, || json!({"p": p, "panic": msg, "expected": "a value: p is in [0,1]"}));
        }
        Ok(l) => {
            rep.check("C17.logit.accepts", regime, true, || json!(null));
            let back = logistic(l);
            let (ok, ratio, bound) = if p == 0.0 || p == 1.0 {
                // end points: logit is ∓∞ and the round trip is exact
                let ok = l.is_infinite() && (l > 0.0) == (p == 1.0) && back == p;
                (ok, if ok { 0.0 } else { f64::INFINITY }, 0.0)
            } else {
                // relative bound 10ε(1+|logit p|) (a-priori worst case of this composition is (2.5+|l|/2)ε) plus the underflow threshold (results below the
                // smallest normal number carry an absolute, not a relative, rounding error)
                let bound = 10.0 * EPS * (1.0 + l.abs()) * p + 4.0 * TINY;
                let err = (back - p).abs();
                (err <= bound, err / bound, bound)
            };
            rep.note_max("worst_ratio.logistic∘logit", ratio);
            rep.check("C17.logistic∘logit.identity", regime, ok, || json!({"p": p, "logit(p)": jnum(l), "logistic(logit(p))": jnum(back), "bound_abs": bound}));
        }
    }
}

fn logit_rejects(rep: &mut Report, p: f64, regime: &str) {
    rep.case(regime);
    let r = guard(|| logit(p));
    rep.check("C17.logit.rejects", regime, r.is_err(), || json!({"p": jnum(p), "observed": jnum(*r.as_ref().unwrap()), "expected": "panic: p outside [0,1]"}));
}

fn run_logistic(cfg: &Cfg, rep: &mut Report) {
    let top = 745.0f32.to_bits(); // last non-negative f32 bit pattern in the sweep
    let regime = "logistic:f32-sweep";
    if cfg.thorough() && !cfg.lite {
        // every f32 in [-745, 745]
        let chunks = 8192usize;
        let per = (top as u64 + 1).div_ceil(chunks as u64);
        par_cases(cfg, rep, 1, chunks, |i, _rng, rep| {
            let lo = i as u64 * per;
            if lo > top as u64 {
                return;
            }
            let hi = ((i as u64 + 1) * per - 1).min(top as u64);
            sweep(rep, lo as u32, hi as u32, regime);
        });
        rep.note("logistic.sweep", json!("all f32 values in [-745, 745]"));
    } else {
        // stratified: 1000 strata in bit-pattern space (= logarithmic in x) + 1000 strata uniform in x,
        // 500 consecutive f32 values (and their negatives) each
        let strata = cfg.pick(1000, 1000, 2);
        let run = 250u32;
        par_cases(cfg, rep, 1, 2 * strata, |i, rng, rep| {
            let k0 = if i < strata {
                let w = (top as u64 + 1) / strata as u64;
                (i as u64 * w + rng.u64() % w) as u32
            } else {
                let j = (i - strata) as f64;
                let x = 745.0 * (j + rng.f64()) / strata as f64;
                (x as f32).to_bits()
            };
            let lo = k0.min(top - run);
            sweep(rep, lo, lo + run, regime);
        });
        rep.note("logistic.sweep", json!("stratified runs of 251 consecutive f32 values, half of the strata uniform in the bit pattern, half uniform in x"));
    }
    // range and symmetry beyond ±745 and at special values (sweep regime covers the interior)
    let sp = "logistic:|x|>745,special";
    let specials = [745.0, 745.5, 746.0, 800.0, 1e4, 1e300, f64::MAX, f64::INFINITY, 0.0, 5e-324, TINY, 709.0, 709.8, 710.0, 36.0, 37.0, 38.0];
    for &x in &specials {
        for &x in &[x, -x] {
            rep.case(sp);
            let s = logistic(x);
            rep.check("C17.logistic.range", sp, (0.0..=1.0).contains(&s), || json!({"x": jnum(x), "logistic(x)": jnum(s)}));
            let d = (logistic(-x) - (1.0 - s)).abs();
            rep.check("C17.logistic.symmetry", sp, d <= 8.0 * EPS, || json!({"x": jnum(x), "logistic(-x)": jnum(logistic(-x)), "1-logistic(x)": jnum(1.0 - s)}));
        }
    }
    rep.check("C17.logistic.range", sp, logistic(f64::NEG_INFINITY) == 0.0 && logistic(f64::INFINITY) == 1.0 && logistic(0.0) == 0.5, || json!({"at": "-inf, +inf, 0"}));

    // round trips
    let n = cfg.pick(200_000, 3_000_000, 50);
    par_cases(cfg, rep, 2, n, |i, rng, rep| {
        // logit(logistic x), |x| <= 30, uniform and log-uniform magnitudes
        let x = match i % 3 {
            0 => rng.range(-30.0, 30.0),
            1 => rng.log_range(1e-12, 30.0) * if rng.bool() { 1.0 } else { -1.0 },
            _ => (rng.range(-30.0, 30.0) as f32) as f64,
        };
        logit_of_logistic(rep, x);
        rep.distinct(Hasher::new().s("ll").f(x).finish(), x != 0.0);
        // logistic(logit p)
        let (p, regime) = match i % 5 {
            0 | 1 => (rng.open01(), "logistic∘logit:p-interior"),
            2 => (rng.log_range(1e-300, 1e-3), "logistic∘logit:p-tiny"),
            3 => (1.0 - rng.log_range(EPS / 2.0, 1e-3), "logistic∘logit:p-near-1"),
            _ => (f64::from_bits(rng.u64() % (1u64 << 52)), "logistic∘logit:p-subnormal"),
        };
        logistic_of_logit(rep, p, regime);
        rep.distinct(Hasher::new().s("lp").f(p).finish(), p > 0.0 && p < 1.0);
        // rejection
        let bad = match i % 4 {
            0 => -rng.log_range(1e-300, 1e300),
            1 => 1.0 + rng.log_range(EPS, 1e300),
            2 => -f64::from_bits(1 + rng.u64() % 1000),
            _ => 1.0 + EPS * (1 + rng.usize(0, 1000)) as f64,
        };
        logit_rejects(rep, bad, if bad < 0.0 { "logit:p<0" } else { "logit:p>1" });
    });
    for &p in &[0.0, -0.0, 1.0] {
        logistic_of_logit(rep, p, "logistic∘logit:p-endpoint");
    }
    for &p in &[0.5, 0.25, 1.0 - EPS / 2.0, TINY, 5e-324] {
        logistic_of_logit(rep, p, "logistic∘logit:p-interior");
    }
    for &p in &[-5e-324, -TINY, -1.0, f64::NEG_INFINITY, -f64::MAX] {
        logit_rejects(rep, p, "logit:p<0");
    }
    for &p in &[1.0 + EPS, 2.0, f64::INFINITY, f64::MAX] {
        logit_rejects(rep, p, "logit:p>1");
    }
    rep.sample(|| json!({"fn": "logistic", "x": 2.0, "value": logistic(2.0), "logit(value)": logit(logistic(2.0))}));
    for r in [regime, "logit∘logistic:|x|<=30", "logistic∘logit:p-interior", "logistic∘logit:p-tiny", "logistic∘logit:p-near-1", "logistic∘logit:p-endpoint", "logit:p<0", "logit:p>1"] {
        rep.require(r, 1);
    }
}

// ---------------------------------------------------------------------------------------------
// softmax

const GRID: f64 = 1048576.0; // 2^20: entries are multiples of 2^-20, |x| <= 1e4, so x_i - x_j and x_i + c are exact

fn on_grid(x: f64) -> f64 {
    ((x * GRID).round() / GRID).clamp(-1e4, 1e4)
}

fn sm_classify(x: &[f64]) -> &'static str {
    let mx = x.iter().cloned().fold(f64::NEG_INFINITY, f64::max);
    let mn = x.iter().cloned().fold(f64::INFINITY, f64::min);
    if mx >= 710.0 {
        "max>=710"
    } else if mx <= -746.0 {
        "max<=-746"
    } else if mn >= -700.0 && mx <= 700.0 {
        "|x|<=700"
    } else if (0.0..=700.0).contains(&mx) {
        "0<=max<=700,min<-700"
    } else if mn >= 706.0 && mx <= 709.5 && x.len() >= 100 {
        "706<=x<=709.5,n>=100"
    } else if mn >= -745.0 && mx <= -709.0 {
        "-745<=x<=-709"
    } else if mx > 700.0 && mx < 710.0 {
        "700<max<710"
    } else if mx > -746.0 && mx < -700.0 {
        "-746<max<-700"
    } else {
        "other"
    }
}

/// max-shifted reference; exponent arguments are exact on the grid, normaliser summed in double-double
fn sm_reference(x: &[f64]) -> Vec<f64> {
    let mx = x.iter().cloned().fold(f64::NEG_INFINITY, f64::max);
    let e: Vec<f64> = x.iter().map(|&v| (v - mx).exp()).collect();
    let z = dd::sum(&e);
    e.iter().map(|&v| (dd::Dd::new(v) / z).f()).collect()
}

/// Per-call checks. Returns the output if it is usable for the shift comparison.
fn sm_call(rep: &mut Report, x: &[f64], regime: &str) -> Option<Vec<f64>> {
    let n = x.len();
    rep.case(&format!("softmax:{}", regime));
    let regime = &format!("softmax:{}", regime);
    let head = || json!({"n": n, "x": jf(x), "max": x.iter().cloned().fold(f64::NEG_INFINITY, f64::max), "min": x.iter().cloned().fold(f64::INFINITY, f64::min)});
    let with = |k: &str, v: Value| {
        let mut h = head();
        h[k] = v;
        h
    };
    let out = match guard(|| softmax(x)) {
        Err(msg) => {
            rep.check("C17.softmax.no_panic", regime, false, || with("panic", json!(msg)));
            return None;
        }
        Ok(o) => o,
    };
    if !rep.check("C17.softmax.length", regime, out.len() == n, || with("observed_len", json!(out.len()))) {
        return None;
    }
    let finite = out.iter().all(|v| v.is_finite());
    if !rep.check("C17.softmax.finite", regime, finite, || with("observed", jf(&out))) {
        return None; // every other relation is meaningless on NaN
    }
    rep.check("C17.softmax.nonneg", regime, out.iter().all(|&v| v >= 0.0), || with("observed", jf(&out)));
    let s = dd::sum(&out);
    let dev = (s - 1.0).f().abs();
    let sum_bound = 4.0 * n as f64 * EPS;
    let benign = regime.ends_with("|x|<=700") || regime.ends_with("min<-700");
    if benign {
        rep.note_max("worst_ratio.softmax.sum(|Σ-1|/4nε)", dev / sum_bound);
    }
    let sum_ok = rep.check("C17.softmax.sums_to_1", regime, dev <= sum_bound, || with("observed", json!({"sum": s.f(), "|sum-1|": dev, "bound": sum_bound, "out": jf(&out)})));
    // order: x_i < x_j ⇒ s_i <= s_j ; x_i = x_j ⇒ s_i = s_j
    let mut idx: Vec<usize> = (0..n).collect();
    idx.sort_by(|&a, &b| x[a].partial_cmp(&x[b]).unwrap());
    let mut bad = None;
    for w in idx.windows(2) {
        let (a, b) = (w[0], w[1]);
        let ok = if x[a] == x[b] { same_bits(out[a], out[b]) } else { out[a] <= out[b] };
        if !ok {
            bad = Some((a, b));
            break;
        }
    }
    rep.check("C17.softmax.order", regime, bad.is_none(), || {
        let (a, b) = bad.unwrap();
        with("observed", json!({"i": a, "j": b, "x_i": x[a], "x_j": x[b], "s_i": out[a], "s_j": out[b]}))
    });
    if !sum_ok {
        return None;
    }
    // values against the reference: (n+32)ε relative (twice the worst case of recursive summation plus
    // exp and division roundings) + underflow floor
    let r = sm_reference(x);
    let tol_rel = (n as f64 + 32.0) * EPS;
    let mut worst = 0.0f64;
    let mut at = 0;
    for i in 0..n {
        let q = (out[i] - r[i]).abs() / (tol_rel * r[i] + 4.0 * TINY);
        if q > worst {
            worst = q;
            at = i;
        }
    }
    if benign {
        rep.note_max("worst_ratio.softmax.reference", worst);
    }
    rep.check("C17.softmax.reference", regime, worst <= 1.0, || with("observed", json!({"i": at, "x_i": x[at], "got": out[at], "reference": r[at], "err/bound": worst, "rel_bound": tol_rel})));
    Some(out)
}

fn sm_case(rep: &mut Report, x: &[f64]) {
    let base_regime = sm_classify(x);
    let n = x.len();
    let spread = x.iter().cloned().fold(f64::NEG_INFINITY, f64::max) - x.iter().cloned().fold(f64::INFINITY, f64::min);
    rep.distinct(Hasher::new().s("sm").fs(x).finish(), n >= 2 && spread > 0.0);
    let base = sm_call(rep, x, base_regime);
    // shift invariance: constants ±1e3, ±1e4 and the one that moves the maximum to (about) zero
    let mx = x.iter().cloned().fold(f64::NEG_INFINITY, f64::max);
    let shifts = [1e3, -1e3, 1e4, -1e4, -mx.round()];
    for (si, &c) in shifts.iter().enumerate() {
        if c == 0.0 {
            continue;
        }
        let y: Vec<f64> = x.iter().map(|&v| v + c).collect();
        if y.iter().any(|v| v.abs() > 1e4) {
            continue; // outside the quantifier
        }
        let yr = sm_classify(&y);
        if yr == "other" {
            rep.note_add("softmax.shifted_into_unlabelled_band(skipped)", 1.0);
            continue;
        }
        let shifted = sm_call(rep, &y, yr);
        rep.seen(&format!("cover:softmax:shift:{}", ["+1e3", "-1e3", "+1e4", "-1e4", "-max"][si]), 1);
        if let (Some(a), Some(b)) = (&base, &shifted) {
            // both are within (n+32)ε of the same exact value (the shift is exact on the grid)
            let tol_rel = 2.0 * (n as f64 + 32.0) * EPS;
            let mut worst = 0.0f64;
            let mut at = 0;
            for i in 0..n {
                let q = (a[i] - b[i]).abs() / (tol_rel * a[i].max(b[i]) + 8.0 * TINY);
                if q > worst {
                    worst = q;
                    at = i;
                }
            }
            // label by the less benign of the two input classes
            let benign = |r: &str| r == "|x|<=700" || r == "0<=max<=700,min<-700";
            let regime = format!("softmax:{}", if benign(base_regime) && !benign(yr) { yr } else { base_regime });
            rep.check("C17.softmax.shift_invariant", &regime, worst <= 1.0, || {
                json!({"n": n, "x": jf(x), "shift": c, "i": at, "softmax(x)[i]": a[at], "softmax(x+c)[i]": b[at], "err/bound": worst, "shifted_regime": yr})
            });
            rep.seen("cover:softmax:shift:comparable", 1);
        }
    }
}

fn sm_len(rng: &mut Rng, i: usize) -> usize {
    match i % 8 {
        0 => 1,
        1 => 2,
        2 => rng.usize(3, 10),
        3 => 1000,
        4 | 5 => rng.usize(11, 200),
        _ => rng.usize(201, 1000),
    }
}

fn run_softmax(cfg: &Cfg, rep: &mut Report) {
    let n = cfg.pick(8000, 160_000, 20);
    par_cases(cfg, rep, 3, n, |i, rng, rep| {
        let len = sm_len(rng, i);
        let class = (i / 8) % 12;
        let x: Vec<f64> = match class {
            // maximum anywhere just below the overflow threshold of exp (709.78), entries within w of
            // it, and (half of the time) enough of them for the *sum* of exponentials to overflow
            10 => {
                let b = rng.range(700.5, 709.7);
                let w = *rng.choose(&[0.0, 1e-3, 1.0, 4.0]);
                let need = (709.8 - (b - 0.5 * w)).exp().ceil() as usize;
                let l = if rng.bool() { len.max(need.min(1000)) } else { len };
                (0..l).map(|_| on_grid(rng.range(b - w, b))).collect()
            }
            // mirror image: maximum just above the underflow threshold (-745.1)
            11 => {
                let b = rng.range(-745.0, -700.5);
                let w = *rng.choose(&[0.0, 1e-3, 1.0, 4.0]);
                (0..len).map(|_| on_grid(rng.range(b - w, b))).collect()
            }
            // |x| <= 700, several shapes
            0 => (0..len).map(|_| on_grid(rng.range(-700.0, 700.0))).collect(),
            1 => (0..len).map(|_| on_grid(rng.range(-700.0, -300.0))).collect(), // +1e3 stays in band
            2 => (0..len).map(|_| on_grid(rng.range(300.0, 700.0))).collect(),   // -1e3 stays in band
            3 => {
                let c = rng.range(-690.0, 690.0);
                let w = rng.log_range(1e-3, 10.0);
                (0..len).map(|_| on_grid((c + w * rng.normal()).clamp(-700.0, 700.0))).collect()
            }
            // max in [0,700], the rest anywhere below
            4 => {
                let mut v: Vec<f64> = (0..len.max(2)).map(|_| on_grid(rng.range(-1e4, 0.0))).collect();
                v[0] = on_grid(rng.range(0.0, 700.0));
                v[1] = on_grid(rng.range(-1e4, -701.0));
                rng.shuffle(&mut v);
                v
            }
            // overflow of a single exponential
            5 | 6 => {
                let mut v: Vec<f64> = (0..len).map(|_| on_grid(rng.range(-1e4, 1e4))).collect();
                let j = rng.usize(0, len - 1);
                v[j] = on_grid(if class == 5 { rng.range(710.0, 1e4) } else { rng.log_range(710.0, 1e4) });
                v
            }
            // all exponentials underflow to zero
            7 => (0..len).map(|_| on_grid(if rng.bool() { rng.range(-1e4, -746.0) } else { -rng.log_range(746.0, 1e4) })).collect(),
            // every exponential finite but their sum overflows
            8 => (0..len.max(100)).map(|_| on_grid(rng.range(706.0, 709.5))).collect(),
            // every exponential subnormal
            _ => (0..len.max(2)).map(|_| on_grid(rng.range(-745.0, -709.0))).collect(),
        };
        sm_case(rep, &x);
    });
    // literal cases from DESIGN's probe and ties
    sm_case(rep, &[1000.0, 1000.0]);
    sm_case(rep, &[-1000.0, -1000.0]);
    sm_case(rep, &[1.0, 2.0, 3.0, 4.0, 1.0, 2.0, 3.0]);
    sm_case(rep, &[0.0]);
    sm_case(rep, &[5.0, 5.0, 5.0, 5.0]);
    rep.sample(|| json!({"fn": "softmax", "x": [1.0, 2.0, 3.0], "value": softmax(&[1.0, 2.0, 3.0])}));
    for r in ["|x|<=700", "0<=max<=700,min<-700", "max>=710", "max<=-746", "706<=x<=709.5,n>=100", "-745<=x<=-709", "700<max<710", "-746<max<-700"] {
        rep.require(&format!("softmax:{}", r), 1);
    }
    rep.require("cover:softmax:shift:comparable", 1);
}

// ---------------------------------------------------------------------------------------------
// Box–Cox

/// (t^λ − 1)/λ through expm1(λ ln t)/λ; the logarithm at λ = 0. Returns (value, |λ ln t|).
fn bc_reference(t: f64, lambda: f64) -> (f64, f64) {
    let l = t.ln();
    if lambda == 0.0 {
        return (l, 0.0);
    }
    let y = lambda * l;
    ((y.exp_m1()) / lambda, y.abs())
}

fn bc_regime(lambda: f64, y: f64) -> &'static str {
    if lambda == 0.0 {
        "lambda=0"
    } else if lambda.abs() < 1e-8 {
        "0<|λ|<1e-8"
    } else if y < 1.0 {
        "|λ|>=1e-8,|λ·ln t|<1"
    } else {
        "|λ·ln t|>=1"
    }
}

fn bc_value(rep: &mut Report, assertion: &str, fname: &str, args: Value, t: f64, lambda: f64, got: f64) {
    let (r, y) = bc_reference(t, lambda);
    let regime = format!("{}:{}", fname, bc_regime(lambda, y));
    rep.seen(&regime, 1);
    // stable-evaluation bound: the reference itself carries ~2u|y| (rounded λ·ln t), the function is well conditioned
    // The statement fixes the value, not an accuracy. A literal (t^λ − 1)/λ loses log2(1/|λ ln t|) bits to
    // cancellation; a few digits of that are an admissible implementation choice, the total loss of the
    // original code (boxcox(2, 1e-17) = 0) is not. The line is drawn at 2^-40 (9.1e-13) relative: every
    // formula is accepted as long as it delivers twelve digits.
    let bound = (16.0 * EPS * (1.0 + y)).max(9.094947017729282e-13) * r.abs() + TINY;
    let tight = 16.0 * EPS * (1.0 + y) * r.abs() + TINY;
    let err = (got - r).abs();
    rep.note_max(&format!("info.worst_ratio.{}.vs_16eps_stable_evaluation_bound", fname), if err.is_nan() { f64::INFINITY } else { err / tight });
    let ratio = if err.is_nan() { f64::INFINITY } else { err / bound };
    if y >= 1.0 || lambda == 0.0 {
        rep.note_max(&format!("worst_ratio.{}.formula(regimes without cancellation)", fname), ratio);
    }
    // evidence: the same error measured against the cancellation bound of the literal formula (t^λ − 1)/λ
    if lambda != 0.0 {
        let naive = 4.0 * EPS * (t.powf(lambda) + 1.0) / lambda.abs() + 16.0 * EPS * (1.0 + y) * r.abs() + TINY;
        rep.note_max(&format!("worst_ratio.{}.vs_cancellation_bound_of_literal_formula", fname), if err.is_nan() { f64::INFINITY } else { err / naive });
    }
    rep.check(assertion, &regime, ratio <= 1.0, || json!({"args": args, "t=x+shift": t, "lambda": lambda, "got": jnum(got), "expected": jnum(r), "rel_err": jnum(err / r.abs()), "rel_bound": (16.0 * EPS * (1.0 + y)).max(9.094947017729282e-13), "|λ·ln t|": y}));
}

fn gen_lambda(rng: &mut Rng, i: usize) -> f64 {
    let sgn = if rng.bool() { 1.0 } else { -1.0 };
    match i % 8 {
        0 => 0.0,
        1 => sgn * rng.log_range(1e-300, 1e-8) * 0.999,
        2 => sgn * rng.log_range(1e-20, 1e-8) * 0.999,
        3 => sgn * rng.log_range(1e-8, 5.0),
        4 => *rng.choose(&[1.0, -1.0, 2.0, -2.0, 0.5, -0.5, 5.0, -5.0, 1.0 / 3.0]),
        _ => rng.range(-5.0, 5.0),
    }
}

fn run_boxcox(cfg: &Cfg, rep: &mut Report) {
    let n = cfg.pick(200_000, 4_000_000, 50);
    par_cases(cfg, rep, 4, n, |i, rng, rep| {
        let lambda = gen_lambda(rng, i);
        // ---- one-parameter form
        // x = 1 exactly, x within 1e-15..1e-3 of 1 (x^λ − 1 cancels there for every λ), or log-uniform
        let x = match i % 50 {
            0 => 1.0,
            1..=4 => {
                let d = rng.log_range(1e-15, 1e-3);
                if rng.bool() {
                    1.0 + d
                } else {
                    1.0 - d
                }
            }
            _ => rng.log_range(1e-6, 1e6),
        };
        rep.case("boxcox:x>0");
        rep.distinct(Hasher::new().s("bc").f(x).f(lambda).finish(), x != 1.0);
        match guard(|| boxcox(x, lambda)) {
            Err(msg) => {
                rep.check("C17.boxcox.accepts", "boxcox:x>0", false, || json!({"x": x, "lambda": lambda, "panic": msg}));
            }
            Ok(v) => {
                rep.check("C17.boxcox.accepts", "boxcox:x>0", true, || json!(null));
                bc_value(rep, "C17.boxcox.formula", "boxcox", json!({"x": x, "lambda": lambda}), x, lambda, v);
            }
        }
        if i % 10 == 0 {
            let bad = match (i / 10) % 4 {
                0 => 0.0,
                1 => -0.0,
                2 => -rng.log_range(1e-300, 1e6),
                _ => f64::NEG_INFINITY,
            };
            rep.case("boxcox:x<=0");
            let r = guard(|| boxcox(bad, lambda));
            outside_domain_note(rep, "C17.boxcox.rejects", &r);
        }
        // ---- two-parameter form: four classes by the two predicates (x > shift) and (x + shift > 0)
        let t = rng.log_range(1e-6, 1e6); // intended x + shift for the in-domain classes
        let class = (i / 8) % 6;
        let (xs, shift): (f64, f64) = match class {
            // in domain, x > shift: positive x with a smaller shift of either sign
            0 => {
                let x = rng.log_range(1e-6, 1e6);
                let s = if rng.bool() { x * rng.range(0.0, 0.999) } else { -x * rng.range(0.0, 0.999) };
                (x, s)
            }
            // in domain, x <= shift: x in (1e-6, 1e6) or negative, shift >= |x|
            1 => {
                let x = rng.log_range(1e-6, 1e6);
                (x, x * (1.0 + rng.log_range(1e-3, 1e3)))
            }
            2 => {
                let s = rng.log_range(1e-6, 1e6);
                (-s * rng.range(0.0, 0.999), s)
            }
            // outside the domain although x > shift: shift < 0, x <= |shift|
            3 => {
                let x = rng.log_range(1e-6, 1e6);
                (x, -x * (1.0 + rng.log_range(1e-3, 1e3)))
            }
            // outside the domain, x <= shift (both non-positive sum): x <= -|shift|
            4 => {
                let s = rng.log_range(1e-6, 1e6) * if rng.bool() { 1.0 } else { -1.0 };
                (-s.abs() * (1.0 + rng.log_range(1e-3, 1e3)), s)
            }
            // in domain, shift = 0 or aimed at a given t
            _ => {
                if rng.chance(0.3) {
                    (t, 0.0)
                } else if rng.chance(0.4) {
                    // x + shift within 1e-13..1e-3 of 1, both shift signs
                    let d = rng.log_range(1e-13, 1e-3) * if rng.bool() { 1.0 } else { -1.0 };
                    let x = rng.range(-4.0, 4.0);
                    (x, (1.0 + d) - x)
                } else {
                    let s = on_grid(rng.range(-100.0, 100.0));
                    (on_grid(t.min(9e3)) + 1.0 + s.abs(), s)
                }
            }
        };
        let sum = xs + shift;
        let in_domain = sum > 0.0;
        let regime = match (xs > shift, in_domain) {
            (true, true) => "boxcox_shifted:x>shift,x+shift>0",
            (false, true) => "boxcox_shifted:x<=shift,x+shift>0",
            (true, false) => "boxcox_shifted:x>shift,x+shift<=0",
            (false, false) => "boxcox_shifted:x<=shift,x+shift<=0",
        };
        rep.case(regime);
        if shift > 0.0 {
            rep.seen("cover:boxcox_shifted:shift>0", 1);
        } else if shift < 0.0 {
            rep.seen("cover:boxcox_shifted:shift<0", 1);
        }
        rep.distinct(Hasher::new().s("bcs").f(xs).f(shift).f(lambda).finish(), shift != 0.0);
        let r = guard(|| boxcox_shifted(xs, lambda, shift));
        let args = json!({"x": xs, "lambda": lambda, "shift": shift, "x+shift": sum});
        if in_domain {
            match r {
                Err(msg) => {
                    rep.check("C17.boxcox_shifted.accepts", regime, false, || json!({"args": args, "panic": msg, "expected": "a value: x + shift > 0"}));
                }
                Ok(v) => {
                    rep.check("C17.boxcox_shifted.accepts", regime, true, || json!(null));
                    bc_value(rep, "C17.boxcox_shifted.formula", "boxcox_shifted", args, sum, lambda, v);
                }
            }
        } else {
            outside_domain_note(rep, "C17.boxcox_shifted.rejects", &r);
        }
    });
    rep.sample(|| json!({"fn": "boxcox", "x": 2.0, "lambda": 0.5, "value": boxcox(2.0, 0.5), "reference": bc_reference(2.0, 0.5).0}));
    for r in ["boxcox:x>0", "boxcox:x<=0", "boxcox:lambda=0", "boxcox:0<|λ|<1e-8", "boxcox:|λ|>=1e-8,|λ·ln t|<1", "boxcox:|λ·ln t|>=1",
        "boxcox_shifted:x>shift,x+shift>0", "boxcox_shifted:x<=shift,x+shift>0", "boxcox_shifted:x>shift,x+shift<=0", "boxcox_shifted:x<=shift,x+shift<=0",
        "cover:boxcox_shifted:shift>0", "cover:boxcox_shifted:shift<0"] {
        rep.require(r, 1);
    }
}

// ---------------------------------------------------------------------------------------------
// binomial coefficients

fn pascal_table(nmax: usize) -> Vec<Vec<u128>> {
    let mut t: Vec<Vec<u128>> = Vec::with_capacity(nmax + 1);
    for n in 0..=nmax {
        let mut row = vec![1u128; n + 1];
        for k in 1..n {
            row[k] = t[n - 1][k - 1] + t[n - 1][k];
        }
        t.push(row);
    }
    t
}

/// One (n,k) whose exact value fits in 64 bits: value, symmetry, Pascal.
fn binom_one(rep: &mut Report, n: u64, k: u64, expect: u128, regime: &str) {
    rep.case(regime);
    rep.distinct(Hasher::new().s("b").u(n).u(k).finish(), k >= 1 && k < n);
    let got = guard(|| binom_coeff(n, k));
    let ok = matches!(&got, Ok(v) if *v as u128 == expect);
    rep.check("C17.binom_coeff.exact", regime, ok, || json!({"n": n, "k": k, "observed": match &got { Ok(v) => json!(v.to_string()), Err(e) => json!({"panic": e}) }, "expected": expect.to_string()}));
    if !ok {
        return;
    }
    let v = got.unwrap();
    let sym = guard(|| binom_coeff(n, n - k));
    rep.check("C17.binom_coeff.symmetry", regime, matches!(&sym, Ok(s) if *s == v), || json!({"n": n, "k": k, "C(n,k)": v.to_string(), "C(n,n-k)": format!("{:?}", sym)}));
    // Pascal on the library's own outputs, when the right-hand side fits as well
    if k < n {
        if let Some(rhs) = exact::binom_u128(n + 1, k + 1) {
            if rhs <= u64::MAX as u128 {
                let a = guard(|| binom_coeff(n, k + 1));
                let b = guard(|| binom_coeff(n + 1, k + 1));
                let ok = match (&a, &b) {
                    (Ok(a), Ok(b)) => v as u128 + *a as u128 == *b as u128,
                    _ => false,
                };
                rep.check("C17.binom_coeff.pascal", regime, ok, || json!({"n": n, "k": k, "C(n,k)": v.to_string(), "C(n,k+1)": format!("{:?}", a), "C(n+1,k+1)": format!("{:?}", b)}));
            }
        }
    }
}

fn run_binom(cfg: &Cfg, rep: &mut Report) {
    // exhaustive n <= 67 against a u128 Pascal table (cross-checked with the multiplicative oracle)
    let table = pascal_table(68);
    let nmax = if cfg.lite { 30 } else { 67 };
    let mut oracle_ok = true;
    for n in 0..=nmax as u64 {
        for k in 0..=n {
            let e = table[n as usize][k as usize];
            if exact::binom_u128(n, k) != Some(e) || e > u64::MAX as u128 {
                oracle_ok = false;
            }
            binom_one(rep, n, k, e, "binom_coeff:n<=67");
            // the gamma-based alternative: exact while the documentation promises it (n < 50, and the
            // repository's own test asserts equality for n <= 45), then "slightly inaccurate": relative 1e-12
            // (≈ 30× the a-priori error of three log-gamma terms of size <= 210 and one exp) or ±2
            let regime = if n <= 45 { "binom_coeff_alt:n<=45" } else { "binom_coeff_alt:46<=n<=67" };
            rep.case(regime);
            let got = guard(|| binom_coeff_alt(n, k));
            let (ok, ratio) = match &got {
                Ok(v) => {
                    let d = (*v as i128 - e as i128).unsigned_abs() as f64;
                    rep.note_max(&format!("worst_abs_err.binom_coeff_alt.n={}", if n <= 45 { "0..45".to_string() } else { format!("{}..{}", (n - 1) / 5 * 5 + 1, (n - 1) / 5 * 5 + 5) }), d);
                    if n <= 45 {
                        (d == 0.0, d)
                    } else {
                        let b = (1e-12 * e as f64).max(2.0);
                        (d <= b, d / b)
                    }
                }
                Err(_) => (false, f64::INFINITY),
            };
            if n > 45 {
                rep.note_max("worst_ratio.binom_coeff_alt.46<=n<=67", ratio);
            }
            if n > 45 {
                if let Ok(v) = &got {
                    rep.note_max("worst_rel_err.binom_coeff_alt.46<=n<=67", (*v as f64 - e as f64).abs() / e as f64);
                }
            }
            rep.check("C17.binom_coeff_alt.accuracy", regime, ok, || json!({"n": n, "k": k, "observed": format!("{:?}", got), "expected": e.to_string()}));
        }
    }
    if !oracle_ok {
        rep.inconclusive("binomial oracles disagree (Pascal table vs multiplicative u128)".into());
    }
    rep.exhaustive = Some(!cfg.lite);
    rep.sample(|| json!({"fn": "binom_coeff", "n": 67, "k": 33, "value": match guard(|| binom_coeff(67, 33)) { Ok(v) => v.to_string(), Err(e) => format!("panic: {}", e) }, "expected": table[67][33].to_string()}));
    // larger n, k <= 32 (and the mirrored k), value below 2^64
    let n = cfg.pick(100_000, 2_000_000, 30);
    par_cases(cfg, rep, 5, n, |i, rng, rep| {
        let k = match i % 4 {
            0 => rng.usize(0, 3) as u64,
            1 => rng.usize(4, 12) as u64,
            _ => rng.usize(13, 32) as u64,
        };
        // largest n with C(n,k) < 2^64 by bisection on the u128 oracle
        let fits = |n: u64| matches!(exact::binom_u128(n, k), Some(v) if v <= u64::MAX as u128);
        let cap: u64 = if k == 0 {
            u64::MAX - 1
        } else if k == 1 {
            u64::MAX - 1
        } else {
            let (mut lo, mut hi) = (68u64.max(k), 1u64 << 63);
            if !fits(lo) {
                return;
            }
            while hi - lo > 1 {
                let mid = lo + (hi - lo) / 2;
                if fits(mid) {
                    lo = mid;
                } else {
                    hi = mid;
                }
            }
            lo
        };
        if cap < 68 {
            return;
        }
        let nn = match (i / 4) % 4 {
            0 => rng.int(68, (cap as i64).clamp(68, 10_000)) as u64,
            1 => cap - (rng.u64() % 3).min(cap - 68),
            2 => (rng.log_range(68.0, cap as f64) as u64).clamp(68, cap),
            _ => rng.int(68, (cap as i64).clamp(68, 200)) as u64,
        };
        let e = match exact::binom_u128(nn, k) {
            Some(v) if v <= u64::MAX as u128 => v,
            _ => return,
        };
        let regime = if nn <= 10_000 { "binom_coeff:68<=n<=1e4,k<=32" } else { "binom_coeff:n>1e4,k<=32" };
        binom_one(rep, nn, k, e, regime);
        if nn - k != k && nn < u64::MAX / 2 {
            binom_one(rep, nn, nn - k, e, if nn <= 10_000 { "binom_coeff:68<=n<=1e4,k>=n-32" } else { "binom_coeff:n>1e4,k>=n-32" });
        }
    });
    for r in ["binom_coeff:n<=67", "binom_coeff:68<=n<=1e4,k<=32", "binom_coeff:n>1e4,k<=32", "binom_coeff:68<=n<=1e4,k>=n-32", "binom_coeff_alt:n<=45"] {
        rep.require(r, 1);
    }
    run_binom_alt_large(cfg, rep);
}

/// ln(m!) summed in f64 (harness side; enters the rounding terms of the accuracy bound only).
fn ln_fact(m: u64) -> f64 {
    (2..=m).map(|i| (i as f64).ln()).sum()
}

/// Relative accuracy that C09 guarantees for `gamma` on every argument whose true value is a finite
/// normal f64 (the three arguments n+1, k+1, n−k+1 <= 171 are such arguments).
const GAMMA_REL: f64 = 1e-13;

/// A-priori relative error of x = exp(ln Γ(n+1) − ln Γ(k+1) − ln Γ(n−k+1)) before it is rounded to an
/// integer, from the accuracy clause of C09 alone:
///   * three gamma values of relative error δ <= 1e-13 each: |ln(1+δ)| <= δ(1+δ), absolute in the exponent;
///   * three logarithms, each within 1 ulp = 2u of the exact one: 2u(A + B + C), A = ln n!, B = ln k!, C = ln (n−k)!;
///   * two correctly rounded subtractions: u|A − B| + u|L|, L = ln C(n,k);
///   * an absolute error E in the exponent is a relative error expm1(E) of the exponential, which itself is
///     within 1 ulp = 2u.
/// For 68 <= n <= 170 and C(n,k) < 2^64 this is between 3.6e-13 and 6.9e-13.
fn alt_rel_bound(n: u64, k: u64) -> f64 {
    let u = 0.5 * EPS;
    let (a, b, c) = (ln_fact(n), ln_fact(k), ln_fact(n - k));
    let l = a - b - c;
    let e = 3.0 * GAMMA_REL * (1.0 + GAMMA_REL) + 2.0 * u * (a + b + c) + u * ((a - b).abs() + l.abs());
    e.exp_m1() * (1.0 + 2.0 * u) + 2.0 * u
}

/// The gamma-based coefficient beyond the exhaustive table: every n from 68 up to the largest n whose
/// factorial Γ(n+1) is a finite f64, every k <= 32 and every k >= n − 32 with C(n,k) < 2^64, against the
/// u128 oracle. |got − C| <= floor(bound·C + 1/2) — the rounding to the nearest integer adds at most 1/2 —
/// so wherever bound·C < 1/2 the result must be the exact integer. Beyond that n the function cannot
/// work (Γ(n+1) overflows): what it returns is counted as evidence, never judged.
fn run_binom_alt_large(cfg: &Cfg, rep: &mut Report) {
    // largest n with n! finite in f64
    let mut n_top = 1u64;
    let mut f = 1.0f64;
    while (f * (n_top + 1) as f64).is_finite() {
        n_top += 1;
        f *= n_top as f64;
    }
    let lo_regime = format!("binom_coeff_alt:68<=n<={},k<=32", n_top);
    let hi_regime = format!("binom_coeff_alt:68<=n<={},k>=n-32", n_top);
    let stride = if cfg.miri() { 17 } else { 1 };
    let mut max_bound = 0.0f64;
    for n in (68..=n_top).step_by(stride) {
        for j in 0..=32u64 {
            if cfg.miri() && ![0, 2, 9, 32].contains(&j) {
                continue;
            }
            let e = match exact::binom_u128(n, j) {
                Some(v) if v <= u64::MAX as u128 => v,
                _ => continue,
            };
            let rel = alt_rel_bound(n, j);
            max_bound = max_bound.max(rel);
            let slack = rel * e as f64 + 0.5;
            let demand_exact = slack < 1.0;
            let allowed = slack.floor();
            for (k, regime) in [(j, &lo_regime), (n - j, &hi_regime)] {
                rep.case(regime);
                rep.distinct(Hasher::new().s("balt").u(n).u(k).finish(), j >= 1);
                rep.seen(if demand_exact { "cover:binom_coeff_alt:large-n:bound<1/2(exact)" } else { "cover:binom_coeff_alt:large-n:bound>=1/2" }, 1);
                let got = guard(|| binom_coeff_alt(n, k));
                let d = match &got {
                    Ok(v) => (*v as i128 - e as i128).unsigned_abs() as f64,
                    Err(_) => f64::INFINITY,
                };
                rep.note_max("worst_ratio.binom_coeff_alt.large-n(|got-C|/(bound*C+1/2))", d / slack);
                if !demand_exact {
                    rep.note_max("worst_rel_err.binom_coeff_alt.large-n(where bound*C>=1/2)", d / e as f64);
                    rep.note_max("worst_ratio.binom_coeff_alt.large-n.rel_err/rel_bound(where bound*C>=1/2)", (d - 0.5).max(0.0) / (rel * e as f64));
                }
                let assertion = if demand_exact { "C17.binom_coeff_alt.exact_where_bound<1/2" } else { "C17.binom_coeff_alt.accuracy" };
                rep.check(assertion, regime, d <= allowed, || {
                    json!({"n": n, "k": k, "observed": match &got { Ok(v) => json!(v.to_string()), Err(m) => json!({"panic": m}) }, "expected": e.to_string(),
                           "abs_err": jnum(d), "allowed_abs_err": allowed, "rel_bound": rel, "bound_from": "3 gamma values at 1e-13 (C09) + ln/exp round trip"})
                });
            }
        }
    }
    rep.note_max("binom_coeff_alt.large-n.max_rel_bound", max_bound);
    rep.require(&lo_regime, 1);
    rep.require(&hi_regime, 1);
    rep.require("cover:binom_coeff_alt:large-n:bound<1/2(exact)", 1);
    rep.require("cover:binom_coeff_alt:large-n:bound>=1/2", 1);
    // beyond the range of gamma: evidence only
    let beyond: Vec<u64> = if cfg.miri() { vec![n_top + 1, 1000] } else { (n_top + 1..=n_top + 60).chain([300, 1000, 100_000, 1 << 32, u64::MAX / 4]).collect() };
    for n in beyond {
        for k in [0u64, 1, 2, 5, 12] {
            let e = match exact::binom_u128(n, k) {
                Some(v) if v <= u64::MAX as u128 => v,
                _ => continue,
            };
            rep.case("binom_coeff_alt:n>gamma-range(evidence only)");
            let outcome = match guard(|| binom_coeff_alt(n, k)) {
                Err(_) => "panicked",
                Ok(v) if v as u128 == e => "returned_the_exact_value",
                Ok(u64::MAX) => "returned_u64::MAX",
                Ok(0) => "returned_0",
                Ok(_) => "returned_another_value",
            };
            rep.note_add(&format!("binom_coeff_alt.n>{}(gamma overflows; not judged).{}", n_top, outcome), 1.0);
        }
    }
}

// ---------------------------------------------------------------------------------------------
// rejection probes with non-numbers and one-ulp-outside arguments

fn next_up(x: f64) -> f64 {
    // x finite, non-NaN
    if x == 0.0 {
        return 5e-324;
    }
    let b = x.to_bits();
    f64::from_bits(if x > 0.0 { b + 1 } else { b - 1 })
}
fn next_down(x: f64) -> f64 {
    -next_up(-x)
}

/// NaNs of both signs, quiet and signalling-pattern, with several payloads.
fn nan_family(rng: &mut Rng) -> Vec<f64> {
    let mut v = vec![f64::NAN, -f64::NAN, f64::from_bits(0x7ff0_0000_0000_0001), f64::from_bits(0xfff8_0000_0000_0001), f64::from_bits(0x7fff_ffff_ffff_ffff), 0.0 / 0.0 * 1.0, f64::INFINITY - f64::INFINITY];
    for _ in 0..3 {
        let payload = (rng.u64() % ((1u64 << 52) - 1)) + 1;
        let sign = rng.u64() & (1u64 << 63);
        v.push(f64::from_bits(sign | 0x7ff0_0000_0000_0000 | payload));
    }
    v
}

fn reject_probe(rep: &mut Report, assertion: &str, regime: &str, args: Value, r: Result<f64, String>) {
    rep.case(regime);
    if assertion.starts_with("C17.boxcox") {
        outside_domain_note(rep, assertion, &r);
        return;
    }
    rep.check(assertion, regime, r.is_err(), || json!({"args": args, "observed": jnum(*r.as_ref().unwrap()), "expected": "panic: argument is not inside the domain"}));
}

/// The statement gives the Box–Cox transforms a value "on their stated domain x + shift > 0" and, unlike
/// the logit clause, promises nothing outside it: what a call outside the domain does (the pinned tree
/// panics; returning NaN / the IEEE limit would be as legitimate) is recorded as evidence, never judged.
fn outside_domain_note(rep: &mut Report, assertion: &str, r: &Result<f64, String>) {
    let f = if assertion.contains("shifted") { "boxcox_shifted" } else { "boxcox" };
    rep.note_add(&format!("outside_domain.{}.{}", f, if r.is_err() { "panicked" } else { "returned_a_value" }), 1.0);
}

/// Every function the property describes as rejecting arguments (`logit` outside [0,1]; the Box–Cox
/// transforms outside x + shift > 0) is probed with what is *not* inside the domain without being an
/// ordinary out-of-range number: NaN (any sign / payload), ±∞ where they are outside, and the
/// representable neighbours of the domain edge.
fn rejection_case(rep: &mut Report, rng: &mut Rng, i: usize) {
    {
        let lambda = gen_lambda(rng, i);
        let mut nans = nan_family(rng);
        if cfg!(miri) {
            nans.truncate(3); // a panic costs ~0.1 s there
        }
        // ---- logit
        for &p in &nans {
            reject_probe(rep, "C17.logit.rejects", "logit:NaN", json!({"p": format!("NaN bits {:#018x}", p.to_bits())}), guard(|| logit(p)));
        }
        for &p in &[f64::INFINITY, f64::NEG_INFINITY] {
            reject_probe(rep, "C17.logit.rejects", "logit:±inf", json!({"p": jnum(p)}), guard(|| logit(p)));
        }
        for &p in &[next_up(1.0), next_down(0.0), next_down(-0.0), next_up(next_up(1.0)), -TINY] {
            reject_probe(rep, "C17.logit.rejects", "logit:1ulp-outside", json!({"p": p, "bits": format!("{:#018x}", p.to_bits())}), guard(|| logit(p)));
        }
        // the neighbours on the inside must still be accepted
        for &p in &[next_down(1.0), 1.0, 0.0, -0.0, 5e-324] {
            logistic_of_logit(rep, p, "logistic∘logit:p-edge-inside");
        }
        // ---- boxcox
        for &x in &nans {
            reject_probe(rep, "C17.boxcox.rejects", "boxcox:x=NaN", json!({"x": format!("NaN bits {:#018x}", x.to_bits()), "lambda": lambda}), guard(|| boxcox(x, lambda)));
        }
        for &x in &[f64::NEG_INFINITY, next_down(0.0), -TINY, 0.0, -0.0] {
            reject_probe(rep, "C17.boxcox.rejects", "boxcox:x<=0:edge,-inf", json!({"x": jnum(x), "lambda": lambda}), guard(|| boxcox(x, lambda)));
        }
        {
            // smallest positive argument is inside the domain
            let x = 5e-324;
            rep.case("boxcox:x>0");
            let r = guard(|| boxcox(x, lambda));
            rep.check("C17.boxcox.accepts", "boxcox:x>0", r.is_ok(), || json!({"x": x, "lambda": lambda, "panic": r.as_ref().err()}));
        }
        // ---- boxcox_shifted: x + shift is NaN
        let fin = rng.log_range(1e-6, 1e6) * if rng.bool() { 1.0 } else { -1.0 };
        for &q in &nans {
            for (x, s) in [(q, fin), (fin, q), (q, q), (q, 0.0), (q, f64::INFINITY)] {
                reject_probe(rep, "C17.boxcox_shifted.rejects", "boxcox_shifted:x+shift=NaN", json!({"x": jnum(x), "shift": jnum(s), "lambda": lambda, "nan_bits": format!("{:#018x}", q.to_bits())}), guard(|| boxcox_shifted(x, lambda, s)));
            }
        }
        for (x, s) in [(f64::INFINITY, f64::NEG_INFINITY), (f64::NEG_INFINITY, f64::INFINITY)] {
            reject_probe(rep, "C17.boxcox_shifted.rejects", "boxcox_shifted:x+shift=NaN", json!({"x": jnum(x), "shift": jnum(s), "lambda": lambda}), guard(|| boxcox_shifted(x, lambda, s)));
        }
        // x + shift = -inf, exactly 0 (x = -shift, both orders of sign), one ulp below 0
        let a = rng.log_range(1e-6, 1e6);
        for (x, s) in [(f64::NEG_INFINITY, fin), (fin, f64::NEG_INFINITY), (a, -a), (-a, a), (0.0, 0.0), (-0.0, -0.0), (0.0, -5e-324), (-5e-324, 0.0), (a, next_down(-a)), (next_down(-a), a), (-TINY, 0.5 * TINY)] {
            let sum = x + s;
            debug_assert!(!(sum > 0.0));
            reject_probe(rep, "C17.boxcox_shifted.rejects", "boxcox_shifted:x+shift<=0:edge,-inf", json!({"x": jnum(x), "shift": jnum(s), "x+shift": jnum(sum), "lambda": lambda}), guard(|| boxcox_shifted(x, lambda, s)));
        }
        // one ulp inside: x + shift is the smallest positive difference
        for (x, s) in [(a, next_up(-a)), (next_up(-a), a), (5e-324, 0.0), (0.0, 5e-324)] {
            let sum = x + s;
            if !(sum > 0.0) {
                continue;
            }
            let regime = if x > s { "boxcox_shifted:x>shift,x+shift>0" } else { "boxcox_shifted:x<=shift,x+shift>0" };
            rep.case(regime);
            rep.seen("cover:boxcox_shifted:1ulp-inside", 1);
            let r = guard(|| boxcox_shifted(x, lambda, s));
            rep.check("C17.boxcox_shifted.accepts", regime, r.is_ok(), || json!({"x": x, "shift": s, "x+shift": sum, "lambda": lambda, "panic": r.as_ref().err()}));
        }
    }
}

// ---------------------------------------------------------------------------------------------
// history independence: the functions of C17 are functions of their arguments

/// One observable library call.
#[derive(Clone, Debug)]
enum Call {
    Logistic(f64),
    Logit(f64),
    Boxcox(f64, f64),
    BoxcoxShifted(f64, f64, f64),
    Softmax(Vec<f64>),
    Binom(u64, u64),
    BinomAlt(u64, u64),
}

/// Observation of a call: the bit patterns of what it returned, or "panicked".
type Obs = Result<Vec<u64>, ()>;

fn fbits(x: f64) -> u64 {
    if x.is_nan() {
        0x7ff8_0000_0000_0000
    } else {
        x.to_bits()
    }
}

impl Call {
    fn name(&self) -> &'static str {
        match self {
            Call::Logistic(_) => "logistic",
            Call::Logit(_) => "logit",
            Call::Boxcox(..) => "boxcox",
            Call::BoxcoxShifted(..) => "boxcox_shifted",
            Call::Softmax(_) => "softmax",
            Call::Binom(..) => "binom_coeff",
            Call::BinomAlt(..) => "binom_coeff_alt",
        }
    }
    fn eval(&self) -> Obs {
        guard(|| match self {
            Call::Logistic(x) => vec![fbits(logistic(*x))],
            Call::Logit(p) => vec![fbits(logit(*p))],
            Call::Boxcox(x, l) => vec![fbits(boxcox(*x, *l))],
            Call::BoxcoxShifted(x, l, s) => vec![fbits(boxcox_shifted(*x, *l, *s))],
            Call::Softmax(v) => softmax(v).iter().map(|&y| fbits(y)).collect(),
            Call::Binom(n, k) => vec![binom_coeff(*n, *k)],
            Call::BinomAlt(n, k) => vec![binom_coeff_alt(*n, *k)],
        })
        .map_err(|_| ())
    }
    fn json(&self) -> Value {
        match self {
            Call::Logistic(x) => json!({"x": jnum(*x)}),
            Call::Logit(p) => json!({"p": jnum(*p)}),
            Call::Boxcox(x, l) => json!({"x": jnum(*x), "lambda": jnum(*l)}),
            Call::BoxcoxShifted(x, l, s) => json!({"x": jnum(*x), "lambda": jnum(*l), "shift": jnum(*s)}),
            Call::Softmax(v) => json!({"x": jf(v)}),
            Call::Binom(n, k) | Call::BinomAlt(n, k) => json!({"n": n, "k": k}),
        }
    }
    /// A different call of the same function whose arguments lie within a relative distance
    /// 2^-52..1e-6 of this one's (integers: ±1) in a non-empty subset of the coordinates.
    fn near(&self, rng: &mut Rng) -> Call {
        fn nudge(rng: &mut Rng, x: f64) -> f64 {
            let y = match rng.usize(0, 3) {
                0 => {
                    if rng.bool() {
                        next_up(x)
                    } else {
                        next_down(x)
                    }
                }
                1 => x + (rng.log_range(1e-15, 1e-6) * if rng.bool() { 1.0 } else { -1.0 }),
                _ => x * (1.0 + rng.log_range(1e-15, 1e-6) * if rng.bool() { 1.0 } else { -1.0 }),
            };
            if y == x || !y.is_finite() {
                next_up(x)
            } else {
                y
            }
        }
        let mask = rng.usize(1, 7);
        match self {
            Call::Logistic(x) => Call::Logistic(nudge(rng, *x)),
            Call::Logit(p) => Call::Logit(nudge(rng, *p)),
            Call::Boxcox(x, l) => {
                let m = 1 + mask % 3;
                Call::Boxcox(if m & 1 != 0 { nudge(rng, *x) } else { *x }, if m & 2 != 0 { nudge(rng, *l) } else { *l })
            }
            Call::BoxcoxShifted(x, l, s) => Call::BoxcoxShifted(if mask & 1 != 0 { nudge(rng, *x) } else { *x }, if mask & 2 != 0 { nudge(rng, *l) } else { *l }, if mask & 4 != 0 { nudge(rng, *s) } else { *s }),
            Call::Softmax(v) => {
                let mut w = v.clone();
                if rng.bool() {
                    let j = rng.usize(0, w.len() - 1);
                    w[j] = nudge(rng, w[j]);
                } else {
                    for e in w.iter_mut() {
                        *e = nudge(rng, *e);
                    }
                }
                Call::Softmax(w)
            }
            Call::Binom(n, k) | Call::BinomAlt(n, k) => {
                let (n2, k2) = match rng.usize(0, 3) {
                    0 => (n + 1, *k),
                    1 if *n > *k => (n - 1, *k),
                    2 if *k < *n => (*n, k + 1),
                    3 if *k > 0 => (*n, k - 1),
                    _ => (n + 1, k + 1),
                };
                if matches!(self, Call::Binom(..)) {
                    Call::Binom(n2, k2)
                } else {
                    Call::BinomAlt(n2, k2)
                }
            }
        }
    }
}

fn gen_call(rng: &mut Rng, which: usize) -> Call {
    match which % 7 {
        0 => Call::Logistic(match rng.usize(0, 2) {
            0 => rng.range(-40.0, 40.0),
            1 => rng.range(-745.0, 745.0),
            _ => rng.log_range(1e-12, 30.0) * if rng.bool() { 1.0 } else { -1.0 },
        }),
        // interior, tiny, next to 1, and the end points (whose neighbours are outside the domain)
        1 => Call::Logit(match rng.usize(0, 5) {
            0 | 1 => rng.open01(),
            2 => rng.log_range(1e-300, 1e-3),
            3 => 1.0 - rng.log_range(EPS / 2.0, 1e-3),
            4 => 1.0,
            _ => 0.0,
        }),
        2 => {
            let li = rng.usize(0, 7);
            let l = gen_lambda(rng, li);
            Call::Boxcox(
                match rng.usize(0, 4) {
                    0 => 1.0 + rng.log_range(1e-15, 1e-3) * if rng.bool() { 1.0 } else { -1.0 },
                    1 => 5e-324,
                    _ => rng.log_range(1e-6, 1e6),
                },
                l,
            )
        }
        3 => {
            let li = rng.usize(0, 7);
            let l = gen_lambda(rng, li);
            let x = rng.log_range(1e-6, 1e6) * if rng.bool() { 1.0 } else { -1.0 };
            let s = match rng.usize(0, 4) {
                0 => next_up(-x),     // x + shift one ulp inside
                1 => -x,              // x + shift = 0: rejected, neighbours accepted
                2 => 0.0,
                _ => x.abs() * rng.log_range(1.001, 1e3),
            };
            Call::BoxcoxShifted(x, l, s)
        }
        4 => {
            let len = *rng.choose(&[1usize, 2, 3, 7, 40]);
            let c = rng.range(-1e4, 1e4);
            let w = *rng.choose(&[0.0, 1e-9, 1.0, 30.0, 800.0]);
            Call::Softmax((0..len).map(|_| (c + w * rng.range(-1.0, 1.0)).clamp(-1e4, 1e4)).collect())
        }
        5 => {
            let n = rng.usize(1, 67) as u64;
            Call::Binom(n, rng.usize(0, n as usize) as u64)
        }
        _ => {
            let n = rng.usize(1, 60) as u64;
            Call::BinomAlt(n, rng.usize(0, n as usize) as u64)
        }
    }
}

fn on_fresh_thread<T: Send>(f: impl FnOnce() -> T + Send) -> T {
    std::thread::scope(|s| s.spawn(f).join().expect("fresh thread"))
}

fn obs_json(o: &Obs) -> Value {
    match o {
        Err(()) => json!("panic"),
        Ok(v) if v.len() == 1 => json!(format!("{:#018x} ({:e})", v[0], f64::from_bits(v[0]))),
        Ok(v) => json!(v.iter().take(8).map(|b| format!("{:#018x}", b)).collect::<Vec<_>>()),
    }
}

/// The value (or panic) of a call must not depend on which calls the thread made before it. The
/// call under test is observed (a) directly after an unrelated ("far") call of the same function — the
/// baseline —, (b) as the first library call of a new thread, (c) after itself, (d) after each of three
/// near neighbours (arguments within 2^-52..1e-6), (e) as the last element of the sweep
/// near1, near2, near3, target; the neighbours are observed after the target and inside the sweep
/// as well. All observations of one argument must be identical bit for bit.
fn history_case(cfg: &Cfg, rep: &mut Report, rng: &mut Rng, which: usize, fresh: bool) {
    let target = gen_call(rng, which);
    let far = gen_call(rng, which);
    let nears: Vec<Call> = (0..3).map(|_| target.near(rng)).collect();
    let name = target.name();
    let assertion = format!("C17.{}.history_independent", name);
    // every observation starts from the same state: the unrelated call first, so that the recorded
    // predecessor chain (unrelated call, predecessor, call) is the complete relevant history
    let after = |pred: &Call, c: &Call| -> Obs {
        let _ = far.eval();
        let _ = pred.eval();
        c.eval()
    };
    let baseline = |c: &Call| -> Obs {
        let _ = far.eval();
        c.eval()
    };
    let base_t = baseline(&target);
    let base_n: Vec<Obs> = nears.iter().map(baseline).collect();
    let cmp = |rep: &mut Report, kind: &str, c: &Call, base: &Obs, got: &Obs, pred: Value| {
        let regime = format!("{}:history:{}", name, kind);
        rep.case(&regime);
        rep.check(&assertion, &regime, base == got, || json!({"call": c.json(), "preceded_by": pred, "observed": obs_json(got), "same_call_after_an_unrelated_call": obs_json(base), "unrelated_call": far.json()}));
    };
    if fresh && !cfg.miri() {
        let got = on_fresh_thread(|| target.eval());
        cmp(rep, "fresh-thread", &target, &base_t, &got, json!("nothing (first call of a new thread)"));
    }
    let got = after(&target, &target);
    cmp(rep, "after-self", &target, &base_t, &got, target.json());
    for (c, b) in nears.iter().zip(&base_n) {
        let got = after(c, &target);
        cmp(rep, "after-near", &target, &base_t, &got, c.json());
        let got = after(&target, c);
        cmp(rep, "after-near", c, b, &got, target.json());
    }
    let _ = far.eval();
    let mut prev = far.json();
    for (c, b) in nears.iter().zip(&base_n).chain(std::iter::once((&target, &base_t))) {
        let got = c.eval();
        cmp(rep, "sweep", c, b, &got, prev);
        prev = c.json();
    }
    rep.distinct(Hasher::new().s("hist").s(name).s(&target.json().to_string()).finish(), true);
}

const HISTORY_FNS: [&str; 7] = ["logistic", "logit", "boxcox", "boxcox_shifted", "softmax", "binom_coeff", "binom_coeff_alt"];

/// Rejection probes and history cases run as one fan-out (stream 6): case indices 0..n_rej are
/// rejection cases, the rest history cases.
fn run_added_families(cfg: &Cfg, rep: &mut Report) {
    let n_rej = cfg.pick(64, 512, 2);
    let n_hist = cfg.pick(7 * 600, 7 * 12_000, 7);
    par_cases(cfg, rep, 6, n_rej + n_hist, |i, rng, rep| {
        if i < n_rej {
            rejection_case(rep, rng, i);
        } else {
            let k = i - n_rej;
            history_case(cfg, rep, rng, k % 7, (k / 7) % 8 == 0);
        }
    });
    for r in ["logit:NaN", "logit:±inf", "logit:1ulp-outside", "logistic∘logit:p-edge-inside", "boxcox:x=NaN", "boxcox:x<=0:edge,-inf", "boxcox_shifted:x+shift=NaN", "boxcox_shifted:x+shift<=0:edge,-inf", "cover:boxcox_shifted:1ulp-inside"] {
        rep.require(r, 1);
    }
    for f in HISTORY_FNS {
        for kind in ["after-self", "after-near", "sweep"] {
            rep.require(&format!("{}:history:{}", f, kind), 1);
        }
        if !cfg.miri() {
            rep.require(&format!("{}:history:fresh-thread", f), 1);
        }
    }
}

pub fn run(cfg: &Cfg, rep: &mut Report) {
    rep.rule = "logistic: consecutive f32 values in ±745 (thorough: all of them; quick: stratified runs), round trips on random x in ±30 and p in [0,1] (interior, tiny, near 1, subnormal, end points); softmax: lengths 1..1000, entries on a 2^-20 grid in ±1e4, one input class per magnitude regime, each vector also shifted by ±1e3, ±1e4, -max; Box–Cox: x, x+shift log-uniform in (1e-6,1e6), λ in ±5 incl. 0 and |λ|<1e-8, four (x>shift, x+shift>0) classes; binomial: every (n,k) with n<=67, then random n>=68 with k<=32 or k>=n-32 up to the largest n whose value fits 64 bits; the gamma-based binom_coeff_alt additionally at every n in 68..170 with every k<=32 and k>=n-32 whose value fits 64 bits. rejection probes: NaN (both signs, quiet/signalling patterns, random payloads), ±inf and the representable neighbours of each domain edge for logit, boxcox, boxcox_shifted; history: each of the seven functions re-evaluated at one argument after itself, after near neighbours (2^-52..1e-6 away), in a sweep and on a fresh thread. non-trivial = softmax vector with >= 2 distinct entries, 0<k<n, x != 1, shift != 0; distinct by argument bits".into();
    rep.assume("NaN is generated only as an argument outside the domains: logit must reject it (it is not inside [0,1]); for Box–Cox it does not satisfy x + shift > 0 and the outcome is recorded, not judged; values of the transforms at NaN, and NaN as λ, are outside the quantifier");
    rep.assume("Box–Cox: the statement promises a value on x + shift > 0 and nothing outside it (no rejection clause, unlike logit): calls with -inf, NaN, 0, -0 and the negative neighbours of 0 are made and their outcome (panic or value) is counted in coverage.notes outside_domain.*, not judged; the positive neighbour of 0 must be accepted");
    rep.assume("history independence: every function of C17 is a function of its arguments, so one argument has one result (bit pattern or panic) whatever the thread called before; compared against the same call made directly after an unrelated call of the same function and, for one case in 8, as the first call of a new thread");
    rep.assume("round-trip and softmax bounds carry an absolute underflow term of a few times the smallest normal number: results in the subnormal range have absolute, not relative, rounding error");
    rep.assume("softmax order preservation is non-strict (x_i < x_j ⇒ s_i <= s_j, equal inputs ⇒ identical outputs): far-below-maximum entries legitimately underflow to equal values");
    rep.assume("softmax inputs lie on a 2^-20 grid so that adding ±1e3, ±1e4 is exact; shifted vectors with an entry beyond ±1e4 are skipped");
    rep.assume("binom_coeff is not judged when C(n,k) >= 2^64 (the property is silent there); binom_coeff_alt is judged for n <= 67 (exact up to 45 as documented, then 1e-12 relative or ±2) and, for every n from 68 up to the largest n whose factorial is a finite f64 (170) with k <= 32 or k >= n-32 and C(n,k) < 2^64, against |got − C| <= floor(b·C + 1/2) with the a-priori relative bound b = expm1(3e-13 + 2u(ln n! + ln k! + ln (n−k)!) + u(|ln n! − ln k!| + ln C)) + 2u <= 6.9e-13 that follows from the 1e-13 gamma accuracy of C09 and a 1-ulp ln/exp (exact wherever b·C < 1/2); beyond that n gamma overflows and the returned value is counted in coverage.notes, not judged");
    rep.assume("Box–Cox: the statement fixes the value, not an accuracy; results are judged at max(16ε(1+|λ ln t|), 2^-40) relative (twelve digits: a literal (t^λ−1)/λ away from λ ln t = 0 passes, the total cancellation near 0 does not); the ratio against the tight 16ε bound is recorded in coverage.notes");
    // added families first (rejection probes, history independence): merged while the report is small
    run_added_families(cfg, rep);
    run_logistic(cfg, rep);
    run_softmax(cfg, rep);
    run_boxcox(cfg, rep);
    run_binom(cfg, rep);
}
