//! C16 — linear interpolation reproduces knots and honours the out-of-range mode (DESIGN §3 C16).
//!
//! Events: every `interp1d_linear` / `interp1d_linear_unchecked` call (value vector or panic).
//! Oracle: knots bitwise; interior targets against the chord evaluated in double-double
//! (`4ε(|y_k|+|y_{k+1}|)`) and between the neighbouring ordinates (4 ulp slack); outside the range
//! the three modes on both sides separately (`C16.panic_mode.left/right`, `C16.fill.left/right`,
//! `C16.extrapolate.left/right`), each under the regime `checked` / `unchecked`; the checked variant
//! must panic on a descending pair or a length mismatch.
use crate::gen::Rng;
use crate::oracle::dd::Dd;
use crate::report::{guard, jf, jnum, par_cases, same_bits, Cfg, Hasher, Report};
use compute::functions::{interp1d_linear, interp1d_linear_unchecked, ExtrapolationMode};
use serde_json::{json, Value};

const EPS: f64 = f64::EPSILON;

#[derive(Clone, Copy, Debug, PartialEq)]
enum Mode {
    Panic,
    Fill(f64, f64),
    Extrapolate,
}
impl Mode {
    fn lib(self) -> ExtrapolationMode {
        match self {
            Mode::Panic => ExtrapolationMode::Panic,
            Mode::Fill(l, r) => ExtrapolationMode::Fill(l, r),
            Mode::Extrapolate => ExtrapolationMode::Extrapolate,
        }
    }
    fn name(self) -> &'static str {
        match self {
            Mode::Panic => "panic",
            Mode::Fill(..) => "fill",
            Mode::Extrapolate => "extrapolate",
        }
    }
    fn js(self) -> Value {
        match self {
            Mode::Fill(l, r) => json!({"fill": [jnum(l), jnum(r)]}),
            m => json!(m.name()),
        }
    }
}

fn call(checked: bool, x: &[f64], y: &[f64], t: &[f64], m: Mode) -> Result<Vec<f64>, String> {
    guard(|| {
        let v = if checked { interp1d_linear(x, y, t, m.lib()) } else { interp1d_linear_unchecked(x, y, t, m.lib()) };
        v.v.clone()
    })
}
fn vname(checked: bool) -> &'static str {
    if checked {
        "checked"
    } else {
        "unchecked"
    }
}

#[derive(Clone, Copy, Debug, PartialEq)]
enum Where {
    Left,
    Right,
    Knot(usize),
    Interior(usize), // x[k] < t < x[k+1]
}

fn locate(x: &[f64], t: f64) -> Where {
    let n = x.len();
    if t < x[0] {
        return Where::Left;
    }
    if t > x[n - 1] {
        return Where::Right;
    }
    // largest k with x[k] <= t
    let (mut lo, mut hi) = (0usize, n - 1);
    while lo < hi {
        let mid = (lo + hi + 1) / 2;
        if x[mid] <= t {
            lo = mid;
        } else {
            hi = mid - 1;
        }
    }
    if x[lo] == t {
        Where::Knot(lo)
    } else {
        Where::Interior(lo)
    }
}

/// value of the line through (xa,ya),(xb,yb) at t in double-double, and the line's scale there
fn line_dd(xa: f64, ya: f64, xb: f64, yb: f64, t: f64) -> (f64, f64) {
    let r = Dd::sum2(t, -xa) / Dd::sum2(xb, -xa);
    let v = Dd::new(ya) + r * Dd::sum2(yb, -ya);
    // scale of the line at t: the ordinates' magnitude times the extrapolation factor (the same
    // |y_a|+|y_b| scale the interior tolerance uses, so 1 ulp beyond a knot is judged like 1 ulp inside)
    let scale = (ya.abs() + yb.abs()) * r.f().abs().max((Dd::ONE - r).f().abs()).max(1.0);
    (v.f(), scale)
}

fn zero_eq(a: f64, b: f64) -> bool {
    same_bits(a, b) || (a == 0.0 && b == 0.0)
}

struct Knots {
    x: Vec<f64>,
    y: Vec<f64>,
    xclass: &'static str,
    yclass: &'static str,
}

fn gen_knots(rng: &mut Rng, lite: bool) -> Knots {
    let n = if lite {
        rng.usize(2, 8)
    } else {
        match rng.usize(0, 9) {
            0 => 2,
            1 => 3,
            2..=4 => rng.usize(4, 12),
            5..=7 => rng.usize(13, 60),
            _ => rng.usize(61, 200),
        }
    };
    let (xclass, ratio) = match rng.usize(0, 3) {
        0 => ("spacing:uniform", 1.0),
        1 => ("spacing:ratio<=1e2", 1e2),
        _ => ("spacing:ratio<=1e6", 1e6),
    };
    // the absolute scale of the abscissae is arbitrary (the quantifier bounds spacing *ratios*):
    // mostly 1e-3..1e3, sometimes 2^-60..2^60 so that spacings far below/above 1 occur
    let scale = if rng.chance(0.25) { 2f64.powi(rng.int(-60, 60) as i32) } else { 10f64.powf(rng.range(-3.0, 3.0)) };
    let mut x = Vec::with_capacity(n);
    let mut cur = rng.range(-100.0, 100.0) * scale;
    x.push(cur);
    for _ in 1..n {
        let s = if ratio == 1.0 { 1.0 } else { rng.log_range(1.0, ratio) };
        let mut nx = cur + s * scale;
        if nx <= cur {
            nx = cur.next_up();
        }
        x.push(nx);
        cur = nx;
    }
    // sometimes put a knot exactly at 0.0 (signed-zero targets are then in range)
    if rng.chance(0.15) {
        let j = match rng.usize(0, 2) {
            0 => 0,
            1 => n - 1,
            _ => rng.usize(0, n - 1),
        };
        let shifted: Vec<f64> = x.iter().map(|v| v - x[j]).collect();
        if shifted.windows(2).all(|w| w[1] > w[0]) {
            x = shifted;
        }
    }
    let (yclass, y): (&'static str, Vec<f64>) = match rng.usize(0, 5) {
        0 | 1 => {
            let s = 10f64.powf(rng.range(-2.0, 2.0));
            ("y:gaussian", (0..n).map(|_| rng.normal() * s).collect())
        }
        2 => ("y:wide-magnitude", (0..n).map(|_| if rng.bool() { 1.0 } else { -1.0 } * 10f64.powf(rng.range(-150.0, 150.0))).collect()),
        3 => {
            // runs of equal ordinates and zeros: "between the ordinates" is then an equality
            let mut v = Vec::with_capacity(n);
            let mut c = rng.normal();
            for _ in 0..n {
                if rng.chance(0.4) {
                    c = if rng.chance(0.3) { 0.0 } else { rng.normal() * 10.0 };
                }
                v.push(c);
            }
            ("y:flat-runs", v)
        }
        4 => ("y:integers", rng.ints(n, -1000, 1000)),
        _ => {
            let off = rng.normal() * 1e6;
            ("y:offset", (0..n).map(|_| off + rng.normal()).collect())
        }
    };
    Knots { x, y, xclass, yclass }
}

/// a few indices in 0..m always containing the first and the last
fn pick_idx(rng: &mut Rng, m: usize, extra: usize) -> Vec<usize> {
    if m <= extra + 2 {
        return (0..m).collect();
    }
    let mut v = vec![0, m - 1];
    for _ in 0..extra {
        v.push(rng.usize(0, m - 1));
    }
    v.sort_unstable();
    v.dedup();
    v
}

fn one_set(cfg: &Cfg, rng: &mut Rng, rep: &mut Report) {
    let k = gen_knots(rng, cfg.lite);
    let (x, y) = (&k.x, &k.y);
    let n = x.len();
    rep.seen(k.xclass, 1);
    rep.seen(k.yclass, 1);
    rep.seen(if n == 2 { "knots:n=2" } else if n <= 12 { "knots:n=3..12" } else { "knots:n=13..200" }, 1);
    rep.distinct(Hasher::new().fs(x).fs(y).finish(), n >= 3 && y.iter().any(|&v| v != y[0]));
    let range = x[n - 1] - x[0];
    let fills = {
        let pool = [rng.normal() * 1e3, -7.25e200, 3.5e201, f64::INFINITY, f64::NEG_INFINITY, f64::NAN, 0.0, -0.0];
        let l = if rng.chance(0.7) { rng.normal() * 1e3 + 12345.0 } else { *rng.choose(&pool) };
        let mut r = if rng.chance(0.7) { rng.normal() * 1e3 - 54321.0 } else { *rng.choose(&pool) };
        if same_bits(l, r) {
            r = -98765.5;
        }
        Mode::Fill(l, r)
    };
    let modes = [Mode::Panic, fills, Mode::Extrapolate];

    // ---- in-range targets ------------------------------------------------------------------
    let mut tg: Vec<(f64, &'static str)> = Vec::new();
    for i in pick_idx(rng, n, 8) {
        tg.push((x[i], "target:knot"));
        if x[i] == 0.0 {
            // a knot at zero is hit by both signed zeros
            tg.push((-x[i], "target:knot"));
        }
    }
    if let Some(i) = x.iter().position(|&v| v == 0.0) {
        tg.push((0.0, "target:knot"));
        tg.push((-0.0, "target:knot"));
        rep.seen("knots:zero-knot", 1);
        let _ = i;
    }
    for i in pick_idx(rng, n - 1, 8) {
        let m = 0.5 * x[i] + 0.5 * x[i + 1];
        if m > x[i] && m < x[i + 1] {
            tg.push((m, "target:midpoint"));
        }
        let u = x[i].next_up();
        if u < x[i + 1] {
            tg.push((u, "target:knot+1ulp"));
        }
        let d = x[i + 1].next_down();
        if d > x[i] {
            tg.push((d, "target:knot-1ulp"));
        }
        let t = x[i] + (x[i + 1] - x[i]) * rng.f64();
        if t >= x[i] && t <= x[i + 1] {
            tg.push((t, "target:random-interior"));
        }
    }
    rng.shuffle(&mut tg);
    let targets: Vec<f64> = tg.iter().map(|p| p.0).collect();
    for p in &tg {
        rep.seen(p.1, 1);
    }
    for checked in [true, false] {
        for m in modes {
            let regime = format!("{}:{}:in-range", vname(checked), m.name());
            rep.case(&regime);
            let got = call(checked, x, y, &targets, m);
            let ctx = |extra: Value| json!({"variant": vname(checked), "mode": m.js(), "x": jf(x), "y": jf(y), "n": n, "detail": extra});
            match got {
                Err(msg) => {
                    rep.check("C16.in_range.no_panic", &regime, false, || ctx(json!({"targets": jf(&targets), "panic": msg})));
                }
                Ok(v) => {
                    rep.check("C16.in_range.no_panic", &regime, true, || json!(null));
                    if !rep.check("C16.output_len", &regime, v.len() == targets.len(), || ctx(json!({"targets": targets.len(), "returned": v.len()}))) {
                        continue;
                    }
                    for (j, &t) in targets.iter().enumerate() {
                        match locate(x, t) {
                            Where::Knot(i) => {
                                rep.check("C16.knot.exact", &regime, zero_eq(v[j], y[i]), || ctx(json!({"target": t, "knot_index": i, "observed": jnum(v[j]), "expected": jnum(y[i])})));
                            }
                            Where::Interior(i) => {
                                let (want, _) = line_dd(x[i], y[i], x[i + 1], y[i + 1], t);
                                let tol = 4.0 * EPS * (y[i].abs() + y[i + 1].abs()) + 2e-323;
                                let err = (v[j] - want).abs();
                                rep.note_max("worst_ratio.interior_chord", err / tol);
                                rep.check("C16.interior.chord", &regime, err <= tol, || {
                                    ctx(json!({"target": t, "segment": i, "x_seg": [x[i], x[i+1]], "y_seg": [y[i], y[i+1]], "observed": jnum(v[j]), "expected": want, "abs_err": err, "tol": tol}))
                                });
                                let (lo, hi) = (y[i].min(y[i + 1]), y[i].max(y[i + 1]));
                                let slack = 4.0 * EPS * y[i].abs().max(y[i + 1].abs()) + 2e-323;
                                let out = (lo - v[j]).max(v[j] - hi).max(0.0);
                                rep.note_max("worst_ratio.interior_between", out / slack);
                                rep.check("C16.interior.between", &regime, out <= slack, || {
                                    ctx(json!({"target": t, "segment": i, "y_seg": [y[i], y[i+1]], "observed": jnum(v[j]), "outside_by": out, "slack": slack}))
                                });
                            }
                            _ => {}
                        }
                    }
                }
            }
        }
    }
    rep.sample(|| json!({"n": n, "x_head": jf(&x[..n.min(4)]), "y_head": jf(&y[..n.min(4)]), "classes": [k.xclass, k.yclass], "in_range_targets": targets.len()}));

    // ---- out-of-range targets, one side at a time -------------------------------------------
    let fr = rng.log_range(1e-3, 0.5);
    let left: Vec<(f64, &'static str)> = vec![
        (x[0].next_down(), "target:left:1ulp"),
        (x[0] - fr * range, "target:left:fraction-of-range"),
        (x[0] - range, "target:left:1x-range"),
        (x[0] - 10.0 * range, "target:left:10x-range"),
    ];
    let right: Vec<(f64, &'static str)> = vec![
        (x[n - 1].next_up(), "target:right:1ulp"),
        (x[n - 1] + fr * range, "target:right:fraction-of-range"),
        (x[n - 1] + range, "target:right:1x-range"),
        (x[n - 1] + 10.0 * range, "target:right:10x-range"),
    ];
    for (side, list) in [("left", &left), ("right", &right)] {
        let list: Vec<(f64, &'static str)> = list.iter().cloned().filter(|p| if side == "left" { p.0 < x[0] } else { p.0 > x[n - 1] }).collect();
        for p in &list {
            rep.seen(p.1, 1);
        }
        let ts: Vec<f64> = list.iter().map(|p| p.0).collect();
        for checked in [true, false] {
            let vreg = vname(checked);
            let ctx = |m: Mode, extra: Value| json!({"variant": vreg, "mode": m.js(), "side": side, "x": jf(x), "y": jf(y), "n": n, "detail": extra});
            // Panic mode: one call per target so every distance class is judged on its own
            // (Miri smoke: one target per side — a panic costs ~0.1 s there)
            let plist: &[f64] = if cfg.miri() { &ts[..1] } else { &ts };
            for &t in plist {
                rep.case(&format!("{}:panic:{}", vreg, side));
                let got = call(checked, x, y, &[t], Mode::Panic);
                let a = format!("C16.panic_mode.{}", side);
                rep.check(&a, vreg, got.is_err(), || ctx(Mode::Panic, json!({"target": t, "beyond_by": if side == "left" { x[0] - t } else { t - x[n-1] }, "observed": got.as_ref().map(|v| jf(v)).unwrap_or(json!("panic")), "expected": "panic"})));
            }
            // Fill mode
            rep.case(&format!("{}:fill:{}", vreg, side));
            let (fl, frr) = match fills {
                Mode::Fill(l, r) => (l, r),
                _ => unreachable!(),
            };
            let want = if side == "left" { fl } else { frr };
            match call(checked, x, y, &ts, fills) {
                Err(msg) => {
                    rep.check("C16.fill.no_panic", &format!("{}:{}", vreg, side), false, || ctx(fills, json!({"targets": jf(&ts), "panic": msg})));
                }
                Ok(v) => {
                    rep.check("C16.fill.no_panic", &format!("{}:{}", vreg, side), true, || json!(null));
                    if rep.check("C16.output_len", &format!("{}:fill:{}", vreg, side), v.len() == ts.len(), || ctx(fills, json!({"targets": ts.len(), "returned": v.len()}))) {
                        let a = format!("C16.fill.{}", side);
                        for (j, &t) in ts.iter().enumerate() {
                            rep.check(&a, vreg, same_bits(v[j], want), || ctx(fills, json!({"target": t, "observed": jnum(v[j]), "expected": jnum(want)})));
                        }
                    }
                }
            }
            // Extrapolate mode
            rep.case(&format!("{}:extrapolate:{}", vreg, side));
            match call(checked, x, y, &ts, Mode::Extrapolate) {
                Err(msg) => {
                    rep.check("C16.extrapolate.no_panic", &format!("{}:{}", vreg, side), false, || ctx(Mode::Extrapolate, json!({"targets": jf(&ts), "panic": msg})));
                }
                Ok(v) => {
                    rep.check("C16.extrapolate.no_panic", &format!("{}:{}", vreg, side), true, || json!(null));
                    if rep.check("C16.output_len", &format!("{}:extrapolate:{}", vreg, side), v.len() == ts.len(), || ctx(Mode::Extrapolate, json!({"targets": ts.len(), "returned": v.len()}))) {
                        let (ia, ib) = if side == "left" { (0, 1) } else { (n - 2, n - 1) };
                        let a = format!("C16.extrapolate.{}", side);
                        for (j, &t) in ts.iter().enumerate() {
                            let (want, scale) = line_dd(x[ia], y[ia], x[ib], y[ib], t);
                            let tol = 1e-12 * scale + 2e-323;
                            let err = (v[j] - want).abs();
                            rep.note_max(&format!("worst_ratio.extrapolate_{}", side), err / tol);
                            rep.check(&a, vreg, err <= tol, || ctx(Mode::Extrapolate, json!({"target": t, "segment": [[x[ia], y[ia]], [x[ib], y[ib]]], "observed": jnum(v[j]), "expected": want, "abs_err": err, "tol": tol})));
                        }
                    }
                }
            }
        }
    }

    // ---- checked variant must reject unsorted abscissae and mismatched lengths ------------------
    let inr: Vec<f64> = vec![x[0], 0.5 * x[0] + 0.5 * x[n - 1], x[n - 1]];
    let pos_classes: Vec<(&'static str, usize)> = if n == 2 {
        vec![("unsorted:first-pair", 0)]
    } else {
        let mut v = vec![("unsorted:first-pair", 0), ("unsorted:last-pair", n - 2)];
        if n >= 4 {
            v.push(("unsorted:middle-pair", rng.usize(1, n - 3)));
        }
        v
    };
    let (cls, i) = *rng.choose(&pos_classes);
    let mut xs = x.clone();
    xs.swap(i, i + 1); // strictly increasing before, so (i, i+1) is now a strictly descending pair
    let m = if rng.bool() { Mode::Extrapolate } else { fills };
    rep.case(&format!("checked:{}", cls));
    rep.seen("checked:unsorted", 1);
    let got = call(true, &xs, y, &inr, m);
    rep.check("C16.checked.rejects_unsorted", cls, got.is_err(), || json!({"x": jf(&xs), "y": jf(y), "descending_pair_at": i, "pair": [xs[i], xs[i+1]], "mode": m.js(), "targets": jf(&inr), "observed": got.as_ref().map(|v| jf(v)).unwrap_or(json!("panic")), "expected": "panic"}));
    if !cfg.miri() || rng.chance(0.3) {
        let longer = rng.bool();
        let cls = if longer { "mismatch:y-longer" } else { "mismatch:y-shorter" };
        let mut ys = y.clone();
        if longer {
            ys.push(1.5);
        } else {
            ys.pop();
        }
        rep.case(&format!("checked:{}", cls));
        let got = call(true, x, &ys, &inr, m);
        rep.check("C16.checked.rejects_mismatch", cls, got.is_err(), || json!({"x_len": n, "y_len": ys.len(), "x": jf(x), "y": jf(&ys), "mode": m.js(), "targets": jf(&inr), "observed": got.as_ref().map(|v| jf(v)).unwrap_or(json!("panic")), "expected": "panic"}));
    }
}

// ---------------------------------------------------------------------------------------------
// multi-target calls: the value at a target does not depend on the other targets of the same call,
// on their order, or on whether they are in range

/// The oracle on one (target, value) pair of a successful call.
fn judge(rep: &mut Report, regime: &str, x: &[f64], y: &[f64], m: Mode, t: f64, v: f64, ctx: &dyn Fn(Value) -> Value) {
    let n = x.len();
    match locate(x, t) {
        Where::Knot(i) => {
            rep.check("C16.knot.exact", regime, zero_eq(v, y[i]), || ctx(json!({"target": t, "knot_index": i, "observed": jnum(v), "expected": jnum(y[i])})));
        }
        Where::Interior(i) => {
            let (want, _) = line_dd(x[i], y[i], x[i + 1], y[i + 1], t);
            let tol = 4.0 * EPS * (y[i].abs() + y[i + 1].abs()) + 2e-323;
            let err = (v - want).abs();
            rep.note_max("worst_ratio.interior_chord", err / tol);
            rep.check("C16.interior.chord", regime, err <= tol, || ctx(json!({"target": t, "segment": i, "x_seg": [x[i], x[i+1]], "y_seg": [y[i], y[i+1]], "observed": jnum(v), "expected": want, "abs_err": jnum(err), "tol": tol})));
            let (lo, hi) = (y[i].min(y[i + 1]), y[i].max(y[i + 1]));
            let slack = 4.0 * EPS * y[i].abs().max(y[i + 1].abs()) + 2e-323;
            let out = (lo - v).max(v - hi).max(0.0);
            rep.check("C16.interior.between", regime, out <= slack, || ctx(json!({"target": t, "segment": i, "y_seg": [y[i], y[i+1]], "observed": jnum(v), "outside_by": jnum(out), "slack": slack})));
        }
        side => {
            let left = side == Where::Left;
            let sname = if left { "left" } else { "right" };
            match m {
                Mode::Panic => {
                    rep.check(&format!("C16.panic_mode.{}", sname), regime, false, || ctx(json!({"target": t, "observed": jnum(v), "expected": "panic"})));
                }
                Mode::Fill(l, r) => {
                    let want = if left { l } else { r };
                    rep.check(&format!("C16.fill.{}", sname), regime, same_bits(v, want), || ctx(json!({"target": t, "observed": jnum(v), "expected": jnum(want)})));
                }
                Mode::Extrapolate => {
                    let (ia, ib) = if left { (0, 1) } else { (n - 2, n - 1) };
                    let (want, scale) = line_dd(x[ia], y[ia], x[ib], y[ib], t);
                    let tol = 1e-12 * scale + 2e-323;
                    let err = (v - want).abs();
                    rep.note_max(&format!("worst_ratio.extrapolate_{}", sname), err / tol);
                    rep.check(&format!("C16.extrapolate.{}", sname), regime, err <= tol, || ctx(json!({"target": t, "segment": [[x[ia], y[ia]], [x[ib], y[ib]]], "observed": jnum(v), "expected": want, "abs_err": jnum(err), "tol": tol})));
                }
            }
        }
    }
}

const ORDERS: [&str; 6] = ["shuffled", "alternating-range", "ascending-dense", "ascending-sparse", "ascending-coarse-grid", "descending"];

fn batch_set(cfg: &Cfg, rng: &mut Rng, rep: &mut Report) {
    let k = gen_knots(rng, cfg.lite);
    let (x, y) = (&k.x, &k.y);
    let n = x.len();
    let range = x[n - 1] - x[0];
    rep.distinct(Hasher::new().s("batch").fs(x).fs(y).finish(), n >= 3 && y.iter().any(|&v| v != y[0]));
    let few = cfg.miri();
    // ---- master target list: in-range positional targets, a coarse regular grid, both outsides
    let mut inr: Vec<f64> = Vec::new();
    for i in pick_idx(rng, n, if few { 1 } else { 6 }) {
        inr.push(x[i]);
    }
    for i in pick_idx(rng, n - 1, if few { 1 } else { 6 }) {
        let t = x[i] + (x[i + 1] - x[i]) * rng.f64();
        if t >= x[i] && t <= x[i + 1] {
            inr.push(t);
        }
        if !few {
            let u = if rng.bool() { x[i].next_up() } else { x[i + 1].next_down() };
            if u >= x[i] && u <= x[i + 1] {
                inr.push(u);
            }
        }
    }
    // coarse regular grid over the data range (coarser than the knots on average: <= n/2 points)
    let gm = if few { 2 } else { rng.usize(2, (n / 2).clamp(2, 12)) };
    let grid: Vec<f64> = (0..gm).map(|j| x[0] + range * (j as f64 + rng.f64() * 0.5) / gm as f64).filter(|&t| t >= x[0] && t <= x[n - 1]).collect();
    let fr = rng.log_range(1e-3, 0.5);
    let left: Vec<f64> = [x[0].next_down(), x[0] - fr * range, x[0] - range].iter().cloned().filter(|&t| t < x[0]).collect();
    let right: Vec<f64> = [x[n - 1].next_up(), x[n - 1] + fr * range, x[n - 1] + range].iter().cloned().filter(|&t| t > x[n - 1]).collect();
    let (left, right) = if few { (left[..1.min(left.len())].to_vec(), right[..1.min(right.len())].to_vec()) } else { (left, right) };
    let fills = Mode::Fill(rng.normal() * 1e3 + 12345.0, rng.normal() * 1e3 - 54321.0);
    for checked in [true, false] {
        for m in [Mode::Panic, fills, Mode::Extrapolate] {
            let with_oor = m != Mode::Panic;
            // master list for this mode: (target, kind) kind 0 = in range, 1 = left, 2 = right
            let mut master: Vec<(f64, u8)> = inr.iter().chain(grid.iter()).map(|&t| (t, 0u8)).collect();
            if with_oor {
                master.extend(left.iter().map(|&t| (t, 1u8)));
                master.extend(right.iter().map(|&t| (t, 2u8)));
            }
            let ctx1 = |extra: Value| json!({"variant": vname(checked), "mode": m.js(), "x": jf(x), "y": jf(y), "n": n, "detail": extra});
            // (a) one target per call
            let sreg = format!("{}:{}:batch:single", vname(checked), m.name());
            let mut single: Vec<Option<f64>> = Vec::with_capacity(master.len());
            for &(t, _) in &master {
                rep.case(&sreg);
                match call(checked, x, y, &[t], m) {
                    Ok(v) if v.len() == 1 => {
                        judge(rep, &sreg, x, y, m, t, v[0], &ctx1);
                        single.push(Some(v[0]));
                    }
                    Ok(v) => {
                        rep.check("C16.output_len", &sreg, false, || ctx1(json!({"targets": 1, "returned": v.len()})));
                        single.push(None);
                    }
                    Err(msg) => {
                        rep.check("C16.in_range.no_panic", &sreg, false, || ctx1(json!({"target": t, "panic": msg})));
                        single.push(None);
                    }
                }
            }
            // (b)-(d) the same targets in one call, in several orders
            let mut asc: Vec<usize> = (0..master.len()).collect();
            asc.sort_by(|&a, &b| master[a].0.partial_cmp(&master[b].0).unwrap());
            for order in ORDERS {
                let idx: Vec<usize> = match order {
                    "shuffled" => {
                        let mut v: Vec<usize> = (0..master.len()).collect();
                        rng.shuffle(&mut v);
                        v
                    }
                    "alternating-range" => {
                        // out-of-range targets of both sides interleaved with in-range targets in random order
                        let mut ins: Vec<usize> = (0..master.len()).filter(|&i| master[i].1 == 0).collect();
                        let mut outs: Vec<usize> = (0..master.len()).filter(|&i| master[i].1 != 0).collect();
                        rng.shuffle(&mut ins);
                        rng.shuffle(&mut outs);
                        let mut v = Vec::with_capacity(master.len() + 8);
                        for (j, &i) in ins.iter().enumerate() {
                            if !outs.is_empty() {
                                v.push(outs[j % outs.len()]);
                            }
                            v.push(i);
                        }
                        v
                    }
                    "ascending-dense" => asc.clone(),
                    "ascending-sparse" => {
                        // a few targets far apart: whole segments lie between consecutive targets
                        let keep = rng.usize(2, 5);
                        let mut v: Vec<usize> = asc.iter().cloned().filter(|_| rng.chance(keep as f64 / asc.len() as f64)).collect();
                        if v.len() < 2 {
                            v = vec![asc[0], asc[asc.len() - 1]];
                        }
                        v
                    }
                    "ascending-coarse-grid" => {
                        // the regular grid alone (plus the outside targets at its ends)
                        let lo = inr.len();
                        asc.iter().cloned().filter(|&i| master[i].1 != 0 && rng.bool() || (i >= lo && i < lo + grid.len())).collect()
                    }
                    _ => asc.iter().rev().cloned().collect(),
                };
                if idx.is_empty() {
                    continue;
                }
                let ts: Vec<f64> = idx.iter().map(|&i| master[i].0).collect();
                let regime = format!("{}:{}:batch:{}", vname(checked), m.name(), order);
                rep.case(&regime);
                if ts.windows(2).any(|w| matches!((locate(x, w[0]), locate(x, w[1])), (Where::Knot(a) | Where::Interior(a), Where::Knot(b) | Where::Interior(b)) if b > a + 1)) && ts.windows(2).all(|w| w[0] <= w[1]) {
                    rep.seen("batch:ascending-skips-segment", 1);
                }
                if ts.windows(2).any(|w| w[0] > x[n - 1] && w[1] >= x[0] && w[1] <= x[n - 1]) {
                    rep.seen("batch:in-range-after-above", 1);
                }
                if ts.windows(2).any(|w| w[0] < x[0] && w[1] >= x[0] && w[1] <= x[n - 1]) {
                    rep.seen("batch:in-range-after-below", 1);
                }
                let ctx = |extra: Value| json!({"variant": vname(checked), "mode": m.js(), "order": order, "x": jf(x), "y": jf(y), "n": n, "targets": jf(&ts), "detail": extra});
                match call(checked, x, y, &ts, m) {
                    Err(msg) => {
                        rep.check("C16.batch.no_panic", &regime, false, || ctx(json!({"panic": msg})));
                    }
                    Ok(v) => {
                        rep.check("C16.batch.no_panic", &regime, true, || json!(null));
                        if !rep.check("C16.output_len", &regime, v.len() == ts.len(), || ctx(json!({"targets": ts.len(), "returned": v.len()}))) {
                            continue;
                        }
                        for (j, &i) in idx.iter().enumerate() {
                            judge(rep, &regime, x, y, m, ts[j], v[j], &ctx);
                            if let Some(sv) = single[i] {
                                rep.check("C16.batch.same_as_single", &regime, same_bits(v[j], sv), || ctx(json!({"position_in_call": j, "target": ts[j], "in_this_call": jnum(v[j]), "alone": jnum(sv)})));
                            }
                        }
                    }
                }
            }
        }
    }
}

// ---------------------------------------------------------------------------------------------
// large batches (stream 5)
//
// The number of targets of one call is not bounded by the quantifier: resampling onto thousands of
// scattered points is one call. The value at a target must not depend on how many other targets the
// call carries nor on their order, so batches whose sizes sit at and around powers of two (255 .. 10000,
// thorough: .. 20000) are evaluated one target per call and then in ONE call in six orders: random,
// sorted, reversed, block-shuffled (sorted blocks in permuted block order), rotated (the sorted list cut
// at a random place) and sorted with a few transpositions. Every value of every batch call is judged by
// the double-double oracle and must equal the one-target-per-call value bit for bit; in Panic mode the
// batch holds in-range targets only, and one further call with a single out-of-range target planted at a
// random position must panic.

const LARGE_SIZES: [usize; 18] = [255, 256, 257, 511, 512, 513, 1023, 1024, 1025, 2047, 2048, 2049, 4095, 4096, 4097, 8191, 8192, 10000];
const LARGE_SIZES_THOROUGH: [usize; 4] = [16383, 16384, 16385, 20000];
const LARGE_ORDERS: [&str; 6] = ["random", "sorted", "reversed", "block-shuffled", "rotated", "sorted-with-few-swaps"];

/// `k` targets for the knot set: knots, knot +- 1 ulp, midpoints, random interior points and — `oor` —
/// about one in ten beyond either end. In generation order (no particular order).
fn large_targets(rng: &mut Rng, x: &[f64], k: usize, oor: bool) -> Vec<f64> {
    let n = x.len();
    let range = x[n - 1] - x[0];
    let mut v = Vec::with_capacity(k);
    while v.len() < k {
        let i = rng.usize(0, n - 2);
        let t = match rng.usize(0, 19) {
            0..=3 => x[rng.usize(0, n - 1)],
            4 => x[i].next_up(),
            5 => x[i + 1].next_down(),
            6 | 7 => 0.5 * x[i] + 0.5 * x[i + 1],
            8 | 9 if oor => {
                let d = match rng.usize(0, 2) {
                    0 => 0.0,
                    1 => rng.log_range(1e-3, 0.5) * range,
                    _ => range,
                };
                if rng.bool() {
                    (x[0] - d).next_down()
                } else {
                    (x[n - 1] + d).next_up()
                }
            }
            _ => x[i] + (x[i + 1] - x[i]) * rng.f64(),
        };
        if t.is_finite() && (oor || (t >= x[0] && t <= x[n - 1])) {
            v.push(t);
        }
    }
    v
}

fn large_batch_case(cfg: &Cfg, i: usize, rng: &mut Rng, rep: &mut Report) {
    let nsz = LARGE_SIZES.len() + if cfg.thorough() { LARGE_SIZES_THOROUGH.len() } else { 0 };
    let k = if cfg.lite {
        [1024usize, 1025, 2048][i % 3]
    } else if i % nsz < LARGE_SIZES.len() {
        LARGE_SIZES[i % nsz]
    } else {
        LARGE_SIZES_THOROUGH[i % nsz - LARGE_SIZES.len()]
    };
    let kn = gen_knots(rng, false);
    let (x, y) = (&kn.x, &kn.y);
    let n = x.len();
    rep.seen(if k >= 1024 { "large-batch:size>=1024" } else { "large-batch:size<1024" }, 1);
    rep.seen(if k.is_power_of_two() { "large-batch:size=2^j" } else if (k + 1).is_power_of_two() { "large-batch:size=2^j-1" } else if (k - 1).is_power_of_two() { "large-batch:size=2^j+1" } else { "large-batch:size=other" }, 1);
    rep.seen(if n >= 61 { "large-batch:knots>=61" } else { "large-batch:knots<61" }, 1);
    rep.distinct(Hasher::new().s("large-batch").u(k as u64).fs(x).fs(y).finish(), n >= 3 && y.iter().any(|&v| v != y[0]));
    let fills = Mode::Fill(rng.normal() * 1e3 + 12345.0, rng.normal() * 1e3 - 54321.0);
    let master_in = large_targets(rng, x, k, false);
    let master_all = large_targets(rng, x, k, true);
    // in lite mode (sanitizer layers) one variant x mode pair per case, rotating
    let combos: Vec<(bool, Mode)> = [true, false].iter().flat_map(|&c| [Mode::Panic, fills, Mode::Extrapolate].into_iter().map(move |m| (c, m))).collect();
    for (ci, &(checked, m)) in combos.iter().enumerate() {
        if cfg.lite && ci != i % combos.len() {
            continue;
        }
        let master: &Vec<f64> = if m == Mode::Panic { &master_in } else { &master_all };
        if m != Mode::Panic {
            if master.iter().any(|&t| t < x[0]) && master.iter().any(|&t| t > x[n - 1]) {
                rep.seen("large-batch:out-of-range-on-both-sides", 1);
            }
        }
        let head = |ts: &[f64]| jf(&ts[..ts.len().min(8)]);
        // (a) one target per call
        let sreg = format!("{}:{}:large-batch:single", vname(checked), m.name());
        let ctx1 = |extra: Value| json!({"variant": vname(checked), "mode": m.js(), "x": jf(x), "y": jf(y), "n": n, "batch_size": 1, "detail": extra});
        let mut single: Vec<Option<f64>> = Vec::with_capacity(k);
        for &t in master.iter() {
            rep.case(&sreg);
            match call(checked, x, y, &[t], m) {
                Ok(v) if v.len() == 1 => {
                    judge(rep, &sreg, x, y, m, t, v[0], &ctx1);
                    single.push(Some(v[0]));
                }
                Ok(v) => {
                    rep.check("C16.output_len", &sreg, false, || ctx1(json!({"targets": 1, "returned": v.len()})));
                    single.push(None);
                }
                Err(msg) => {
                    rep.check("C16.in_range.no_panic", &sreg, false, || ctx1(json!({"target": t, "panic": msg})));
                    single.push(None);
                }
            }
        }
        // (b) the same targets in one call
        let mut asc: Vec<usize> = (0..k).collect();
        asc.sort_by(|&a, &b| master[a].partial_cmp(&master[b]).unwrap().then(a.cmp(&b)));
        for order in LARGE_ORDERS {
            let (idx, how): (Vec<usize>, Value) = match order {
                "random" => {
                    let mut v: Vec<usize> = (0..k).collect();
                    rng.shuffle(&mut v);
                    (v, json!("uniform random permutation"))
                }
                "sorted" => (asc.clone(), json!("ascending")),
                "reversed" => (asc.iter().rev().cloned().collect(), json!("descending")),
                "block-shuffled" => {
                    let b = rng.usize(2, (k / 8).max(2));
                    let mut blocks: Vec<&[usize]> = asc.chunks(b).collect();
                    rng.shuffle(&mut blocks);
                    (blocks.concat(), json!({"ascending_blocks_of": b, "in_random_block_order": true}))
                }
                "rotated" => {
                    let r = rng.usize(1, k - 1);
                    let mut v = asc.clone();
                    v.rotate_left(r);
                    (v, json!({"ascending_rotated_left_by": r}))
                }
                _ => {
                    let s = rng.usize(1, 5);
                    let mut v = asc.clone();
                    let mut sw = Vec::new();
                    for _ in 0..s {
                        let (p, q) = (rng.usize(0, k - 1), rng.usize(0, k - 1));
                        v.swap(p, q);
                        sw.push([p, q]);
                    }
                    (v, json!({"ascending_then_positions_swapped": sw}))
                }
            };
            let ts: Vec<f64> = idx.iter().map(|&j| master[j]).collect();
            let regime = format!("{}:{}:large-batch:{}", vname(checked), m.name(), order);
            rep.case(&regime);
            let ctx = |extra: Value| json!({"variant": vname(checked), "mode": m.js(), "order": order, "order_construction": how, "x": jf(x), "y": jf(y), "n": n, "batch_size": k, "targets_head": head(&ts), "detail": extra});
            match call(checked, x, y, &ts, m) {
                Err(msg) => {
                    rep.check("C16.batch.no_panic", &regime, false, || ctx(json!({"panic": msg})));
                }
                Ok(v) => {
                    rep.check("C16.batch.no_panic", &regime, true, || json!(null));
                    if !rep.check("C16.output_len", &regime, v.len() == ts.len(), || ctx(json!({"targets": ts.len(), "returned": v.len()}))) {
                        continue;
                    }
                    for (j, &mi) in idx.iter().enumerate() {
                        judge(rep, &regime, x, y, m, ts[j], v[j], &ctx);
                        if let Some(sv) = single[mi] {
                            rep.check("C16.batch.same_as_single", &regime, same_bits(v[j], sv), || ctx(json!({"position_in_call": j, "target": ts[j], "in_this_call": jnum(v[j]), "alone": jnum(sv)})));
                        }
                    }
                }
            }
            // Panic mode: the same batch with ONE target beyond an end planted somewhere must panic
            if m == Mode::Panic && (order == "random" || order == "sorted") && !cfg.lite {
                let left = rng.bool();
                let range = x[n - 1] - x[0];
                let d = if rng.bool() { 0.0 } else { rng.log_range(1e-3, 1.0) * range };
                let t = if left { (x[0] - d).next_down() } else { (x[n - 1] + d).next_up() };
                if t.is_finite() {
                    let mut ts2 = ts.clone();
                    let pos = rng.usize(0, k - 1);
                    ts2[pos] = t;
                    rep.case(&regime);
                    rep.seen("large-batch:panic-mode-one-target-outside", 1);
                    let got = call(checked, x, y, &ts2, Mode::Panic);
                    let a = format!("C16.panic_mode.{}", if left { "left" } else { "right" });
                    rep.check(&a, &regime, got.is_err(), || ctx(json!({"one_target_replaced_at": pos, "by": t, "beyond_by": if left { x[0] - t } else { t - x[n - 1] }, "observed": "a value vector", "expected": "panic"})));
                }
            }
        }
    }
}

// ---------------------------------------------------------------------------------------------
// call histories of the checked variant on one buffer (stream 4)
//
// `interp1d_linear` is a free function of (x, y, targets, mode): what the thread has interpolated before,
// and in particular whether THIS buffer held a valid table at the previous call, is not part of the
// quantifier. Callers keep one Vec of abscissae alive and edit it in place — a moving mesh (fixed end
// points and node count, interior nodes updated every step), one Vec cleared and refilled per data set
// (`clear` + `extend` within the capacity: same address), abscissae normalised to [0, 1] so that every table
// starts at 0 and ends at 1 — and rely on the checked variant to catch a tangled or unsorted grid at EVERY
// call. One case = one buffer pair (x, y) with spare capacity, a first strictly increasing table, then
// 3..7 edits of the SAME buffer, the checked variant called after every edit on one thread:
//   swap-interior          two interior knots exchanged (adjacent or far apart), end points kept
//   reverse-interior-run   an interior run x[a..=b] reversed
//   duplicate-knot         x[j] overwritten with x[k], k >= j+2 (a strict descent follows the copy)
//   tangle-one-node        one interior node moved beyond its right neighbour (still inside the range)
//   nudge-interior         every interior node moved between its neighbours (still strictly increasing)
//   restore-sorted         the last strictly increasing table written back
//   refill-sorted-same-ends / refill-unsorted-same-ends
//                          clear + extend: same length and end points, new interior knots
//   refill-other-length    clear + extend: another table of another length within the capacity, sorted or not
//   change-end-point       first or last abscissa moved outwards / an end point moved inside (unsorted)
//   y-truncated            y one shorter than x (length mismatch) on a buffer that was just accepted
// Oracle: the state of the buffer decides, nothing else. Strictly increasing: the call must return, every
// value satisfies the single-call oracle (`judge`) and equals bit for bit the value of the same call made as
// the first library call of a fresh thread on a fresh copy of the table. A strict descent: the call must
// panic (`C16.checked.rejects_unsorted|history:<edit>`), mismatched lengths likewise. Edits that leave ties
// but no descent are not generated (ties are neither required to be accepted nor rejected).

const EDITS: [&str; 11] = [
    "swap-interior", "reverse-interior-run", "duplicate-knot", "tangle-one-node", "nudge-interior", "restore-sorted",
    "refill-sorted-same-ends", "refill-unsorted-same-ends", "refill-other-length", "change-end-point", "y-truncated",
];

#[derive(Clone, Copy, PartialEq, Debug)]
enum Order {
    Increasing,
    Descent,
    TiesOnly,
}

fn order_of(x: &[f64]) -> Order {
    if x.windows(2).any(|w| w[1] < w[0]) {
        Order::Descent
    } else if x.windows(2).all(|w| w[1] > w[0]) {
        Order::Increasing
    } else {
        Order::TiesOnly
    }
}

/// n - 2 strictly increasing values strictly between lo and hi (None if the interval is too narrow)
fn interior_between(rng: &mut Rng, lo: f64, hi: f64, n: usize) -> Option<Vec<f64>> {
    for _ in 0..8 {
        let mut v: Vec<f64> = (0..n.saturating_sub(2)).map(|_| lo + (hi - lo) * rng.f64()).filter(|&t| t > lo && t < hi).collect();
        v.sort_by(|a, b| a.partial_cmp(b).unwrap());
        v.dedup();
        if v.len() == n - 2 {
            return Some(v);
        }
    }
    None
}

fn ordinates(rng: &mut Rng, n: usize) -> Vec<f64> {
    match rng.usize(0, 2) {
        0 => {
            let s = 10f64.powf(rng.range(-2.0, 2.0));
            (0..n).map(|_| rng.normal() * s).collect()
        }
        1 => rng.ints(n, -1000, 1000),
        _ => {
            let off = rng.normal() * 1e6;
            (0..n).map(|_| off + rng.normal()).collect()
        }
    }
}

/// Apply one edit to the buffers in place. Returns false if the edit is not applicable to the current
/// table (too few knots, interval too narrow).
fn apply_edit(rng: &mut Rng, edit: &str, x: &mut Vec<f64>, y: &mut Vec<f64>, last_sorted: &(Vec<f64>, Vec<f64>), cap: usize) -> bool {
    let n = x.len();
    match edit {
        "swap-interior" => {
            if n < 4 {
                return false;
            }
            let a = rng.usize(1, n - 3);
            let b = if rng.bool() { a + 1 } else { rng.usize(a + 1, n - 2) };
            x.swap(a, b);
        }
        "reverse-interior-run" => {
            if n < 4 {
                return false;
            }
            let a = rng.usize(1, n - 3);
            let b = rng.usize(a + 1, n - 2);
            x[a..=b].reverse();
        }
        "duplicate-knot" => {
            if n < 5 {
                return false;
            }
            let j = rng.usize(1, n - 4);
            let k = rng.usize(j + 2, n - 2);
            x[j] = x[k];
        }
        "tangle-one-node" => {
            if n < 4 {
                return false;
            }
            let j = rng.usize(1, n - 3);
            // beyond the right neighbour, inside the range
            let (a, b) = (x[j + 1], x[n - 1]);
            let t = a + (b - a) * rng.range(0.05, 0.95);
            if !(t > a && t < b) {
                return false;
            }
            x[j] = t;
        }
        "nudge-interior" => {
            if n < 3 || order_of(x) != Order::Increasing {
                return false;
            }
            for j in 1..n - 1 {
                let (a, b) = (x[j - 1], x[j + 1]);
                let t = a + (b - a) * rng.range(0.1, 0.9);
                if t > a && t < b {
                    x[j] = t;
                }
            }
        }
        "restore-sorted" => {
            x.clear();
            x.extend_from_slice(&last_sorted.0);
            y.clear();
            y.extend_from_slice(&last_sorted.1);
        }
        "refill-sorted-same-ends" | "refill-unsorted-same-ends" => {
            if n < 4 || !(x[0] < x[n - 1]) {
                return false;
            }
            let (lo, hi) = (x[0], x[n - 1]);
            let inner = match interior_between(rng, lo, hi, n) {
                Some(v) => v,
                None => return false,
            };
            x.clear();
            x.push(lo);
            x.extend_from_slice(&inner);
            x.push(hi);
            if edit == "refill-unsorted-same-ends" {
                let a = rng.usize(1, n - 3);
                let b = rng.usize(a + 1, n - 2);
                x.swap(a, b);
            }
            let ny = ordinates(rng, n);
            y.clear();
            y.extend_from_slice(&ny);
        }
        "refill-other-length" => {
            let mut m = rng.usize(2, cap);
            if m == n {
                m = if n < cap { n + 1 } else { n - 1 };
            }
            if m < 2 {
                return false;
            }
            let keep_ends = rng.bool() && x[0] < x[n - 1];
            let (lo, hi) = if keep_ends { (x[0], x[n - 1]) } else { (rng.range(-50.0, 0.0), rng.range(1.0, 50.0)) };
            let inner = match interior_between(rng, lo, hi, m) {
                Some(v) => v,
                None => return false,
            };
            x.clear();
            x.push(lo);
            x.extend_from_slice(&inner);
            x.push(hi);
            if m >= 4 && rng.chance(0.4) {
                let a = rng.usize(1, m - 3);
                let b = rng.usize(a + 1, m - 2);
                x.swap(a, b);
            }
            let ny = ordinates(rng, m);
            y.clear();
            y.extend_from_slice(&ny);
        }
        "change-end-point" => {
            if n < 3 {
                return false;
            }
            let range = (x[n - 1] - x[0]).abs().max(1e-3);
            match rng.usize(0, 3) {
                0 => x[0] -= range * rng.range(0.1, 2.0),
                1 => x[n - 1] += range * rng.range(0.1, 2.0),
                // an end point moved inside the table
                2 => x[0] = x[n - 1] - (x[n - 1] - x[1]) * rng.range(0.0, 0.9),
                _ => x[n - 1] = x[0] + (x[n - 2] - x[0]) * rng.range(0.0, 0.9),
            }
        }
        _ => {
            // "y-truncated"
            if n < 3 {
                return false;
            }
            y.pop();
        }
    }
    true
}

fn history_case(cfg: &Cfg, i: usize, rng: &mut Rng, rep: &mut Report) {
    let few = cfg.miri();
    // first table: the knot generator of the main workload, at least 6 knots
    let mut k = gen_knots(rng, false);
    for _ in 0..40 {
        if k.x.len() >= 6 && (!few || k.x.len() <= 12) {
            break;
        }
        k = gen_knots(rng, false);
    }
    if k.x.len() < 6 || (few && k.x.len() > 12) {
        let n = rng.usize(6, 12);
        k.x = (0..n).map(|j| j as f64 + rng.range(0.0, 0.5)).collect();
        k.y = ordinates(rng, n);
    }
    // normalised abscissae now and then: every table starts at 0 and ends at 1
    if rng.chance(0.3) {
        let (a, b) = (k.x[0], k.x[k.x.len() - 1]);
        let nx: Vec<f64> = k.x.iter().map(|v| (v - a) / (b - a)).collect();
        if order_of(&nx) == Order::Increasing && nx[0] == 0.0 && nx[nx.len() - 1] == 1.0 {
            k.x = nx;
        }
    }
    let n0 = k.x.len();
    let cap = n0 + 8;
    let mut x: Vec<f64> = Vec::with_capacity(cap);
    let mut y: Vec<f64> = Vec::with_capacity(cap);
    x.extend_from_slice(&k.x);
    y.extend_from_slice(&k.y);
    let (px, py) = (x.as_ptr() as usize, y.as_ptr() as usize);
    let mut last_sorted = (k.x.clone(), k.y.clone());
    let fills = Mode::Fill(rng.normal() * 1e3 + 12345.0, rng.normal() * 1e3 - 54321.0);
    let steps = if few { 3 } else { rng.usize(3, 7) };
    let mut log: Vec<Value> = Vec::new();
    let mut prev_accepted: Option<bool> = None;
    // the edit of step s (s = 0: the first table); the first edit of case i is EDITS[i mod 11] so that every
    // edit meets a buffer that was just accepted
    for s in 0..=steps {
        let mut edit: &'static str = "first-table";
        if s > 0 {
            let mut done = false;
            for attempt in 0..12 {
                let e = if s == 1 && attempt == 0 { EDITS[i % EDITS.len()] } else { *rng.choose(&EDITS) };
                // a truncated y is repaired first: the next edit starts from the last sorted table
                if y.len() != x.len() {
                    apply_edit(rng, "restore-sorted", &mut x, &mut y, &last_sorted, cap);
                }
                let (bx, by) = (x.clone(), y.clone());
                if apply_edit(rng, e, &mut x, &mut y, &last_sorted, cap) && (order_of(&x) != Order::TiesOnly) && (e == "y-truncated" || bx != x || by != y || e == "restore-sorted") {
                    edit = e;
                    done = true;
                    break;
                }
                // not applicable, or it left ties without a descent: undo in place
                x.clear();
                x.extend_from_slice(&bx);
                y.clear();
                y.extend_from_slice(&by);
            }
            if !done {
                break;
            }
        }
        let same_address = x.as_ptr() as usize == px && y.as_ptr() as usize == py;
        let n = x.len();
        let ord = order_of(&x);
        let mismatch = y.len() != n;
        // targets: knots, interior points, both outsides (inside the end points' span whatever the order)
        let (lo, hi) = (x[0].min(x[n - 1]), x[0].max(x[n - 1]));
        let mut ts: Vec<f64> = Vec::new();
        for j in pick_idx(rng, n, if few { 1 } else { 3 }) {
            ts.push(x[j]);
        }
        for _ in 0..(if few { 2 } else { 5 }) {
            ts.push((lo + (hi - lo) * rng.f64()).clamp(lo, hi));
        }
        let m = match rng.usize(0, 2) {
            0 => Mode::Panic,
            1 => fills,
            _ => Mode::Extrapolate,
        };
        if m != Mode::Panic {
            ts.push(lo - (hi - lo) * rng.range(0.01, 1.0));
            ts.push(hi + (hi - lo) * rng.range(0.01, 1.0));
        }
        rng.shuffle(&mut ts);
        let regime = format!("checked:history:{}", edit);
        rep.case(&regime);
        rep.seen(if same_address { "history:same-address" } else { "history:buffer-moved" }, 1);
        if let Some(a) = prev_accepted {
            rep.seen(if a { "history:after-accepted-call" } else { "history:after-rejected-call" }, 1);
            if s > 0 && a && same_address && ord == Order::Descent && !mismatch && n == last_sorted.0.len() && x[0].to_bits() == last_sorted.0[0].to_bits() && x[n - 1].to_bits() == last_sorted.0[n - 1].to_bits() {
                rep.seen("history:descent-with-same-address-length-end-points-after-accepted", 1);
            }
            if s > 0 && a && same_address && ord == Order::Increasing && !mismatch && n == last_sorted.0.len() && x[0].to_bits() == last_sorted.0[0].to_bits() && x[n - 1].to_bits() == last_sorted.0[n - 1].to_bits() && x != last_sorted.0 {
                rep.seen("history:new-interior-with-same-address-length-end-points-after-accepted", 1);
            }
        }
        rep.distinct(Hasher::new().s("history").s(edit).u(s as u64).fs(&x).fs(&y).finish(), n >= 3);
        // the call under test: the checked variant on the edited buffer, on this thread
        let got = call(true, &x, &y, &ts, m);
        log.push(json!({"step": s, "edit": edit, "x": jf(&x), "y_len": y.len(), "order": format!("{:?}", ord), "outcome": if got.is_ok() { "returned" } else { "panicked" }}));
        let hist = Value::Array(log.clone());
        let ctx = |extra: Value| json!({"variant": "checked", "mode": m.js(), "x": jf(&x), "y": jf(&y), "n": n, "targets": jf(&ts), "same_buffer_as_previous_calls": same_address, "calls_on_this_buffer_so_far": hist, "detail": extra});
        let hreg = format!("history:{}", edit);
        if mismatch {
            rep.check("C16.checked.rejects_mismatch", &hreg, got.is_err(), || ctx(json!({"x_len": n, "y_len": y.len(), "observed": got.as_ref().map(|v| jf(v)).unwrap_or(json!("panic")), "expected": "panic"})));
        } else if ord == Order::Descent {
            let at = x.windows(2).position(|w| w[1] < w[0]).unwrap();
            rep.check("C16.checked.rejects_unsorted", &hreg, got.is_err(), || ctx(json!({"descending_pair_at": at, "pair": [x[at], x[at + 1]], "observed": got.as_ref().map(|v| jf(v)).unwrap_or(json!("panic")), "expected": "panic"})));
        } else {
            // strictly increasing: the same call as the first library call of a fresh thread, on a fresh copy
            let (fx, fy, ft) = (x.clone(), y.clone(), ts.clone());
            let fresh: Option<Result<Vec<f64>, String>> = std::thread::scope(|sc| sc.spawn(|| call(true, &fx, &fy, &ft, m)).join().ok());
            let fresh = match fresh {
                Some(f) => f,
                None => {
                    rep.inconclusive("C16: harness thread of a fresh-thread twin died".to_string());
                    return;
                }
            };
            let same = match (&got, &fresh) {
                (Ok(a), Ok(b)) => a.len() == b.len() && a.iter().zip(b).all(|(p, q)| same_bits(*p, *q)),
                (Err(_), Err(_)) => true,
                _ => false,
            };
            rep.check("C16.history.same_as_fresh_thread", &hreg, same, || ctx(json!({"on_the_edited_buffer": got.as_ref().map(|v| jf(v)).unwrap_or_else(|e| json!({"panic": e})), "fresh_thread_fresh_copy": fresh.as_ref().map(|v| jf(v)).unwrap_or_else(|e| json!({"panic": e}))})));
            match &got {
                Err(msg) => {
                    // with Panic mode all targets are in range, with the other modes nothing may panic
                    rep.check("C16.in_range.no_panic", &regime, false, || ctx(json!({"panic": msg})));
                }
                Ok(v) => {
                    rep.check("C16.in_range.no_panic", &regime, true, || json!(null));
                    if rep.check("C16.output_len", &regime, v.len() == ts.len(), || ctx(json!({"targets": ts.len(), "returned": v.len()}))) {
                        for (j, &t) in ts.iter().enumerate() {
                            judge(rep, &regime, &x, &y, m, t, v[j], &ctx);
                        }
                    }
                }
            }
            last_sorted = (x.clone(), y.clone());
        }
        prev_accepted = Some(got.is_ok());
    }
}

pub fn run(cfg: &Cfg, rep: &mut Report) {
    rep.rule = "random knot sets: n in 2..200, strictly increasing abscissae (uniform / spacing ratios <= 1e2 / <= 1e6, scale 1e-3..1e3), ordinates gaussian / |y| in 1e-150..1e150 / flat runs with zeros / integers / offset 1e6; per set: in-range targets (knots incl. first and last, midpoints, knot+-1ulp, random interior) x 3 modes x 2 variants, then per side 4 out-of-range targets (1 ulp, fraction of range, 1x, 10x range) x 3 modes x 2 variants, then one unsorted and one length-mismatched call of the checked variant. one evaluation = one library call. non-trivial = n >= 3 and ordinates not all equal; distinct by bits of (x, y); batch family: per knot set a master list of targets (knots, random interior, knot+-1ulp, a coarse regular grid, both outsides) evaluated one per call and then in one call in six orders (shuffled, out-of-range alternating with in-range, ascending dense, ascending sparse, coarse grid, descending) x 3 modes x 2 variants (Panic mode with in-range targets only): every value must satisfy the oracle and equal the one-per-call value bit for bit; history family: one (x, y) buffer pair with spare capacity, a first strictly increasing table (>= 6 knots, 30 % normalised to [0, 1]), then 3..7 in-place edits (the first one = case index mod 11 of swap-interior, reverse-interior-run, duplicate-knot, tangle-one-node, nudge-interior, restore-sorted, refill-sorted-same-ends, refill-unsorted-same-ends, refill-other-length, change-end-point, y-truncated; the others random), the checked variant called after every edit on the same thread with knot / interior / outside targets in a random mode: descent or length mismatch must panic, a strictly increasing table must give the oracle's values and the bits of a first call on a fresh thread; large-batch family: per knot set 255..10000 (thorough ..20000) targets, sizes at and next to powers of two, evaluated one per call and in one call in six orders (random, sorted, reversed, block-shuffled, rotated, sorted with a few swaps) x 3 modes x 2 variants, every position against the oracle and the one-target value".into();
    rep.assume("abscissae strictly increasing and finite, ordinates finite with |y| <= 1e150 (chords cannot overflow); ties in the abscissae are neither required to be accepted nor rejected");
    rep.assume("a knot ordinate of -0.0 may be returned as +0.0 (numerically equal)");
    rep.assume("fill values may be any f64 incl. inf/NaN and are compared bitwise (all NaNs identified)");
    rep.assume("the value at a target is a function of (x, y, mode, target) alone: results of a multi-target call are compared bit for bit with the results of one-target calls");
    rep.assume("the unchecked variant's behaviour on unsorted / mismatched input is not judged");
    let nsets = cfg.pick(1500, 40000, 3);
    par_cases(cfg, rep, 1, nsets, |_i, rng, rep| one_set(cfg, rng, rep));
    // hand-written minimal cases (the DESIGN probe): x = [0,1,2], y = [0,10,20]
    par_cases(cfg, rep, 2, 1, |_i, _rng, rep| {
        let (x, y) = ([0.0, 1.0, 2.0], [0.0, 10.0, 20.0]);
        for checked in [true, false] {
            let vreg = vname(checked);
            rep.case(&format!("{}:fill:right", vreg));
            let got = call(checked, &x, &y, &[3.0], Mode::Fill(-1.0, -2.0));
            rep.check("C16.fill.right", vreg, matches!(&got, Ok(v) if v.len() == 1 && same_bits(v[0], -2.0)), || json!({"x": jf(&x), "y": jf(&y), "target": 3.0, "mode": {"fill": [-1.0, -2.0]}, "observed": got.as_ref().map(|v| jf(v)).unwrap_or(json!("panic")), "expected": -2.0}));
            rep.case(&format!("{}:panic:right", vreg));
            let got = call(checked, &x, &y, &[3.0], Mode::Panic);
            rep.check("C16.panic_mode.right", vreg, got.is_err(), || json!({"x": jf(&x), "y": jf(&y), "target": 3.0, "mode": "panic", "observed": got.as_ref().map(|v| jf(v)).unwrap_or(json!("panic")), "expected": "panic"}));
            rep.case(&format!("{}:fill:left", vreg));
            let got = call(checked, &x, &y, &[-1.0], Mode::Fill(-1.0, -2.0));
            rep.check("C16.fill.left", vreg, matches!(&got, Ok(v) if v.len() == 1 && same_bits(v[0], -1.0)), || json!({"x": jf(&x), "y": jf(&y), "target": -1.0, "observed": got.as_ref().map(|v| jf(v)).unwrap_or(json!("panic")), "expected": -1.0}));
            // empty target list: empty result, no panic, in every mode
            for m in [Mode::Panic, Mode::Fill(1.0, 2.0), Mode::Extrapolate] {
                let regime = format!("{}:{}:in-range", vreg, m.name());
                rep.case(&regime);
                let got = call(checked, &x, &y, &[], m);
                rep.check("C16.output_len", &regime, matches!(&got, Ok(v) if v.is_empty()), || json!({"targets": [], "observed": got.as_ref().map(|v| jf(v)).unwrap_or(json!("panic"))}));
            }
        }
    });
    // multi-target calls against one-target-per-call results and the oracle
    let nb = cfg.pick(500, 8000, 1);
    par_cases(cfg, rep, 3, nb, |_i, rng, rep| batch_set(cfg, rng, rep));
    // call histories of the checked variant on one buffer edited in place (stream 4)
    rep.assume("what a thread has interpolated before, and what the buffer held at the previous call, is outside the quantifier: after every in-place edit of one (x, y) buffer pair the checked variant must reject a strict descent or a length mismatch and must, on a strictly increasing table, return the values a first call on a fresh thread returns for a fresh copy, bit for bit; edits that leave ties without a descent are not generated");
    let nh = cfg.pick(440, 8800, 2);
    par_cases(cfg, rep, 4, nh, |i, rng, rep| history_case(cfg, i, rng, rep));
    // large batches (stream 5); off under Miri (thousands of library calls per case)
    if !cfg.miri() {
        rep.assume("the number of targets of one call is not bounded by the quantifier: batches of 255..10000 targets (thorough: ..20000; sizes at and next to powers of two) of knots, knot+-1ulp, midpoints, random interior points and (fill / extrapolate modes) targets beyond both ends, in random, sorted, reversed, block-shuffled, rotated and sorted-with-a-few-swaps order, must give at every position the oracle's value and, bit for bit, the value of a one-target call; in panic mode a batch with one out-of-range target anywhere must panic; not run under Miri, three sizes and one variant x mode pair per case in the lite layers");
        let nl = cfg.pick(3 * LARGE_SIZES.len(), 6 * (LARGE_SIZES.len() + LARGE_SIZES_THOROUGH.len()), 6);
        par_cases(cfg, rep, 5, nl, |i, rng, rep| large_batch_case(cfg, i, rng, rep));
        rep.require("large-batch:size>=1024", 1);
        rep.require("large-batch:size=2^j", 1);
        rep.require("large-batch:size=2^j+1", 1);
        rep.require("large-batch:out-of-range-on-both-sides", 1);
        if !cfg.lite {
            rep.require("large-batch:size<1024", 1);
            rep.require("large-batch:size=2^j-1", 1);
            rep.require("large-batch:size=other", 1);
            rep.require("large-batch:panic-mode-one-target-outside", 1);
        }
        for v in ["checked", "unchecked"] {
            for m in ["panic", "fill", "extrapolate"] {
                rep.require(&format!("{}:{}:large-batch:single", v, m), 1);
                for o in LARGE_ORDERS {
                    rep.require(&format!("{}:{}:large-batch:{}", v, m, o), 1);
                }
            }
        }
    }
    rep.require("checked:history:first-table", 1);
    rep.require("history:same-address", 1);
    rep.require("history:after-accepted-call", 1);
    if !cfg.lite {
        for e in EDITS {
            rep.require(&format!("checked:history:{}", e), 1);
        }
        rep.require("history:after-rejected-call", 1);
        rep.require("history:descent-with-same-address-length-end-points-after-accepted", 1);
        rep.require("history:new-interior-with-same-address-length-end-points-after-accepted", 1);
    }
    for v in ["checked", "unchecked"] {
        for m in ["panic", "fill", "extrapolate"] {
            rep.require(&format!("{}:{}:batch:single", v, m), 1);
            for o in ORDERS {
                rep.require(&format!("{}:{}:batch:{}", v, m, o), 1);
            }
        }
    }
    if !cfg.lite {
        for r in ["batch:ascending-skips-segment", "batch:in-range-after-above", "batch:in-range-after-below"] {
            rep.require(r, 1);
        }
    }
    for v in ["checked", "unchecked"] {
        for m in ["panic", "fill", "extrapolate"] {
            rep.require(&format!("{}:{}:in-range", v, m), 1);
            rep.require(&format!("{}:{}:left", v, m), 1);
            rep.require(&format!("{}:{}:right", v, m), 1);
        }
    }
    rep.require("checked:unsorted", 1);
    if !cfg.lite {
        for r in [
            "checked:unsorted:first-pair", "checked:unsorted:last-pair", "checked:unsorted:middle-pair", "checked:mismatch:y-longer", "checked:mismatch:y-shorter",
            "target:knot", "target:midpoint", "target:knot+1ulp", "target:knot-1ulp", "target:random-interior",
            "target:left:1ulp", "target:left:10x-range", "target:right:1ulp", "target:right:10x-range",
            "spacing:uniform", "spacing:ratio<=1e2", "spacing:ratio<=1e6", "knots:n=2", "knots:n=3..12", "knots:n=13..200",
            "y:gaussian", "y:wide-magnitude", "y:flat-runs", "y:integers", "y:offset",
        ] {
            rep.require(r, 1);
        }
    }
}
