//! C16 — linear interpolation reproduces knots and honours the out-of-range mode (DESIGN §3 C16).
//!
//! Events: every `interp1d_linear` / `interp1d_linear_unchecked` call (value vector or panic).
//! Oracle: knots bitwise; interior targets against the chord evaluated in double-double
//! (`4ε(|y_k|+|y_{k+1}|)`) and between the neighbouring ordinates (4 ulp slack); outside the range
//! the three modes on both sides separately (`C16.panic_mode.left/right`, `C16.fill.left/right`,
//! `C16.extrapolate.left/right`), each under the regime `checked` / `unchecked`; the checked variant
//! must panic on a descending pair or a length mismatch.
use crate::gen::Rng;
use crate::oracle::dd::Dd;
use crate::report::{guard, jf, jnum, par_cases, same_bits, Cfg, Hasher, Report};
use compute::functions::{interp1d_linear, interp1d_linear_unchecked, ExtrapolationMode};
use serde_json::{json, Value};

const EPS: f64 = f64::EPSILON;

#[derive(Clone, Copy, Debug, PartialEq)]
enum Mode {
    Panic,
    Fill(f64, f64),
    Extrapolate,
}
impl Mode {
    fn lib(self) -> ExtrapolationMode {
        match self {
            Mode::Panic => ExtrapolationMode::Panic,
            Mode::Fill(l, r) => ExtrapolationMode::Fill(l, r),
            Mode::Extrapolate => ExtrapolationMode::Extrapolate,
        }
    }
    fn name(self) -> &'static str {
        match self {
            Mode::Panic => "panic",
            Mode::Fill(..) => "fill",
            Mode::Extrapolate => "extrapolate",
        }
    }
    fn js(self) -> Value {
        match self {
            Mode::Fill(l, r) => json!({"fill": [jnum(l), jnum(r)]}),
            m => json!(m.name()),
        }
    }
}

fn call(checked: bool, x: &[f64], y: &[f64], t: &[f64], m: Mode) -> Result<Vec<f64>, String> {
    guard(|| {
        let v = if checked { interp1d_linear(x, y, t, m.lib()) } else { interp1d_linear_unchecked(x, y, t, m.lib()) };
        v.v.clone()
    })
}
fn vname(checked: bool) -> &'static str {
    if checked {
        "checked"
    } else {
        "unchecked"
    }
}

#[derive(Clone, Copy, Debug, PartialEq)]
enum Where {
    Left,
    Right,
    Knot(usize),
    Interior(usize), // x[k] < t < x[k+1]
}

fn locate(x: &[f64], t: f64) -> Where {
    let n = x.len();
    if t < x[0] {
        return Where::Left;
    }
    if t > x[n - 1] {
        return Where::Right;
    }
    // largest k with x[k] <= t
    let (mut lo, mut hi) = (0usize, n - 1);
    while lo < hi {
        let mid = (lo + hi + 1) / 2;
        if x[mid] <= t {
            lo = mid;
        } else {
            hi = mid - 1;
        }
    }
    if x[lo] == t {
        Where::Knot(lo)
    } else {
        Where::Interior(lo)
    }
}

/// value of the line through (xa,ya),(xb,yb) at t in double-double, and the line's scale there
fn line_dd(xa: f64, ya: f64, xb: f64, yb: f64, t: f64) -> (f64, f64) {
    let r = Dd::sum2(t, -xa) / Dd::sum2(xb, -xa);
    let v = Dd::new(ya) + r * Dd::sum2(yb, -ya);
    // scale of the line at t: the ordinates' magnitude times the extrapolation factor (the same
    // |y_a|+|y_b| scale the interior tolerance uses, so 1 ulp beyond a knot is judged like 1 ulp inside)
    let scale = (ya.abs() + yb.abs()) * r.f().abs().max((Dd::ONE - r).f().abs()).max(1.0);
    (v.f(), scale)
}

fn zero_eq(a: f64, b: f64) -> bool {
    same_bits(a, b) || (a == 0.0 && b == 0.0)
}

struct Knots {
    x: Vec<f64>,
    y: Vec<f64>,
    xclass: &'static str,
    yclass: &'static str,
}

fn gen_knots(rng: &mut Rng, lite: bool) -> Knots {
    let n = if lite {
        rng.usize(2, 8)
    } else {
        match rng.usize(0, 9) {
            0 => 2,
            1 => 3,
            2..=4 => rng.usize(4, 12),
            5..=7 => rng.usize(13, 60),
            _ => rng.usize(61, 200),
        }
    };
    let (xclass, ratio) = match rng.usize(0, 3) {
        0 => ("spacing:uniform", 1.0),
        1 => ("spacing:ratio<=1e2", 1e2),
        _ => ("spacing:ratio<=1e6", 1e6),
    };
    // the absolute scale of the abscissae is arbitrary (the quantifier bounds spacing *ratios*):
    // mostly 1e-3..1e3, sometimes 2^-60..2^60 so that spacings far below/above 1 occur
    let scale = if rng.chance(0.25) { 2f64.powi(rng.int(-60, 60) as i32) } else { 10f64.powf(rng.range(-3.0, 3.0)) };
    let mut x = Vec::with_capacity(n);
    let mut cur = rng.range(-100.0, 100.0) * scale;
    x.push(cur);
    for _ in 1..n {
        let s = if ratio == 1.0 { 1.0 } else { rng.log_range(1.0, ratio) };
        let mut nx = cur + s * scale;
        if nx <= cur {
            nx = cur.next_up();
        }
        x.push(nx);
        cur = nx;
    }
    // sometimes put a knot exactly at 0.0 (signed-zero targets are then in range)
    if rng.chance(0.15) {
        let j = match rng.usize(0, 2) {
            0 => 0,
            1 => n - 1,
            _ => rng.usize(0, n - 1),
        };
        let shifted: Vec<f64> = x.iter().map(|v| v - x[j]).collect();
        if shifted.windows(2).all(|w| w[1] > w[0]) {
            x = shifted;
        }
    }
    let (yclass, y): (&'static str, Vec<f64>) = match rng.usize(0, 5) {
        0 | 1 => {
            let s = 10f64.powf(rng.range(-2.0, 2.0));
            ("y:gaussian", (0..n).map(|_| rng.normal() * s).collect())
        }
        2 => ("y:wide-magnitude", (0..n).map(|_| if rng.bool() { 1.0 } else { -1.0 } * 10f64.powf(rng.range(-150.0, 150.0))).collect()),
        3 => {
            // runs of equal ordinates and zeros: "between the ordinates" is then an equality
            let mut v = Vec::with_capacity(n);
            let mut c = rng.normal();
            for _ in 0..n {
                if rng.chance(0.4) {
                    c = if rng.chance(0.3) { 0.0 } else { rng.normal() * 10.0 };
                }
                v.push(c);
            }
            ("y:flat-runs", v)
        }
        4 => ("y:integers", rng.ints(n, -1000, 1000)),
        _ => {
            let off = rng.normal() * 1e6;
            ("y:offset", (0..n).map(|_| off + rng.normal()).collect())
        }
    };
    Knots { x, y, xclass, yclass }
}

/// a few indices in 0..m always containing the first and the last
fn pick_idx(rng: &mut Rng, m: usize, extra: usize) -> Vec<usize> {
    if m <= extra + 2 {
        return (0..m).collect();
    }
    let mut v = vec![0, m - 1];
    for _ in 0..extra {
        v.push(rng.usize(0, m - 1));
    }
    v.sort_unstable();
    v.dedup();
    v
}

fn one_set(cfg: &Cfg, rng: &mut Rng, rep: &mut Report) {
    let k = gen_knots(rng, cfg.lite);
    let (x, y) = (&k.x, &k.y);
    let n = x.len();
    rep.seen(k.xclass, 1);
    rep.seen(k.yclass, 1);
    rep.seen(if n == 2 { "knots:n=2" } else if n <= 12 { "knots:n=3..12" } else { "knots:n=13..200" }, 1);
    rep.distinct(Hasher::new().fs(x).fs(y).finish(), n >= 3 && y.iter().any(|&v| v != y[0]));
    let range = x[n - 1] - x[0];
    let fills = {
        let pool = [rng.normal() * 1e3, -7.25e200, 3.5e201, f64::INFINITY, f64::NEG_INFINITY, f64::NAN, 0.0, -0.0];
        let l = if rng.chance(0.7) { rng.normal() * 1e3 + 12345.0 } else { *rng.choose(&pool) };
        let mut r = if rng.chance(0.7) { rng.normal() * 1e3 - 54321.0 } else { *rng.choose(&pool) };
        if same_bits(l, r) {
            r = -98765.5;
        }
        Mode::Fill(l, r)
    };
    let modes = [Mode::Panic, fills, Mode::Extrapolate];

    // ---- in-range targets ------------------------------------------------------------------
    let mut tg: Vec<(f64, &'static str)> = Vec::new();
    for i in pick_idx(rng, n, 8) {
        tg.push((x[i], "target:knot"));
        if x[i] == 0.0 {
            // a knot at zero is hit by both signed zeros
            tg.push((-x[i], "target:knot"));
        }
    }
    if let Some(i) = x.iter().position(|&v| v == 0.0) {
        tg.push((0.0, "target:knot"));
        tg.push((-0.0, "target:knot"));
        rep.seen("knots:zero-knot", 1);
        let _ = i;
    }
    for i in pick_idx(rng, n - 1, 8) {
        let m = 0.5 * x[i] + 0.5 * x[i + 1];
        if m > x[i] && m < x[i + 1] {
            tg.push((m, "target:midpoint"));
        }
        let u = x[i].next_up();
        if u < x[i + 1] {
            tg.push((u, "target:knot+1ulp"));
        }
        let d = x[i + 1].next_down();
        if d > x[i] {
            tg.push((d, "target:knot-1ulp"));
        }
        let t = x[i] + (x[i + 1] - x[i]) * rng.f64();
        if t >= x[i] && t <= x[i + 1] {
            tg.push((t, "target:random-interior"));
        }
    }
    rng.shuffle(&mut tg);
    let targets: Vec<f64> = tg.iter().map(|p| p.0).collect();
    for p in &tg {
        rep.seen(p.1, 1);
    }
    for checked in [true, false] {
        for m in modes {
            let regime = format!("{}:{}:in-range", vname(checked), m.name());
            rep.case(&regime);
            let got = call(checked, x, y, &targets, m);
            let ctx = |extra: Value| json!({"variant": vname(checked), "mode": m.js(), "x": jf(x), "y": jf(y), "n": n, "detail": extra});
            match got {
                Err(msg) => {
                    rep.check("C16.in_range.no_panic", &regime, false, || ctx(json!({"targets": jf(&targets), "panic": msg})));
                }
                Ok(v) => {
                    rep.check("C16.in_range.no_panic", &regime, true, || json!(null));
                    if !rep.check("C16.output_len", &regime, v.len() == targets.len(), || ctx(json!({"targets": targets.len(), "returned": v.len()}))) {
                        continue;
                    }
                    for (j, &t) in targets.iter().enumerate() {
                        match locate(x, t) {
                            Where::Knot(i) => {
                                rep.check("C16.knot.exact", &regime, zero_eq(v[j], y[i]), || ctx(json!({"target": t, "knot_index": i, "observed": jnum(v[j]), "expected": jnum(y[i])})));
                            }
                            Where::Interior(i) => {
                                let (want, _) = line_dd(x[i], y[i], x[i + 1], y[i + 1], t);
                                let tol = 4.0 * EPS * (y[i].abs() + y[i + 1].abs()) + 2e-323;
                                let err = (v[j] - want).abs();
                                rep.note_max("worst_ratio.interior_chord", err / tol);
                                rep.check("C16.interior.chord", &regime, err <= tol, || {
                                    ctx(json!({"target": t, "segment": i, "x_seg": [x[i], x[i+1]], "y_seg": [y[i], y[i+1]], "observed": jnum(v[j]), "expected": want, "abs_err": err, "tol": tol}))
                                });
                                let (lo, hi) = (y[i].min(y[i + 1]), y[i].max(y[i + 1]));
                                let slack = 4.0 * EPS * y[i].abs().max(y[i + 1].abs()) + 2e-323;
                                let out = (lo - v[j]).max(v[j] - hi).max(0.0);
                                rep.note_max("worst_ratio.interior_between", out / slack);
                                rep.check("C16.interior.between", &regime, out <= slack, || {
                                    ctx(json!({"target": t, "segment": i, "y_seg": [y[i], y[i+1]], "observed": jnum(v[j]), "outside_by": out, "slack": slack}))
                                });
                            }
                            _ => {}
                        }
                    }
                }
            }
        }
    }
    rep.sample(|| json!({"n": n, "x_head": jf(&x[..n.min(4)]), "y_head": jf(&y[..n.min(4)]), "classes": [k.xclass, k.yclass], "in_range_targets": targets.len()}));

    // ---- out-of-range targets, one side at a time -------------------------------------------
    let fr = rng.log_range(1e-3, 0.5);
    let left: Vec<(f64, &'static str)> = vec![
        (x[0].next_down(), "target:left:1ulp"),
        (x[0] - fr * range, "target:left:fraction-of-range"),
        (x[0] - range, "target:left:1x-range"),
        (x[0] - 10.0 * range, "target:left:10x-range"),
    ];
    let right: Vec<(f64, &'static str)> = vec![
        (x[n - 1].next_up(), "target:right:1ulp"),
        (x[n - 1] + fr * range, "target:right:fraction-of-range"),
        (x[n - 1] + range, "target:right:1x-range"),
        (x[n - 1] + 10.0 * range, "target:right:10x-range"),
    ];
    for (side, list) in [("left", &left), ("right", &right)] {
        let list: Vec<(f64, &'static str)> = list.iter().cloned().filter(|p| if side == "left" { p.0 < x[0] } else { p.0 > x[n - 1] }).collect();
        for p in &list {
            rep.seen(p.1, 1);
        }
        let ts: Vec<f64> = list.iter().map(|p| p.0).collect();
        for checked in [true, false] {
            let vreg = vname(checked);
            let ctx = |m: Mode, extra: Value| json!({"variant": vreg, "mode": m.js(), "side": side, "x": jf(x), "y": jf(y), "n": n, "detail": extra});
            // Panic mode: one call per target so every distance class is judged on its own
            // (Miri smoke: one target per side — a panic costs ~0.1 s there)
            let plist: &[f64] = if cfg.miri() { &ts[..1] } else { &ts };
            for &t in plist {
                rep.case(&format!("{}:panic:{}", vreg, side));
                let got = call(checked, x, y, &[t], Mode::Panic);
                let a = format!("C16.panic_mode.{}", side);
                rep.check(&a, vreg, got.is_err(), || ctx(Mode::Panic, json!({"target": t, "beyond_by": if side == "left" { x[0] - t } else { t - x[n-1] }, "observed": got.as_ref().map(|v| jf(v)).unwrap_or(json!("panic")), "expected": "panic"})));
            }
            // Fill mode
            rep.case(&format!("{}:fill:{}", vreg, side));
            let (fl, frr) = match fills {
                Mode::Fill(l, r) => (l, r),
                _ => unreachable!(),
            };
            let want = if side == "left" { fl } else { frr };
            match call(checked, x, y, &ts, fills) {
                Err(msg) => {
                    rep.check("C16.fill.no_panic", &format!("{}:{}", vreg, side), false, || ctx(fills, json!({"targets": jf(&ts), "panic": msg})));
                }
                Ok(v) => {
                    rep.check("C16.fill.no_panic", &format!("{}:{}", vreg, side), true, || json!(null));
                    if rep.check("C16.output_len", &format!("{}:fill:{}", vreg, side), v.len() == ts.len(), || ctx(fills, json!({"targets": ts.len(), "returned": v.len()}))) {
                        let a = format!("C16.fill.{}", side);
                        for (j, &t) in ts.iter().enumerate() {
                            rep.check(&a, vreg, same_bits(v[j], want), || ctx(fills, json!({"target": t, "observed": jnum(v[j]), "expected": jnum(want)})));
                        }
                    }
                }
            }
            // Extrapolate mode
            rep.case(&format!("{}:extrapolate:{}", vreg, side));
            match call(checked, x, y, &ts, Mode::Extrapolate) {
                Err(msg) => {
                    rep.check("C16.extrapolate.no_panic", &format!("{}:{}", vreg, side), false, || ctx(Mode::Extrapolate, json!({"targets": jf(&ts), "panic": msg})));
                }
                Ok(v) => {
                    rep.check("C16.extrapolate.no_panic", &format!("{}:{}", vreg, side), true, || json!(null));
                    if rep.check("C16.output_len", &format!("{}:extrapolate:{}", vreg, side), v.len() == ts.len(), || ctx(Mode::Extrapolate, json!({"targets": ts.len(), "returned": v.len()}))) {
                        let (ia, ib) = if side == "left" { (0, 1) } else { (n - 2, n - 1) };
                        let a = format!("C16.extrapolate.{}", side);
                        for (j, &t) in ts.iter().enumerate() {
                            let (want, scale) = line_dd(x[ia], y[ia], x[ib], y[ib], t);
                            let tol = 1e-12 * scale + 2e-323;
                            let err = (v[j] - want).abs();
                            rep.note_max(&format!("worst_ratio.extrapolate_{}", side), err / tol);
                            rep.check(&a, vreg, err <= tol, || ctx(Mode::Extrapolate, json!({"target": t, "segment": [[x[ia], y[ia]], [x[ib], y[ib]]], "observed": jnum(v[j]), "expected": want, "abs_err": err, "tol": tol})));
                        }
                    }
                }
            }
        }
    }

    // ---- checked variant must reject unsorted abscissae and mismatched lengths ------------------
    let inr: Vec<f64> = vec![x[0], 0.5 * x[0] + 0.5 * x[n - 1], x[n - 1]];
    let pos_classes: Vec<(&'static str, usize)> = if n == 2 {
        vec![("unsorted:first-pair", 0)]
    } else {
        let mut v = vec![("unsorted:first-pair", 0), ("unsorted:last-pair", n - 2)];
        if n >= 4 {
            v.push(("unsorted:middle-pair", rng.usize(1, n - 3)));
        }
        v
    };
    let (cls, i) = *rng.choose(&pos_classes);
    let mut xs = x.clone();
    xs.swap(i, i + 1); // strictly increasing before, so (i, i+1) is now a strictly descending pair
    let m = if rng.bool() { Mode::Extrapolate } else { fills };
    rep.case(&format!("checked:{}", cls));
    rep.seen("checked:unsorted", 1);
    let got = call(true, &xs, y, &inr, m);
    rep.check("C16.checked.rejects_unsorted", cls, got.is_err(), || json!({"x": jf(&xs), "y": jf(y), "descending_pair_at": i, "pair": [xs[i], xs[i+1]], "mode": m.js(), "targets": jf(&inr), "observed": got.as_ref().map(|v| jf(v)).unwrap_or(json!("panic")), "expected": "panic"}));
    if !cfg.miri() || rng.chance(0.3) {
        let longer = rng.bool();
        let cls = if longer { "mismatch:y-longer" } else { "mismatch:y-shorter" };
        let mut ys = y.clone();
        if longer {
            ys.push(1.5);
        } else {
            ys.pop();
        }
        rep.case(&format!("checked:{}", cls));
        let got = call(true, x, &ys, &inr, m);
        rep.check("C16.checked.rejects_mismatch", cls, got.is_err(), || json!({"x_len": n, "y_len": ys.len(), "x": jf(x), "y": jf(&ys), "mode": m.js(), "targets": jf(&inr), "observed": got.as_ref().map(|v| jf(v)).unwrap_or(json!("panic")), "expected": "panic"}));
    }
}

// ---------------------------------------------------------------------------------------------
// multi-target calls: the value at a target does not depend on the other targets of the same call,
// on their order, or on whether they are in range

/// The oracle on one (target, value) pair of a successful call.
fn judge(rep: &mut Report, regime: &str, x: &[f64], y: &[f64], m: Mode, t: f64, v: f64, ctx: &dyn Fn(Value) -> Value) {
    let n = x.len();
    match locate(x, t) {
        Where::Knot(i) => {
            rep.check("C16.knot.exact", regime, zero_eq(v, y[i]), || ctx(json!({"target": t, "knot_index": i, "observed": jnum(v), "expected": jnum(y[i])})));
        }
        Where::Interior(i) => {
            let (want, _) = line_dd(x[i], y[i], x[i + 1], y[i + 1], t);
            let tol = 4.0 * EPS * (y[i].abs() + y[i + 1].abs()) + 2e-323;
            let err = (v - want).abs();
            rep.note_max("worst_ratio.interior_chord", err / tol);
            rep.check("C16.interior.chord", regime, err <= tol, || ctx(json!({"target": t, "segment": i, "x_seg": [x[i], x[i+1]], "y_seg": [y[i], y[i+1]], "observed": jnum(v), "expected": want, "abs_err": jnum(err), "tol": tol})));
            let (lo, hi) = (y[i].min(y[i + 1]), y[i].max(y[i + 1]));
            let slack = 4.0 * EPS * y[i].abs().max(y[i + 1].abs()) + 2e-323;
            let out = (lo - v).max(v - hi).max(0.0);
            rep.check("C16.interior.between", regime, out <= slack, || ctx(json!({"target": t, "segment": i, "y_seg": [y[i], y[i+1]], "observed": jnum(v), "outside_by": jnum(out), "slack": slack})));
        }
        side => {
            let left = side == Where::Left;
            let sname = if left { "left" } else { "right" };
            match m {
                Mode::Panic => {
                    rep.check(&format!("C16.panic_mode.{}", sname), regime, false, || ctx(json!({"target": t, "observed": jnum(v), "expected": "panic"})));
                }
                Mode::Fill(l, r) => {
                    let want = if left { l } else { r };
                    rep.check(&format!("C16.fill.{}", sname), regime, same_bits(v, want), || ctx(json!({"target": t, "observed": jnum(v), "expected": jnum(want)})));
                }
                Mode::Extrapolate => {
                    let (ia, ib) = if left { (0, 1) } else { (n - 2, n - 1) };
                    let (want, scale) = line_dd(x[ia], y[ia], x[ib], y[ib], t);
                    let tol = 1e-12 * scale + 2e-323;
                    let err = (v - want).abs();
                    rep.note_max(&format!("worst_ratio.extrapolate_{}", sname), err / tol);
                    rep.check(&format!("C16.extrapolate.{}", sname), regime, err <= tol, || ctx(json!({"target": t, "segment": [[x[ia], y[ia]], [x[ib], y[ib]]], "observed": jnum(v), "expected": want, "abs_err": jnum(err), "tol": tol})));
                }
            }
        }
    }
}

const ORDERS: [&str; 6] = ["shuffled", "alternating-range", "ascending-dense", "ascending-sparse", "ascending-coarse-grid", "descending"];

fn batch_set(cfg: &Cfg, rng: &mut Rng, rep: &mut Report) {
    let k = gen_knots(rng, cfg.lite);
    let (x, y) = (&k.x, &k.y);
    let n = x.len();
    let range = x[n - 1] - x[0];
    rep.distinct(Hasher::new().s("batch").fs(x).fs(y).finish(), n >= 3 && y.iter().any(|&v| v != y[0]));
    let few = cfg.miri();
    // ---- master target list: in-range positional targets, a coarse regular grid, both outsides
    let mut inr: Vec<f64> = Vec::new();
    for i in pick_idx(rng, n, if few { 1 } else { 6 }) {
        inr.push(x[i]);
    }
    for i in pick_idx(rng, n - 1, if few { 1 } else { 6 }) {
        let t = x[i] + (x[i + 1] - x[i]) * rng.f64();
        if t >= x[i] && t <= x[i + 1] {
            inr.push(t);
        }
        if !few {
            let u = if rng.bool() { x[i].next_up() } else { x[i + 1].next_down() };
            if u >= x[i] && u <= x[i + 1] {
                inr.push(u);
            }
        }
    }
    // coarse regular grid over the data range (coarser than the knots on average: <= n/2 points)
    let gm = if few { 2 } else { rng.usize(2, (n / 2).clamp(2, 12)) };
    let grid: Vec<f64> = (0..gm).map(|j| x[0] + range * (j as f64 + rng.f64() * 0.5) / gm as f64).filter(|&t| t >= x[0] && t <= x[n - 1]).collect();
    let fr = rng.log_range(1e-3, 0.5);
    let left: Vec<f64> = [x[0].next_down(), x[0] - fr * range, x[0] - range].iter().cloned().filter(|&t| t < x[0]).collect();
    let right: Vec<f64> = [x[n - 1].next_up(), x[n - 1] + fr * range, x[n - 1] + range].iter().cloned().filter(|&t| t > x[n - 1]).collect();
    let (left, right) = if few { (left[..1.min(left.len())].to_vec(), right[..1.min(right.len())].to_vec()) } else { (left, right) };
    let fills = Mode::Fill(rng.normal() * 1e3 + 12345.0, rng.normal() * 1e3 - 54321.0);
    for checked in [true, false] {
        for m in [Mode::Panic, fills, Mode::Extrapolate] {
            let with_oor = m != Mode::Panic;
            // master list for this mode: (target, kind) kind 0 = in range, 1 = left, 2 = right
            let mut master: Vec<(f64, u8)> = inr.iter().chain(grid.iter()).map(|&t| (t, 0u8)).collect();
            if with_oor {
                master.extend(left.iter().map(|&t| (t, 1u8)));
                master.extend(right.iter().map(|&t| (t, 2u8)));
            }
            let ctx1 = |extra: Value| json!({"variant": vname(checked), "mode": m.js(), "x": jf(x), "y": jf(y), "n": n, "detail": extra});
            // (a) one target per call
            let sreg = format!("{}:{}:batch:single", vname(checked), m.name());
            let mut single: Vec<Option<f64>> = Vec::with_capacity(master.len());
            for &(t, _) in &master {
                rep.case(&sreg);
                match call(checked, x, y, &[t], m) {
                    Ok(v) if v.len() == 1 => {
                        judge(rep, &sreg, x, y, m, t, v[0], &ctx1);
                        single.push(Some(v[0]));
                    }
                    Ok(v) => {
                        rep.check("C16.output_len", &sreg, false, || ctx1(json!({"targets": 1, "returned": v.len()})));
                        single.push(None);
                    }
                    Err(msg) => {
                        rep.check("C16.in_range.no_panic", &sreg, false, || ctx1(json!({"target": t, "panic": msg})));
                        single.push(None);
                    }
                }
            }
            // (b)-(d) the same targets in one call, in several orders
            let mut asc: Vec<usize> = (0..master.len()).collect();
            asc.sort_by(|&a, &b| master[a].0.partial_cmp(&master[b].0).unwrap());
            for order in ORDERS {
                let idx: Vec<usize> = match order {
                    "shuffled" => {
                        let mut v: Vec<usize> = (0..master.len()).collect();
                        rng.shuffle(&mut v);
                        v
                    }
                    "alternating-range" => {
                        // out-of-range targets of both sides interleaved with in-range targets in random order
                        let mut ins: Vec<usize> = (0..master.len()).filter(|&i| master[i].1 == 0).collect();
                        let mut outs: Vec<usize> = (0..master.len()).filter(|&i| master[i].1 != 0).collect();
                        rng.shuffle(&mut ins);
                        rng.shuffle(&mut outs);
                        let mut v = Vec::with_capacity(master.len() + 8);
                        for (j, &i) in ins.iter().enumerate() {
                            if !outs.is_empty() {
                                v.push(outs[j % outs.len()]);
                            }
                            v.push(i);
                        }
                        v
                    }
                    "ascending-dense" => asc.clone(),
                    "ascending-sparse" => {
                        // a few targets far apart: whole segments lie between consecutive targets
                        let keep = rng.usize(2, 5);
                        let mut v: Vec<usize> = asc.iter().cloned().filter(|_| rng.chance(keep as f64 / asc.len() as f64)).collect();
                        if v.len() < 2 {
                            v = vec![asc[0], asc[asc.len() - 1]];
                        }
                        v
                    }
                    "ascending-coarse-grid" => {
                        // the regular grid alone (plus the outside targets at its ends)
                        let lo = inr.len();
                        asc.iter().cloned().filter(|&i| master[i].1 != 0 && rng.bool() || (i >= lo && i < lo + grid.len())).collect()
                    }
                    _ => asc.iter().rev().cloned().collect(),
                };
                if idx.is_empty() {
                    continue;
                }
                let ts: Vec<f64> = idx.iter().map(|&i| master[i].0).collect();
                let regime = format!("{}:{}:batch:{}", vname(checked), m.name(), order);
                rep.case(&regime);
                if ts.windows(2).any(|w| matches!((locate(x, w[0]), locate(x, w[1])), (Where::Knot(a) | Where::Interior(a), Where::Knot(b) | Where::Interior(b)) if b > a + 1)) && ts.windows(2).all(|w| w[0] <= w[1]) {
                    rep.seen("batch:ascending-skips-segment", 1);
                }
                if ts.windows(2).any(|w| w[0] > x[n - 1] && w[1] >= x[0] && w[1] <= x[n - 1]) {
                    rep.seen("batch:in-range-after-above", 1);
                }
                if ts.windows(2).any(|w| w[0] < x[0] && w[1] >= x[0] && w[1] <= x[n - 1]) {
                    rep.seen("batch:in-range-after-below", 1);
                }
                let ctx = |extra: Value| json!({"variant": vname(checked), "mode": m.js(), "order": order, "x": jf(x), "y": jf(y), "n": n, "targets": jf(&ts), "detail": extra});
                match call(checked, x, y, &ts, m) {
                    Err(msg) => {
                        rep.check("C16.batch.no_panic", &regime, false, || ctx(json!({"panic": msg})));
                    }
                    Ok(v) => {
                        rep.check("C16.batch.no_panic", &regime, true, || json!(null));
                        if !rep.check("C16.output_len", &regime, v.len() == ts.len(), || ctx(json!({"targets": ts.len(), "returned": v.len()}))) {
                            continue;
                        }
                        for (j, &i) in idx.iter().enumerate() {
                            judge(rep, &regime, x, y, m, ts[j], v[j], &ctx);
                            if let Some(sv) = single[i] {
                                rep.check("C16.batch.same_as_single", &regime, same_bits(v[j], sv), || ctx(json!({"position_in_call": j, "target": ts[j], "in_this_call": jnum(v[j]), "alone": jnum(sv)})));
                            }
                        }
                    }
                }
            }
        }
    }
}

pub fn run(cfg: &Cfg, rep: &mut Report) {
    rep.rule = "random knot sets: n in 2..200, strictly increasing abscissae (uniform / spacing ratios <= 1e2 / <= 1e6, scale 1e-3..1e3), ordinates gaussian / |y| in 1e-150..1e150 / flat runs with zeros / integers / offset 1e6; per set: in-range targets (knots incl. first and last, midpoints, knot+-1ulp, random interior) x 3 modes x 2 variants, then per side 4 out-of-range targets (1 ulp, fraction of range, 1x, 10x range) x 3 modes x 2 variants, then one unsorted and one length-mismatched call of the checked variant. one evaluation = one library call. non-trivial = n >= 3 and ordinates not all equal; distinct by bits of (x, y); batch family: per knot set a master list of targets (knots, random interior, knot+-1ulp, a coarse regular grid, both outsides) evaluated one per call and then in one call in six orders (shuffled, out-of-range alternating with in-range, ascending dense, ascending sparse, coarse grid, descending) x 3 modes x 2 variants (Panic mode with in-range targets only): every value must satisfy the oracle and equal the one-per-call value bit for bit".into();
    rep.assume("abscissae strictly increasing and finite, ordinates finite with |y| <= 1e150 (chords cannot overflow); ties in the abscissae are neither required to be accepted nor rejected");
    rep.assume("a knot ordinate of -0.0 may be returned as +0.0 (numerically equal)");
    rep.assume("fill values may be any f64 incl. inf/NaN and are compared bitwise (all NaNs identified)");
    rep.assume("the value at a target is a function of (x, y, mode, target) alone: results of a multi-target call are compared bit for bit with the results of one-target calls");
    rep.assume("the unchecked variant's behaviour on unsorted / mismatched input is not judged");
    let nsets = cfg.pick(1500, 40000, 3);
    par_cases(cfg, rep, 1, nsets, |_i, rng, rep| one_set(cfg, rng, rep));
    // hand-written minimal cases (the DESIGN probe): x = [0,1,2], y = [0,10,20]
    par_cases(cfg, rep, 2, 1, |_i, _rng, rep| {
        let (x, y) = ([0.0, 1.0, 2.0], [0.0, 10.0, 20.0]);
        for checked in [true, false] {
            let vreg = vname(checked);
            rep.case(&format!("{}:fill:right", vreg));
            let got = call(checked, &x, &y, &[3.0], Mode::Fill(-1.0, -2.0));
            rep.check("C16.fill.right", vreg, matches!(&got, Ok(v) if v.len() == 1 && same_bits(v[0], -2.0)), || json!({"x": jf(&x), "y": jf(&y), "target": 3.0, "mode": {"fill": [-1.0, -2.0]}, "observed": got.as_ref().map(|v| jf(v)).unwrap_or(json!("panic")), "expected": -2.0}));
            rep.case(&format!("{}:panic:right", vreg));
            let got = call(checked, &x, &y, &[3.0], Mode::Panic);
            rep.check("C16.panic_mode.right", vreg, got.is_err(), || json!({"x": jf(&x), "y": jf(&y), "target": 3.0, "mode": "panic", "observed": got.as_ref().map(|v| jf(v)).unwrap_or(json!("panic")), "expected": "panic"}));
            rep.case(&format!("{}:fill:left", vreg));
            let got = call(checked, &x, &y, &[-1.0], Mode::Fill(-1.0, -2.0));
            rep.check("C16.fill.left", vreg, matches!(&got, Ok(v) if v.len() == 1 && same_bits(v[0], -1.0)), || json!({"x": jf(&x), "y": jf(&y), "target": -1.0, "observed": got.as_ref().map(|v| jf(v)).unwrap_or(json!("panic")), "expected": -1.0}));
            // empty target list: empty result, no panic, in every mode
            for m in [Mode::Panic, Mode::Fill(1.0, 2.0), Mode::Extrapolate] {
                let regime = format!("{}:{}:in-range", vreg, m.name());
                rep.case(&regime);
                let got = call(checked, &x, &y, &[], m);
                rep.check("C16.output_len", &regime, matches!(&got, Ok(v) if v.is_empty()), || json!({"targets": [], "observed": got.as_ref().map(|v| jf(v)).unwrap_or(json!("panic"))}));
            }
        }
    });
    // multi-target calls against one-target-per-call results and the oracle
    let nb = cfg.pick(500, 8000, 1);
    par_cases(cfg, rep, 3, nb, |_i, rng, rep| batch_set(cfg, rng, rep));
    for v in ["checked", "unchecked"] {
        for m in ["panic", "fill", "extrapolate"] {
            rep.require(&format!("{}:{}:batch:single", v, m), 1);
            for o in ORDERS {
                rep.require(&format!("{}:{}:batch:{}", v, m, o), 1);
            }
        }
    }
    if !cfg.lite {
        for r in ["batch:ascending-skips-segment", "batch:in-range-after-above", "batch:in-range-after-below"] {
            rep.require(r, 1);
        }
    }
    for v in ["checked", "unchecked"] {
        for m in ["panic", "fill", "extrapolate"] {
            rep.require(&format!("{}:{}:in-range", v, m), 1);
            rep.require(&format!("{}:{}:left", v, m), 1);
            rep.require(&format!("{}:{}:right", v, m), 1);
        }
    }
    rep.require("checked:unsorted", 1);
    if !cfg.lite {
        for r in [
            "checked:unsorted:first-pair", "checked:unsorted:last-pair", "checked:unsorted:middle-pair", "checked:mismatch:y-longer", "checked:mismatch:y-shorter",
            "target:knot", "target:midpoint", "target:knot+1ulp", "target:knot-1ulp", "target:random-interior",
            "target:left:1ulp", "target:left:10x-range", "target:right:1ulp", "target:right:10x-range",
            "spacing:uniform", "spacing:ratio<=1e2", "spacing:ratio<=1e6", "knots:n=2", "knots:n=3..12", "knots:n=13..200",
            "y:gaussian", "y:wide-magnitude", "y:flat-runs", "y:integers", "y:offset",
        ] {
            rep.require(r, 1);
        }
    }
}
