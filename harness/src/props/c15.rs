//! C15 — shape operations and constructors preserve data and the matrix invariant (DESIGN §3 C15).
//!
//! Events: the state of a `Matrix` (public fields) after every structural operation of a random
//! program, every value such an operation returns, every panic; the output of every constructor;
//! the answer of every structural predicate and approximate-equality comparison.
//! Oracle: a `Vec<Vec<f64>>` row-major model run in lock-step (shape, every element bitwise, and
//! `nrows*ncols == data.len()` after every step; the model decides when a panic is required);
//! closed-form patterns for the constructors; definitions for predicates and comparisons.
//! Once the library has produced a wrong state the library matrix is rebuilt from the model, so
//! one defect never cascades into assertions about later, unrelated operations.
use crate::gen::Rng;
use crate::oracle::dd::Dd;
use crate::report::{guard, jf, jnum, par_cases, Cfg, Report};
use compute::linalg::{
    arange, col_to_row_major, design, diag, diag_matrix, is_design, is_matrix, is_square, is_symmetric, linspace, rotation_matrix_ccw, rotation_matrix_cw, row_to_col_major, toeplitz,
    transpose, vandermonde, Axis, Matrix, Vector,
};
use serde_json::{json, Value};

// ---------------------------------------------------------------------------------------------
// per-case tally (a `Report` map operation costs ~10 ms under Miri; counts are kept in a flat
// table keyed by the addresses of the literal assertion / regime names and flushed once per case)

fn same(a: &'static str, b: &'static str) -> bool {
    a.as_ptr() == b.as_ptr() && a.len() == b.len()
}

const SLOTS: usize = 1024;

fn slot_of(a: &'static str, b: &'static str) -> usize {
    ((a.as_ptr() as usize).wrapping_mul(31) ^ (b.as_ptr() as usize).wrapping_mul(17) ^ (b.len() << 3)) & (SLOTS - 1)
}

struct Tally {
    /// open-addressing tables keyed by the addresses of the literal names
    case_slots: Vec<u16>,
    check_slots: Vec<u16>,
    cases: Vec<(&'static str, u64)>,
    checks: Vec<(&'static str, &'static str, u64, u64, Option<Value>)>,
    worst: Vec<(&'static str, f64)>,
    distinct: Vec<(u64, bool)>,
    samples: Vec<Value>,
    lean: bool,
}
impl Tally {
    fn new(lean: bool) -> Self {
        Tally { case_slots: vec![u16::MAX; SLOTS], check_slots: vec![u16::MAX; SLOTS], cases: Vec::new(), checks: Vec::new(), worst: Vec::new(), distinct: Vec::new(), samples: Vec::new(), lean }
    }
    fn case(&mut self, regime: &'static str) {
        let mut s = slot_of(regime, regime);
        loop {
            let k = self.case_slots[s];
            if k == u16::MAX {
                self.case_slots[s] = self.cases.len() as u16;
                self.cases.push((regime, 1));
                return;
            }
            if same(self.cases[k as usize].0, regime) {
                self.cases[k as usize].1 += 1;
                return;
            }
            s = (s + 1) & (SLOTS - 1);
        }
    }
    fn check(&mut self, id: &'static str, regime: &'static str, ok: bool, detail: &dyn Fn() -> Value) -> bool {
        let mut s = slot_of(id, regime);
        let pos = loop {
            let k = self.check_slots[s];
            if k == u16::MAX {
                self.check_slots[s] = self.checks.len() as u16;
                self.checks.push((id, regime, 0, 0, None));
                break self.checks.len() - 1;
            }
            let c = &self.checks[k as usize];
            if same(c.0, id) && same(c.1, regime) {
                break k as usize;
            }
            s = (s + 1) & (SLOTS - 1);
        };
        let c = &mut self.checks[pos];
        c.2 += 1;
        if !ok {
            c.3 += 1;
            if c.4.is_none() {
                c.4 = Some(detail());
            }
        }
        ok
    }
    fn note_max(&mut self, key: &'static str, v: f64) {
        for w in self.worst.iter_mut() {
            if same(w.0, key) {
                if v > w.1 {
                    w.1 = v;
                }
                return;
            }
        }
        self.worst.push((key, v));
    }
    fn flush(self, rep: &mut Report) {
        for (regime, n) in self.cases {
            rep.evaluations += n;
            rep.seen(regime, n);
        }
        for (id, regime, checked, failed, first) in self.checks {
            let (mut dc, mut df) = (checked, failed);
            if failed > 0 {
                // one real `check` call creates / bumps the violation record with the replay detail
                let d = first.unwrap_or(Value::Null);
                rep.check(id, regime, false, || d);
                dc -= 1;
                df -= 1;
                if df > 0 {
                    if let Some(v) = rep.violations.get_mut(&format!("{}|{}", id, regime)) {
                        v.count += df;
                    }
                }
            }
            let st = rep.assert_stat(id);
            st.checked += dc;
            st.failed += df;
        }
        for (k, v) in self.worst {
            rep.note_max(k, v);
        }
        for (h, nt) in self.distinct {
            rep.distinct(h, nt);
        }
        for s in self.samples {
            rep.sample(|| s);
        }
    }
}

macro_rules! id {
    ($op:literal, $aspect:literal) => {
        concat!("C15.", $op, ".", $aspect)
    };
}

fn bits_eq(a: &[f64], b: &[f64]) -> bool {
    a.len() == b.len() && a.iter().zip(b).all(|(x, y)| x.to_bits() == y.to_bits())
}

// ---------------------------------------------------------------------------------------------
// the reference model: rows of a row-major matrix, r >= 1, c >= 1

type Model = Vec<Vec<f64>>;

fn flat(m: &Model) -> Vec<f64> {
    m.iter().flat_map(|r| r.iter().copied()).collect()
}
fn unflat(d: &[f64], r: usize, c: usize) -> Model {
    assert_eq!(d.len(), r * c);
    (0..r).map(|i| d[i * c..(i + 1) * c].to_vec()).collect()
}
fn mt(m: &Model) -> Model {
    let (r, c) = (m.len(), m[0].len());
    (0..c).map(|j| (0..r).map(|i| m[i][j]).collect()).collect()
}
fn fresh(r: usize, c: usize, next: &mut f64) -> Model {
    (0..r)
        .map(|_| {
            (0..c)
                .map(|_| {
                    *next += 1.0;
                    *next + 0.25
                })
                .collect()
        })
        .collect()
}
fn build(m: &Model) -> Matrix {
    Matrix::new(flat(m), m.len() as i32, m[0].len() as i32)
}
fn state_ok(lib: &Matrix, m: &Model) -> bool {
    let (r, c) = (m.len(), m[0].len());
    if lib.nrows != r || lib.ncols != c || lib.data.len() != r * c {
        return false;
    }
    let mut k = 0;
    for row in m {
        for &x in row {
            if lib.data[k].to_bits() != x.to_bits() {
                return false;
            }
            k += 1;
        }
    }
    true
}
fn jmodel(m: &Model) -> Value {
    json!({"shape": [m.len(), m[0].len()], "data": jf(&flat(m))})
}
fn jlib(l: &Matrix) -> Value {
    json!({"nrows": l.nrows, "ncols": l.ncols, "data_len": l.data.len(), "data": jf(&l.data)})
}

/// What a step did, for the program hash and the non-triviality rule.
struct StepInfo {
    code: u64,
    shape_changing: bool,
}

/// A value-returning operation whose result becomes the current matrix. `new_model` is the
/// expected state. On any anomaly the library matrix is rebuilt from the model.
fn adopt(t: &mut Tally, ids: [&'static str; 2], regime: &'static str, got: Result<Matrix, String>, lib: &mut Matrix, before: &Model, new_model: &Model, what: &dyn Fn() -> Value) {
    match got {
        Err(msg) => {
            t.check(ids[0], regime, false, &|| json!({"op": what(), "before": jmodel(before), "observed": {"panic": msg}, "expected": jmodel(new_model)}));
            *lib = build(new_model);
        }
        Ok(m) => {
            t.check(ids[0], regime, true, &|| Value::Null);
            let inv = m.nrows * m.ncols == m.data.len();
            t.check("C15.invariant", regime, inv, &|| json!({"op": what(), "before": jmodel(before), "observed": jlib(&m)}));
            let ok = state_ok(&m, new_model);
            t.check(ids[1], regime, ok, &|| json!({"op": what(), "before": jmodel(before), "observed": jlib(&m), "expected": jmodel(new_model)}));
            *lib = if ok { m } else { build(new_model) };
        }
    }
}

/// An in-place operation already executed on `lib` inside `guard`.
fn after_mut(t: &mut Tally, ids: [&'static str; 2], regime: &'static str, got: Result<(), String>, lib: &mut Matrix, before: &Model, new_model: &Model, what: &dyn Fn() -> Value) {
    match got {
        Err(msg) => {
            t.check(ids[0], regime, false, &|| json!({"op": what(), "before": jmodel(before), "observed": {"panic": msg}, "expected": jmodel(new_model)}));
            *lib = build(new_model);
        }
        Ok(()) => {
            t.check(ids[0], regime, true, &|| Value::Null);
            let inv = lib.nrows * lib.ncols == lib.data.len();
            t.check("C15.invariant", regime, inv, &|| json!({"op": what(), "before": jmodel(before), "observed": jlib(lib)}));
            let ok = state_ok(lib, new_model);
            t.check(ids[1], regime, ok, &|| json!({"op": what(), "before": jmodel(before), "observed": jlib(lib), "expected": jmodel(new_model)}));
            if !ok {
                *lib = build(new_model);
            }
        }
    }
}

/// An operation the model declares impossible: it must panic. A rejected operation is a step of the
/// program like any other: the model is unchanged by it, so the object that survives the panic must
/// still equal the model (`C15.rejected.state_unchanged`, `C15.rejected.invariant`) and the program
/// goes on with that very object. Only when the library accepted the impossible shape (it then leaves a
/// corrupt header behind) or when the surviving object is wrong is the library matrix rebuilt from the model.
fn must_reject(t: &mut Tally, id: &'static str, regime: &'static str, observed: Result<Value, String>, lib: &mut Matrix, model: &Model, what: &dyn Fn() -> Value) {
    let rejected = observed.is_err();
    t.check(id, regime, rejected, &|| json!({"op": what(), "before": jmodel(model), "observed": observed.as_ref().ok(), "expected": "panic"}));
    if !rejected {
        *lib = build(model);
        return;
    }
    survives_rejection(t, regime, lib, model, what);
}

/// The state of `lib` after a call that panicked, against the (unchanged) model.
fn survives_rejection(t: &mut Tally, regime: &'static str, lib: &mut Matrix, model: &Model, what: &dyn Fn() -> Value) {
    let inv = lib.nrows * lib.ncols == lib.data.len();
    t.check("C15.rejected.invariant", regime, inv, &|| json!({"op": what(), "outcome": "panic (as required)", "before": jmodel(model), "object_after_the_rejected_call": jlib(lib)}));
    let ok = state_ok(lib, model);
    t.check("C15.rejected.state_unchanged", regime, ok, &|| json!({"op": what(), "outcome": "panic (as required)", "before": jmodel(model), "object_after_the_rejected_call": jlib(lib), "expected": jmodel(model)}));
    if !ok {
        *lib = build(model);
    }
}

/// A query that returns a flat value.
fn query(t: &mut Tally, ids: [&'static str; 2], regime: &'static str, got: Result<Vec<f64>, String>, expect: &[f64], model: &Model, what: &dyn Fn() -> Value) {
    match got {
        Err(msg) => {
            t.check(ids[0], regime, false, &|| json!({"op": what(), "matrix": jmodel(model), "observed": {"panic": msg}, "expected": jf(expect)}));
        }
        Ok(v) => {
            t.check(ids[0], regime, true, &|| Value::Null);
            t.check(ids[1], regime, bits_eq(&v, expect), &|| json!({"op": what(), "matrix": jmodel(model), "observed": jf(&v), "expected": jf(expect)}));
        }
    }
}

/// Pick (nrows, ncols) arguments for a reshape of `size` elements.
/// class 0 = explicit valid, 1 = inferred dividing, 2 = inferred non-dividing, 3 = explicit mismatch, 4 = invalid arguments
fn reshape_args(rng: &mut Rng, size: usize, class: usize) -> Option<(i32, i32)> {
    let divisors: Vec<usize> = (1..=size).filter(|d| size % d == 0).collect();
    let nondiv: Vec<usize> = (2..=size + 2).filter(|d| size % d != 0).collect();
    match class {
        0 => {
            let d = *rng.choose(&divisors);
            Some((d as i32, (size / d) as i32))
        }
        1 => {
            let d = *rng.choose(&divisors) as i32;
            Some(if rng.bool() { (-1, d) } else { (d, -1) })
        }
        2 => {
            let d = *rng.choose(&nondiv) as i32;
            Some(if rng.bool() { (-1, d) } else { (d, -1) })
        }
        3 => {
            let (a, b) = (rng.usize(1, 9), rng.usize(1, 9));
            if a * b == size {
                Some((a as i32, b as i32 + 1))
            } else {
                Some((a as i32, b as i32))
            }
        }
        _ => Some(*rng.choose(&[(0, 3), (3, 0), (0, 0), (-1, -1), (-2, 2), (2, -2), (-1, 0), (0, -1), (-3, -1)])),
    }
}

const GROW_MAX: usize = 8;

/// One random structural operation applied to the library matrix and the model in lock-step.
fn step(t: &mut Tally, rng: &mut Rng, lib: &mut Matrix, model: &mut Model, next: &mut f64) -> StepInfo {
    let (r, c) = (model.len(), model[0].len());
    let size = r * c;
    let kind = rng.usize(0, 29);
    let oob = rng.chance(0.15);
    macro_rules! done {
        ($code:expr, $sc:expr) => {
            return StepInfo { code: $code as u64, shape_changing: $sc }
        };
    }
    match kind {
        0 => {
            let regime = "t";
            t.case(regime);
            let nm = mt(model);
            let got = guard(|| lib.t());
            adopt(t, [id!("t", "no_panic"), id!("t", "state")], regime, got, lib, &*model, &nm, &|| json!("t()"));
            *model = nm;
            done!(0, r != c);
        }
        1 => {
            let regime = "t_mut";
            t.case(regime);
            let nm = mt(model);
            let got = guard(|| {
                lib.t_mut();
            });
            after_mut(t, [id!("t_mut", "no_panic"), id!("t_mut", "state")], regime, got, lib, &*model, &nm, &|| json!("t_mut()"));
            *model = nm;
            done!(1, r != c);
        }
        2 | 3 | 6 => {
            // reshape (value-returning)
            let class = match kind {
                2 => 0,
                3 => {
                    if rng.chance(0.25) {
                        2
                    } else {
                        1
                    }
                }
                _ => 3 + rng.usize(0, 1),
            };
            let (a, b) = reshape_args(rng, size, class).unwrap();
            let what = || json!(format!("reshape({}, {})", a, b));
            match class {
                0 | 1 => {
                    let regime = if class == 0 { "reshape:explicit" } else { "reshape:infer-dividing" };
                    t.case(regime);
                    let (nr, nc) = if a == -1 { (size / b as usize, b as usize) } else if b == -1 { (a as usize, size / a as usize) } else { (a as usize, b as usize) };
                    let nm = unflat(&flat(model), nr, nc);
                    let got = guard(|| lib.reshape(a, b));
                    adopt(t, [id!("reshape", "no_panic"), id!("reshape", "state")], regime, got, lib, &*model, &nm, &what);
                    *model = nm;
                    done!(10 + class, (nr, nc) != (r, c));
                }
                _ => {
                    let regime = match class {
                        2 => "reshape:infer-nondividing",
                        3 => "reshape:explicit-mismatch",
                        _ => "reshape:invalid-args",
                    };
                    t.case(regime);
                    let got = guard(|| jlib(&lib.reshape(a, b)));
                    must_reject(t, id!("reshape", "rejects"), regime, got, lib, model, &what);
                    done!(10 + class, false);
                }
            }
        }
        4 | 5 | 7 => {
            // reshape_mut
            let class = match kind {
                4 => 0,
                5 => {
                    if rng.chance(0.25) {
                        2
                    } else {
                        1
                    }
                }
                _ => 3 + rng.usize(0, 1),
            };
            let (a, b) = reshape_args(rng, size, class).unwrap();
            let what = || json!(format!("reshape_mut({}, {})", a, b));
            match class {
                0 | 1 => {
                    let regime = if class == 0 { "reshape_mut:explicit" } else { "reshape_mut:infer-dividing" };
                    t.case(regime);
                    let (nr, nc) = if a == -1 { (size / b as usize, b as usize) } else if b == -1 { (a as usize, size / a as usize) } else { (a as usize, b as usize) };
                    let nm = unflat(&flat(model), nr, nc);
                    let got = guard(|| {
                        lib.reshape_mut(a, b);
                    });
                    after_mut(t, [id!("reshape_mut", "no_panic"), id!("reshape_mut", "state")], regime, got, lib, &*model, &nm, &what);
                    *model = nm;
                    done!(20 + class, (nr, nc) != (r, c));
                }
                _ => {
                    let regime = match class {
                        2 => "reshape_mut:infer-nondividing",
                        3 => "reshape_mut:explicit-mismatch",
                        _ => "reshape_mut:invalid-args",
                    };
                    t.case(regime);
                    let got = guard(|| {
                        lib.reshape_mut(a, b);
                        jlib(lib)
                    });
                    must_reject(t, id!("reshape_mut", "rejects"), regime, got, lib, model, &what);
                    done!(20 + class, false);
                }
            }
        }
        8 | 9 => {
            // hcat / vcat
            let h = kind == 8;
            let mismatch = oob;
            let (or, oc) = if h {
                let oc = rng.usize(1, 3);
                (if mismatch { r + rng.usize(1, 2) } else { r }, oc)
            } else {
                let or = rng.usize(1, 3);
                (or, if mismatch { c + rng.usize(1, 2) } else { c })
            };
            if !mismatch && ((h && c + oc > GROW_MAX) || (!h && r + or > GROW_MAX)) {
                // would leave the 1..8 range: fall back to a transposition
                let regime = "t";
                t.case(regime);
                let nm = mt(model);
                let got = guard(|| lib.t());
                adopt(t, [id!("t", "no_panic"), id!("t", "state")], regime, got, lib, &*model, &nm, &|| json!("t()"));
                *model = nm;
                done!(0, r != c);
            }
            let other = fresh(or, oc, next);
            let olib = build(&other);
            let what = || json!({"call": if h { "hcat(other)" } else { "vcat(other)" }, "other": jmodel(&other)});
            if mismatch {
                let regime = if h { "hcat:mismatched" } else { "vcat:mismatched" };
                t.case(regime);
                let got = guard(|| jlib(&if h { lib.hcat(olib) } else { lib.vcat(olib) }));
                must_reject(t, if h { id!("hcat", "rejects") } else { id!("vcat", "rejects") }, regime, got, lib, model, &what);
                done!(30 + kind, false);
            }
            let regime = if h { "hcat:matching" } else { "vcat:matching" };
            t.case(regime);
            let nm: Model = if h {
                (0..r).map(|i| model[i].iter().chain(other[i].iter()).copied().collect()).collect()
            } else {
                model.iter().chain(other.iter()).cloned().collect()
            };
            let got = guard(|| if h { lib.hcat(olib) } else { lib.vcat(olib) });
            let ids = if h { [id!("hcat", "no_panic"), id!("hcat", "state")] } else { [id!("vcat", "no_panic"), id!("vcat", "state")] };
            adopt(t, ids, regime, got, lib, &*model, &nm, &what);
            *model = nm;
            done!(30 + kind, true);
        }
        10 | 11 => {
            let h = kind == 10;
            let mut n = rng.usize(1, 3);
            while n > 1 && ((h && c * n > GROW_MAX) || (!h && r * n > GROW_MAX)) {
                n -= 1;
            }
            let regime = if h { "hrepeat" } else { "vrepeat" };
            t.case(regime);
            let nm: Model = if h {
                model.iter().map(|row| (0..n).flat_map(|_| row.iter().copied()).collect()).collect()
            } else {
                (0..n).flat_map(|_| model.iter().cloned()).collect()
            };
            let got = guard(|| if h { lib.hrepeat(n) } else { lib.vrepeat(n) });
            let ids = if h { [id!("hrepeat", "no_panic"), id!("hrepeat", "state")] } else { [id!("vrepeat", "no_panic"), id!("vrepeat", "state")] };
            adopt(t, ids, regime, got, lib, &*model, &nm, &|| json!(format!("{}({})", regime, n)));
            *model = nm;
            done!(40 + kind, n > 1);
        }
        12 | 13 => {
            let row = kind == 12;
            let dim = if row { r } else { c };
            let i = if oob { dim + rng.usize(0, 2) } else { rng.usize(0, dim - 1) };
            let what = || json!(format!("{}({})", if row { "get_row_as_vector" } else { "get_col_as_vector" }, i));
            if oob {
                let regime = if row { "get_row:out-of-range" } else { "get_col:out-of-range" };
                t.case(regime);
                let got = guard(|| jf(&if row { lib.get_row_as_vector(i) } else { lib.get_col_as_vector(i) }));
                must_reject(t, if row { id!("get_row", "rejects") } else { id!("get_col", "rejects") }, regime, got, lib, model, &what);
            } else {
                let regime = if row { "get_row:in-range" } else { "get_col:in-range" };
                t.case(regime);
                let exp: Vec<f64> = if row { model[i].clone() } else { model.iter().map(|rw| rw[i]).collect() };
                let got = guard(|| if row { lib.get_row_as_vector(i).v } else { lib.get_col_as_vector(i).v });
                let ids = if row { [id!("get_row", "no_panic"), id!("get_row", "result")] } else { [id!("get_col", "no_panic"), id!("get_col", "result")] };
                query(t, ids, regime, got, &exp, model, &what);
            }
            done!(50 + kind, false);
        }
        14 | 15 => {
            let row = kind == 14;
            let dim = if row { r } else { c };
            let i = if oob { dim + rng.usize(0, 2) } else { rng.usize(0, dim - 1) };
            let neg = rng.bool();
            let f = move |x: f64| if neg { -x } else { x + 4096.0 };
            let what = || json!(format!("{}({}, {})", if row { "apply_along_row" } else { "apply_along_col" }, i, if neg { "|x| -x" } else { "|x| x + 4096" }));
            if oob {
                let regime = if row { "apply_row:out-of-range" } else { "apply_col:out-of-range" };
                t.case(regime);
                let got = guard(|| {
                    if row {
                        lib.apply_along_row(i, f)
                    } else {
                        lib.apply_along_col(i, f)
                    }
                    jlib(lib)
                });
                must_reject(t, if row { id!("apply_row", "rejects") } else { id!("apply_col", "rejects") }, regime, got, lib, model, &what);
            } else {
                let regime = if row { "apply_row:in-range" } else { "apply_col:in-range" };
                t.case(regime);
                let mut nm = model.clone();
                if row {
                    nm[i].iter_mut().for_each(|x| *x = f(*x));
                } else {
                    nm.iter_mut().for_each(|rw| rw[i] = f(rw[i]));
                }
                let got = guard(|| {
                    if row {
                        lib.apply_along_row(i, f)
                    } else {
                        lib.apply_along_col(i, f)
                    }
                });
                let ids = if row { [id!("apply_row", "no_panic"), id!("apply_row", "state")] } else { [id!("apply_col", "no_panic"), id!("apply_col", "state")] };
                after_mut(t, ids, regime, got, lib, &*model, &nm, &what);
                *model = nm;
            }
            done!(60 + kind, false);
        }
        16 | 17 => {
            let write = kind == 17;
            let k = if oob { size + rng.usize(0, 2) } else { rng.usize(0, size - 1) };
            *next += 1.0;
            let val = *next + 0.5;
            let what = || json!(if write { format!("flat_idx_replace({}, {})", k, val) } else { format!("flat_idx({})", k) });
            if oob {
                let regime = if write { "flat_idx_replace:out-of-range" } else { "flat_idx:out-of-range" };
                t.case(regime);
                let got = guard(|| {
                    if write {
                        lib.flat_idx_replace(k, val);
                        jlib(lib)
                    } else {
                        jnum(lib.flat_idx(k))
                    }
                });
                must_reject(t, if write { id!("flat_idx_replace", "rejects") } else { id!("flat_idx", "rejects") }, regime, got, lib, model, &what);
            } else if write {
                let regime = "flat_idx_replace:in-range";
                t.case(regime);
                let mut nm = model.clone();
                nm[k / c][k % c] = val;
                let got = guard(|| {
                    lib.flat_idx_replace(k, val);
                });
                after_mut(t, [id!("flat_idx_replace", "no_panic"), id!("flat_idx_replace", "state")], regime, got, lib, &*model, &nm, &what);
                *model = nm;
            } else {
                let regime = "flat_idx:in-range";
                t.case(regime);
                let got = guard(|| vec![lib.flat_idx(k)]);
                query(t, [id!("flat_idx", "no_panic"), id!("flat_idx", "result")], regime, got, &[model[k / c][k % c]], model, &what);
            }
            done!(70 + kind, false);
        }
        18 | 19 => {
            // 2-D indexing m[[i, j]]
            let write = kind == 19;
            let (i, j) = if oob {
                if rng.bool() {
                    (r + rng.usize(0, 1), rng.usize(0, c - 1))
                } else {
                    (rng.usize(0, r - 1), c + rng.usize(0, 1))
                }
            } else {
                (rng.usize(0, r - 1), rng.usize(0, c - 1))
            };
            *next += 1.0;
            let val = *next + 0.5;
            let what = || json!(if write { format!("m[[{}, {}]] = {}", i, j, val) } else { format!("m[[{}, {}]]", i, j) });
            if oob {
                let regime = if write { "index2_write:out-of-range" } else { "index2:out-of-range" };
                t.case(regime);
                let got = guard(|| {
                    if write {
                        lib[[i, j]] = val;
                        jlib(lib)
                    } else {
                        jnum(lib[[i, j]])
                    }
                });
                must_reject(t, if write { id!("index2_write", "rejects") } else { id!("index2", "rejects") }, regime, got, lib, model, &what);
            } else if write {
                let regime = "index2_write:in-range";
                t.case(regime);
                let mut nm = model.clone();
                nm[i][j] = val;
                let got = guard(|| {
                    lib[[i, j]] = val;
                });
                after_mut(t, [id!("index2_write", "no_panic"), id!("index2_write", "state")], regime, got, lib, &*model, &nm, &what);
                *model = nm;
            } else {
                let regime = "index2:in-range";
                t.case(regime);
                let got = guard(|| vec![lib[[i, j]]]);
                query(t, [id!("index2", "no_panic"), id!("index2", "result")], regime, got, &[model[i][j]], model, &what);
            }
            done!(80 + kind, false);
        }
        20 | 21 => {
            // row indexing m[i] (slice) and m[i][j] = v
            let write = kind == 21;
            let i = if oob { r + rng.usize(0, 2) } else { rng.usize(0, r - 1) };
            let j = rng.usize(0, c - 1);
            *next += 1.0;
            let val = *next + 0.5;
            let what = || json!(if write { format!("m[{}][{}] = {}", i, j, val) } else { format!("m[{}]", i) });
            if oob {
                let regime = if write { "row_index_write:out-of-range" } else { "row_index:out-of-range" };
                t.case(regime);
                let got = guard(|| {
                    if write {
                        lib[i][j] = val;
                        jlib(lib)
                    } else {
                        jf(&lib[i])
                    }
                });
                must_reject(t, if write { id!("row_index_write", "rejects") } else { id!("row_index", "rejects") }, regime, got, lib, model, &what);
            } else if write {
                let regime = "row_index_write:in-range";
                t.case(regime);
                let mut nm = model.clone();
                nm[i][j] = val;
                let got = guard(|| {
                    lib[i][j] = val;
                });
                after_mut(t, [id!("row_index_write", "no_panic"), id!("row_index_write", "state")], regime, got, lib, &*model, &nm, &what);
                *model = nm;
            } else {
                let regime = "row_index:in-range";
                t.case(regime);
                let got = guard(|| lib[i].to_vec());
                query(t, [id!("row_index", "no_panic"), id!("row_index", "result")], regime, got, &model[i], model, &what);
            }
            done!(90 + kind, false);
        }
        22 => {
            // diagonal extraction: the stride is derived from min(nrows, ncols), so the three
            // aspect classes are separate regimes
            let regime = if r == c {
                "diag:square"
            } else if r > c {
                "diag:tall"
            } else {
                "diag:wide"
            };
            t.case(regime);
            let exp: Vec<f64> = (0..r.min(c)).map(|i| model[i][i]).collect();
            let got = guard(|| lib.diag().v);
            query(t, [id!("diag", "no_panic"), id!("diag", "result")], regime, got, &exp, model, &|| json!("diag()"));
            done!(122, false);
        }
        23 => {
            // Matrix -> Vector -> Matrix (1 x len)
            let regime = "to_vec.to_matrix";
            t.case(regime);
            let nm = unflat(&flat(model), 1, size);
            let got = guard(|| lib.clone().to_vec().to_matrix());
            adopt(t, [id!("to_vec_to_matrix", "no_panic"), id!("to_vec_to_matrix", "state")], regime, got, lib, &*model, &nm, &|| json!("clone().to_vec().to_matrix()"));
            *model = nm;
            done!(123, r != 1);
        }
        24 | 29 => {
            // Vector::reshape / Matrix::new on the flat data (both go through Matrix::new)
            let via_vec = kind == 24;
            let class = match rng.usize(0, 9) {
                0..=3 => 0,
                4..=6 => 1,
                7 => 2,
                8 => 3,
                _ => 4,
            };
            let (a, b) = reshape_args(rng, size, class).unwrap();
            let what = || json!(if via_vec { format!("to_vec().reshape({}, {})", a, b) } else { format!("Matrix::new(data, {}, {})", a, b) });
            let data = flat(model);
            match class {
                0 | 1 => {
                    let regime = match (via_vec, class) {
                        (true, 0) => "vec_reshape:explicit",
                        (true, _) => "vec_reshape:infer-dividing",
                        (false, 0) => "new:explicit",
                        (false, _) => "new:infer-dividing",
                    };
                    t.case(regime);
                    let (nr, nc) = if a == -1 { (size / b as usize, b as usize) } else if b == -1 { (a as usize, size / a as usize) } else { (a as usize, b as usize) };
                    let nm = unflat(&data, nr, nc);
                    let got = guard(|| if via_vec { lib.clone().to_vec().reshape(a, b) } else { Matrix::new(data.clone(), a, b) });
                    let ids = if via_vec { [id!("vec_reshape", "no_panic"), id!("vec_reshape", "state")] } else { [id!("new", "no_panic"), id!("new", "state")] };
                    adopt(t, ids, regime, got, lib, &*model, &nm, &what);
                    *model = nm;
                    done!(130 + class + 5 * via_vec as usize, (nr, nc) != (r, c));
                }
                _ => {
                    let regime = match (via_vec, class) {
                        (true, 2) => "vec_reshape:infer-nondividing",
                        (true, 3) => "vec_reshape:explicit-mismatch",
                        (true, _) => "vec_reshape:invalid-args",
                        (false, 2) => "new:infer-nondividing",
                        (false, 3) => "new:explicit-mismatch",
                        (false, _) => "new:invalid-args",
                    };
                    t.case(regime);
                    let got = guard(|| jlib(&if via_vec { lib.clone().to_vec().reshape(a, b) } else { Matrix::new(data.clone(), a, b) }));
                    must_reject(t, if via_vec { id!("vec_reshape", "rejects") } else { id!("new", "rejects") }, regime, got, lib, model, &what);
                    done!(130 + class + 5 * via_vec as usize, false);
                }
            }
        }
        25 | 26 => {
            // layout conversion: the column-major image of an r x c matrix, read row-major as c x r, is its transpose
            let to_col = kind == 25;
            let regime = if to_col { "row_to_col_major" } else { "col_to_row_major" };
            t.case(regime);
            let nm = mt(model);
            let got = guard(|| {
                let d: Vec<f64> = if to_col { row_to_col_major(&lib.data, r).v } else { col_to_row_major(&lib.data, c) };
                Matrix::new(d, c as i32, r as i32)
            });
            let ids = if to_col { [id!("row_to_col_major", "no_panic"), id!("row_to_col_major", "state")] } else { [id!("col_to_row_major", "no_panic"), id!("col_to_row_major", "state")] };
            adopt(t, ids, regime, got, lib, &*model, &nm, &|| json!(if to_col { "Matrix::new(row_to_col_major(data, nrows), ncols, nrows)" } else { "Matrix::new(col_to_row_major(data, ncols), ncols, nrows)" }));
            *model = nm;
            done!(140 + kind, r != c);
        }
        27 => {
            // accessors: shape, size, is_square, data(), row iteration, clone, ==
            let regime = "accessors";
            t.case(regime);
            let got = guard(|| {
                let mut v = vec![lib.shape()[0] as f64, lib.shape()[1] as f64, lib.size() as f64, lib.is_square() as u8 as f64, lib.data().len() as f64];
                let mut nrows_iter = 0;
                for row in &*lib {
                    v.push(row.len() as f64);
                    v.extend_from_slice(row);
                    nrows_iter += 1;
                }
                v.push(nrows_iter as f64);
                let cl = lib.clone();
                v.push((cl == *lib) as u8 as f64);
                v.extend_from_slice(&cl.data);
                v
            });
            let mut exp = vec![r as f64, c as f64, size as f64, (r == c) as u8 as f64, size as f64];
            for row in model.iter() {
                exp.push(c as f64);
                exp.extend_from_slice(row);
            }
            exp.push(r as f64);
            exp.push(1.0);
            exp.extend(flat(model));
            query(t, [id!("accessors", "no_panic"), id!("accessors", "result")], regime, got, &exp, model, &|| json!("[shape, size, is_square, data().len, rows of `for row in &m` with their lengths, row count, clone()==m, clone().data]"));
            done!(127, false);
        }
        _ => {
            // slice-level transpose
            let regime = "transpose(slice)";
            t.case(regime);
            let exp = flat(&mt(model));
            let got = guard(|| transpose(&lib.data, r));
            query(t, [id!("transpose_slice", "no_panic"), id!("transpose_slice", "result")], regime, got, &exp, model, &|| json!("transpose(&data, nrows)"));
            done!(128, false);
        }
    }
}

/// One random program of `len` operations.
fn program(t: &mut Tally, rng: &mut Rng, len: usize) {
    let (r, c) = (rng.usize(1, 8), rng.usize(1, 8));
    let mut next = rng.usize(0, 50) as f64 * 64.0;
    let mut model = fresh(r, c, &mut next);
    let mut lib = build(&model);
    let mut h = 0xcbf29ce484222325u64 ^ ((r * 16 + c) as u64);
    let mut changes = 0;
    for _ in 0..len {
        let info = step(t, rng, &mut lib, &mut model, &mut next);
        h = (h ^ info.code).wrapping_mul(0x100000001b3);
        h = (h ^ (model.len() * 131 + model[0].len()) as u64).wrapping_mul(0x100000001b3);
        changes += info.shape_changing as usize;
    }
    t.case("program");
    t.distinct.push((h, changes >= 3));
    if t.samples.is_empty() && !t.lean {
        t.samples.push(json!({"program_len": len, "start_shape": [r, c], "end_shape": [model.len(), model[0].len()], "shape_changing_ops": changes}));
    }
}

// ---------------------------------------------------------------------------------------------
// constructors

/// Compare a constructor's flat output (and shape, where it has one) with its defining pattern.
fn pattern(t: &mut Tally, ids: [&'static str; 2], regime: &'static str, got: Result<(Option<[usize; 2]>, Vec<f64>), String>, shape: Option<[usize; 2]>, exp: &[f64], what: &dyn Fn() -> Value) {
    match got {
        Err(msg) => {
            t.check(ids[0], regime, false, &|| json!({"call": what(), "observed": {"panic": msg}, "expected": {"shape": shape, "data": jf(exp)}}));
        }
        Ok((s, v)) => {
            t.check(ids[0], regime, true, &|| Value::Null);
            let ok = s == shape && bits_eq(&v, exp);
            t.check(ids[1], regime, ok, &|| json!({"call": what(), "observed": {"shape": s, "len": v.len(), "data": jf(&v)}, "expected": {"shape": shape, "data": jf(exp)}}));
        }
    }
}

fn distinct_values(rng: &mut Rng, n: usize) -> Vec<f64> {
    let base = rng.usize(1, 40) as f64;
    (0..n).map(|i| (base + i as f64 + 0.375) * if (i + base as usize) % 3 == 0 { -1.0 } else { 1.0 }).collect()
}

fn axis(k: usize) -> Axis {
    match k {
        0 => Axis::X,
        1 => Axis::Y,
        _ => Axis::Z,
    }
}

/// 3x3 product in double-double, rounded once.
fn mul3(a: &[f64], b: &[f64]) -> Vec<f64> {
    let mut c = vec![0.0; 9];
    for i in 0..3 {
        for j in 0..3 {
            let mut s = Dd::ZERO;
            for k in 0..3 {
                s = s + Dd::prod(a[i * 3 + k], b[k * 3 + j]);
            }
            c[i * 3 + j] = s.f();
        }
    }
    c
}
fn t3(a: &[f64]) -> Vec<f64> {
    (0..9).map(|k| a[(k % 3) * 3 + k / 3]).collect()
}
fn det3(a: &[f64]) -> f64 {
    let m = |i: usize, j: usize, k: usize, l: usize| Dd::prod(a[i], a[j]) - Dd::prod(a[k], a[l]);
    (m(4, 8, 5, 7) * a[0] - m(3, 8, 5, 6) * a[1] + m(3, 7, 4, 6) * a[2]).f()
}
fn dist_identity(a: &[f64]) -> f64 {
    (0..9).map(|k| (a[k] - if k % 4 == 0 { 1.0 } else { 0.0 }).abs()).fold(0.0, f64::max)
}

// DESIGN quotes 4 eps; the worst value seen on the unchanged tree is exactly 1 eps (one ulp of 1.0), so 16 eps
// gives the 10x headroom rule 1 asks for while a wrong sign or a swapped sin/cos is off by O(sin theta).
const ROT_TOL: f64 = 16.0 * f64::EPSILON;

fn constructors(t: &mut Tally, rng: &mut Rng, maxn: usize) {
    let n = rng.usize(1, maxn);
    let (r, c) = (rng.usize(1, maxn), rng.usize(1, maxn));

    // identity, zeros, ones
    t.case("eye");
    let exp: Vec<f64> = (0..n * n).map(|k| if k / n == k % n { 1.0 } else { 0.0 }).collect();
    let got = guard(|| {
        let m = Matrix::eye(n);
        (Some([m.nrows, m.ncols]), m.data.v)
    });
    pattern(t, [id!("eye", "no_panic"), id!("eye", "pattern")], "eye", got, Some([n, n]), &exp, &|| json!(format!("Matrix::eye({})", n)));
    for one in [false, true] {
        let regime = if one { "ones" } else { "zeros" };
        t.case(regime);
        let got = guard(|| {
            let m = if one { Matrix::ones(r, c) } else { Matrix::zeros(r, c) };
            (Some([m.nrows, m.ncols]), m.data.v)
        });
        let ids = if one { [id!("ones", "no_panic"), id!("ones", "pattern")] } else { [id!("zeros", "no_panic"), id!("zeros", "pattern")] };
        pattern(t, ids, regime, got, Some([r, c]), &vec![if one { 1.0 } else { 0.0 }; r * c], &|| json!(format!("Matrix::{}({}, {})", regime, r, c)));
    }

    // garbage-by-contract buffers: only the header is inspected, the contents are never read
    t.case("with_shape");
    let got = guard(|| {
        let m = Matrix::with_shape(r, c);
        [m.nrows, m.ncols, m.data.len()]
    });
    t.check(id!("with_shape", "header"), "with_shape", got == Ok([r, c, r * c]), &|| json!({"call": format!("Matrix::with_shape({}, {})", r, c), "observed_nrows_ncols_len": format!("{:?}", got)}));
    t.case("empty_n");
    let got = guard(|| Vector::empty_n(n).len());
    t.check(id!("empty_n", "len"), "empty_n", got == Ok(n), &|| json!({"call": format!("Vector::empty_n({})", n), "observed_len": format!("{:?}", got)}));

    // diagonal matrix and diagonal of a square slice
    let a = distinct_values(rng, n);
    t.case("diag_matrix");
    let exp: Vec<f64> = (0..n * n).map(|k| if k / n == k % n { a[k / n] } else { 0.0 }).collect();
    let got = guard(|| (None, diag_matrix(&a).v));
    pattern(t, [id!("diag_matrix", "no_panic"), id!("diag_matrix", "pattern")], "diag_matrix", got, None, &exp, &|| json!({"call": "diag_matrix(a)", "a": jf(&a)}));
    t.case("diag(slice)");
    let sq = distinct_values(rng, n * n);
    let exp: Vec<f64> = (0..n).map(|i| sq[i * n + i]).collect();
    let got = guard(|| (None, diag(&sq).v));
    pattern(t, [id!("diag_slice", "no_panic"), id!("diag_slice", "pattern")], "diag(slice)", got, None, &exp, &|| json!({"call": "diag(square slice)", "n": n}));

    // Toeplitz
    t.case("toeplitz");
    let exp: Vec<f64> = (0..n * n).map(|k| a[(k / n).abs_diff(k % n)]).collect();
    let got = guard(|| (None, toeplitz(&a)));
    pattern(t, [id!("toeplitz", "no_panic"), id!("toeplitz", "pattern")], "toeplitz", got, None, &exp, &|| json!({"call": "toeplitz(x)", "x": jf(&a)}));

    // Vandermonde: x_i^j
    t.case("vandermonde");
    let xs: Vec<f64> = (0..r).map(|_| rng.range(-2.0, 2.0)).collect();
    // the pattern is x_i^j; how the power is formed (powi, running product, repeated squaring) is not
    // pinned down, so entry (i, j) is judged against the double-double power within j rounding errors
    // (columns 0 and 1 are exactly 1 and x_i under every such scheme)
    let exact: Vec<Dd> = xs
        .iter()
        .flat_map(|&x| {
            (0..c).scan(Dd::from(1.0), move |acc, j| {
                if j > 0 {
                    *acc = *acc * x;
                }
                Some(*acc)
            })
        })
        .collect();
    let exp: Vec<f64> = exact.iter().map(|d| d.f()).collect();
    let got = guard(|| vandermonde(&xs, c));
    match got {
        Err(msg) => {
            t.check(id!("vandermonde", "no_panic"), "vandermonde", false, &|| json!({"call": format!("vandermonde(x, {})", c), "x": jf(&xs), "observed": {"panic": msg}}));
        }
        Ok(v) => {
            t.check(id!("vandermonde", "no_panic"), "vandermonde", true, &|| Value::Null);
            let ok = v.len() == r * c
                && (0..r * c).all(|k| {
                    let j = k % c;
                    if j <= 1 {
                        v[k].to_bits() == exp[k].to_bits()
                    } else {
                        (Dd::from(v[k]) - exact[k]).f().abs() <= j as f64 * f64::EPSILON * exp[k].abs()
                    }
                });
            t.check(id!("vandermonde", "pattern"), "vandermonde", ok, &|| json!({"call": format!("vandermonde(x, {})", c), "x": jf(&xs), "observed": {"len": v.len(), "data": jf(&v)}, "expected": {"len": r * c, "data": jf(&exp), "tolerance": "columns 0, 1 exact; column j within j*eps relative of the exact power"}}));
        }
    }

    // design matrix: a column of ones, then the column-major input
    t.case("design");
    let k = rng.usize(1, 8.min(maxn));
    let x = distinct_values(rng, r * k);
    let exp: Vec<f64> = (0..r).flat_map(|i| std::iter::once(1.0).chain((0..k).map(|j| x[j * r + i])).collect::<Vec<f64>>()).collect();
    let got = guard(|| (None, design(&x, r)));
    pattern(t, [id!("design", "no_panic"), id!("design", "pattern")], "design", got, None, &exp, &|| json!({"call": format!("design(x, {})", r), "x": jf(&x)}));

    // linspace
    {
        let num = match rng.usize(0, 5) {
            0 => 1,
            1 => 2,
            _ => rng.usize(3, maxn.max(3)),
        };
        let regime = match num {
            1 => "linspace:num=1",
            2 => "linspace:num=2",
            _ => "linspace:num>=3",
        };
        t.case(regime);
        let start = if rng.chance(0.2) { rng.int(-5, 5) as f64 } else { rng.range(-100.0, 100.0) };
        let span = rng.log_range(1e-3, 1e3) * if rng.bool() { 1.0 } else { -1.0 };
        let stop = if rng.chance(0.05) { start } else { start + span };
        let what = || json!(format!("linspace({:e}, {:e}, {})", start, stop, num));
        match guard(|| linspace(start, stop, num).v) {
            Err(msg) => {
                t.check(id!("linspace", "no_panic"), regime, false, &|| json!({"call": what(), "observed": {"panic": msg}}));
            }
            Ok(v) => {
                t.check(id!("linspace", "no_panic"), regime, true, &|| Value::Null);
                let d = |what_failed: &str| json!({"call": what(), "failed": what_failed, "observed": jf(&v)});
                if t.check(id!("linspace", "len"), regime, v.len() == num, &|| d("number of points")) {
                    t.check(id!("linspace", "first"), regime, v[0].to_bits() == start.to_bits(), &|| d("first point is the start point"));
                    if num >= 2 {
                        let scale = start.abs().max(stop.abs());
                        let tol = 4.0 * f64::EPSILON * scale;
                        let e_last = (v[num - 1] - stop).abs();
                        t.note_max("worst_ratio.linspace.last", e_last / tol);
                        t.check(id!("linspace", "last"), regime, e_last <= tol, &|| d("last point is the stop point (4 eps * max(|start|,|stop|))"));
                        let mut worst = 0.0f64;
                        for (i, &x) in v.iter().enumerate() {
                            let exact = Dd::new(start) + (Dd::new(stop) - Dd::new(start)) * (i as f64) / ((num - 1) as f64);
                            worst = worst.max((Dd::new(x) - exact).f().abs());
                        }
                        // interior points: how they are formed (start + i*width, a running sum of num-1 rounded
                        // additions, interpolation from both ends) is not pinned down; a running sum is the least
                        // accurate admissible scheme, one rounding error of size <= eps/2 * scale per step
                        let tol_sp = (num as f64 + 4.0) * f64::EPSILON * scale;
                        t.note_max("worst_ratio.linspace.spacing", worst / tol_sp);
                        t.note_max("info.worst_ratio.linspace.spacing_vs_4eps", worst / tol);
                        t.check(id!("linspace", "spacing"), regime, worst <= tol_sp, &|| d("points equally spaced ((num + 4) eps * max(|start|,|stop|))"));
                    }
                }
            }
        }
    }

    // arange
    {
        let class = rng.usize(0, 9);
        let start = if rng.chance(0.3) { rng.int(-5, 5) as f64 } else { rng.range(-50.0, 50.0) };
        let step = rng.log_range(1e-3, 10.0) * if rng.chance(0.25) { -1.0 } else { 1.0 };
        let k = rng.usize(0, maxn - 1) as f64;
        let stop = match class {
            0 => start - step * rng.range(0.0, 3.0),                        // empty
            1 | 2 => start + step * (k + *rng.choose(&[0.0, 1e-9, 0.01, 0.03, 0.97, 0.99, 1.0 - 1e-9])), // near an integer ratio
            _ => start + step * (k + rng.range(0.1, 0.9)),                  // clearly fractional ratio
        };
        let ratio = (Dd::new(stop) - Dd::new(start)) / Dd::new(step);
        let rf = ratio.f();
        let fl = rf.floor();
        let frac = (ratio - fl).f();
        let regime = if rf <= 0.0 {
            "arange:empty"
        } else if (0.05..=0.95).contains(&frac) {
            "arange:frac∈[.05,.95]"
        } else {
            "arange:near-integer"
        };
        t.case(regime);
        let what = || json!({"call": format!("arange({:e}, {:e}, {:e})", start, stop, step), "exact_ratio_(stop-start)/step": rf});
        match guard(|| arange(start, stop, step).v) {
            Err(msg) => {
                t.check(id!("arange", "no_panic"), regime, false, &|| json!({"call": what(), "observed": {"panic": msg}}));
            }
            Ok(v) => {
                t.check(id!("arange", "no_panic"), regime, true, &|| Value::Null);
                let cnt = v.len() as f64;
                let (count_ok, expected) = if rf <= 0.0 {
                    (cnt == 0.0, json!(0))
                } else if (0.05..=0.95).contains(&frac) {
                    (cnt == fl + 1.0, json!(fl + 1.0))
                } else {
                    ((cnt - rf).abs() < 1.0 + 1e-9, json!(format!("{} or {}", rf.round() - 1.0, rf.round())))
                };
                t.check(id!("arange", "count"), regime, count_ok, &|| json!({"call": what(), "observed_count": cnt, "expected_count": expected, "observed_tail": jf(&v[v.len().saturating_sub(3)..]), "failed": "every point of [start, stop) on the grid is present"}));
                let inside = v.iter().all(|&x| if step > 0.0 { x >= start && x < stop } else { x <= start && x > stop });
                t.check(id!("arange", "in_range"), regime, inside, &|| json!({"call": what(), "observed": jf(&v)}));
                // as for linspace: a running sum of rounded additions is admissible
                let tol = (v.len() as f64 + 4.0) * f64::EPSILON * start.abs().max(stop.abs());
                let mut worst = 0.0f64;
                for (i, &x) in v.iter().enumerate() {
                    let exact = Dd::new(start) + Dd::prod(i as f64, step);
                    worst = worst.max((Dd::new(x) - exact).f().abs());
                }
                if !v.is_empty() && tol > 0.0 {
                    t.note_max("worst_ratio.arange.spacing", worst / tol);
                }
                t.check(id!("arange", "spacing"), regime, worst <= tol, &|| json!({"call": what(), "observed": jf(&v), "failed": "x_i = start + i*step ((len + 4) eps * max(|start|,|stop|))"}));
            }
        }
    }

    // rotations
    {
        let theta = if rng.chance(0.15) { *rng.choose(&[0.0, 0.5, 1.0, 1.5, 2.0, -0.5, -1.0, 4.0, -4.0]) * std::f64::consts::PI } else { rng.range(-4.0, 4.0) * std::f64::consts::PI };
        for ax in 0..3 {
            let regime = ["rotation:X", "rotation:Y", "rotation:Z"][ax];
            t.case(regime);
            let got = guard(|| (rotation_matrix_cw(theta, axis(ax)), rotation_matrix_ccw(theta, axis(ax))));
            let what = || json!(format!("rotation_matrix_cw/ccw({:e}, Axis::{})", theta, ["X", "Y", "Z"][ax]));
            match got {
                Err(msg) => {
                    t.check(id!("rotation", "no_panic"), regime, false, &|| json!({"call": what(), "observed": {"panic": msg}}));
                }
                Ok((cw, ccw)) => {
                    t.check(id!("rotation", "no_panic"), regime, true, &|| Value::Null);
                    let d = || json!({"call": what(), "cw": jlib(&cw), "ccw": jlib(&ccw)});
                    let shape_ok = cw.shape() == [3, 3] && ccw.shape() == [3, 3] && cw.data.len() == 9 && ccw.data.len() == 9;
                    if t.check(id!("rotation", "shape"), regime, shape_ok, &d) {
                        t.check(id!("rotation", "cw_is_ccw_t"), regime, bits_eq(&cw.data, &t3(&ccw.data)), &d);
                        let o1 = dist_identity(&mul3(&t3(&cw.data), &cw.data));
                        let o2 = dist_identity(&mul3(&t3(&ccw.data), &ccw.data));
                        t.note_max("worst_ratio.rotation.orthogonal", o1.max(o2) / ROT_TOL);
                        t.check(id!("rotation", "orthogonal"), regime, o1 <= ROT_TOL && o2 <= ROT_TOL, &d);
                        let dd = (det3(&cw.data) - 1.0).abs().max((det3(&ccw.data) - 1.0).abs());
                        t.note_max("worst_ratio.rotation.det", dd / ROT_TOL);
                        t.check(id!("rotation", "det"), regime, dd <= ROT_TOL, &d);
                        let p = dist_identity(&mul3(&cw.data, &ccw.data));
                        t.note_max("worst_ratio.rotation.cw_ccw_identity", p / ROT_TOL);
                        t.check(id!("rotation", "cw_ccw_identity"), regime, p <= ROT_TOL, &d);
                    }
                }
            }
        }
    }
}

// ---------------------------------------------------------------------------------------------
// rejection probes: every constructor / conversion that takes a size argument, called with sizes that
// no row-major matrix can have ("an impossible shape is rejected by a panic"). The model decides: a
// block of `len` values cannot be laid out in `rows` rows when `rows` does not divide `len`, a slice
// whose length is not a perfect square has no diagonal, two blocks with different row (column) counts
// cannot be put side by side (on top of each other). A value where the model has none is the violation;
// for the predicates the model's answer is "no" (a panic is tolerated, `true` is not). Object-level
// probes also assert that the object that survives the rejection is unchanged and goes on working.

/// a length in 1..=max that `rows` (>= 2) does not divide, in the classes a caller produces
fn ragged_len(rng: &mut Rng, rows: usize, max_cols: usize) -> (usize, &'static str) {
    let k = rng.usize(1, max_cols.max(1));
    match rng.usize(0, 3) {
        0 => (rng.usize(1, rows - 1), "fewer values than rows"),
        1 => (rows * k + 1, "one stray value"),
        2 => (rows * k - 1, "one value missing"),
        _ => {
            let q = rng.usize(1, rows - 1);
            (rows * (k - 1) + q, "incomplete last column")
        }
    }
}

fn reject_value(t: &mut Tally, id: &'static str, regime: &'static str, observed: Result<Value, String>, what: &dyn Fn() -> Value) {
    t.check(id, regime, observed.is_err(), &|| json!({"call": what(), "observed": observed.as_ref().ok(), "expected": "panic (no matrix of that shape exists)"}));
}

fn rejections(t: &mut Tally, rng: &mut Rng, maxn: usize) {
    let maxn = maxn.max(3);
    // --- design(x, rows): `x` holds one predictor after the other, `rows` values each
    {
        let regime = "reject:design:ragged";
        t.case(regime);
        let rows = rng.usize(2, maxn);
        let (len, class) = ragged_len(rng, rows, 8.min(maxn));
        let x = distinct_values(rng, len);
        let got = guard(|| {
            let d = design(&x, rows);
            json!({"returned_len": d.len(), "returned": jf(&d)})
        });
        reject_value(t, id!("design", "rejects"), regime, got, &|| json!({"call": format!("design(x, {})", rows), "x_len": len, "class": class, "x": jf(&x)}));
    }
    // --- layout conversions / slice transpose with a row count that does not divide the length
    {
        let (r, c) = (rng.usize(1, maxn), rng.usize(1, maxn));
        let len = r * c;
        let data = distinct_values(rng, len);
        let nondiv: Vec<usize> = (2..=len + 2).filter(|d| len % d != 0).collect();
        for which in 0..3 {
            let rows = *rng.choose(&nondiv);
            let (regime, idn, name) = match which {
                0 => ("reject:row_to_col_major:non-dividing", id!("row_to_col_major", "rejects"), "row_to_col_major"),
                1 => ("reject:col_to_row_major:non-dividing", id!("col_to_row_major", "rejects"), "col_to_row_major"),
                _ => ("reject:transpose(slice):non-dividing", id!("transpose_slice", "rejects"), "transpose"),
            };
            t.case(regime);
            let got = guard(|| {
                let v: Vec<f64> = match which {
                    0 => row_to_col_major(&data, rows).v,
                    1 => col_to_row_major(&data, rows),
                    _ => transpose(&data, rows),
                };
                json!({"returned_len": v.len(), "returned": jf(&v)})
            });
            reject_value(t, idn, regime, got, &|| json!({"call": format!("{}(slice of length {}, {})", name, len, rows), "data": jf(&data)}));
        }
        // predicates on a slice that is not a matrix with that many rows: never "yes"
        let rows = *rng.choose(&nondiv);
        let mut d = data.clone();
        for i in 0..len {
            if i % 2 == 0 || rng.chance(0.3) {
                d[i] = 1.0; // plenty of ones wherever a first column might be looked for
            }
        }
        t.case("nonmatrix:is_design");
        let got = guard(|| is_design(&d, rows));
        t.check(id!("is_design", "answer"), "nonmatrix:is_design", got != Ok(true), &|| json!({"call": format!("is_design(slice of length {}, {})", len, rows), "data": jf(&d), "observed": true, "expected": "false or panic: the slice is not a matrix with that many rows"}));
    }
    // --- diagonal of a slice whose length is not a perfect square; symmetry of such a slice
    {
        let len = loop {
            let l = rng.usize(2, maxn * maxn);
            let s = (l as f64).sqrt().round() as usize;
            if s * s != l {
                break l;
            }
        };
        let data = if rng.bool() { vec![2.5; len] } else { distinct_values(rng, len) };
        t.case("reject:diag(slice):non-square");
        let got = guard(|| jf(&diag(&data).v));
        reject_value(t, id!("diag_slice", "rejects"), "reject:diag(slice):non-square", got, &|| json!({"call": format!("diag(slice of length {})", len)}));
        t.case("nonmatrix:is_symmetric(slice)");
        let got = guard(|| is_symmetric(&data));
        t.check(id!("is_symmetric_slice", "answer"), "nonmatrix:is_symmetric(slice)", got != Ok(true), &|| json!({"call": format!("is_symmetric(slice of length {})", len), "data": jf(&data), "observed": true, "expected": "false or panic: not a square matrix"}));
    }
    // --- constructors / reshapes of a matrix object at constructor sizes; the object survives unchanged
    {
        let (r, c) = (rng.usize(1, maxn), rng.usize(1, maxn));
        let size = r * c;
        let mut next = rng.usize(0, 50) as f64 * 64.0;
        let model = fresh(r, c, &mut next);
        let mut lib = build(&model);
        let data = flat(&model);
        let nondiv: Vec<i32> = (2..=size + 2).filter(|d| size % d != 0).map(|d| d as i32).collect();
        let pick = |rng: &mut Rng| -> (i32, i32, &'static str) {
            if rng.bool() {
                let d = *rng.choose(&nondiv);
                if rng.bool() {
                    (-1, d, "inferred rows, non-dividing columns")
                } else {
                    (d, -1, "inferred columns, non-dividing rows")
                }
            } else {
                let (a, b) = (rng.usize(1, maxn), rng.usize(1, maxn));
                if a * b == size {
                    (a as i32, b as i32 + 1, "explicit, one column too many")
                } else {
                    (a as i32, b as i32, "explicit, product differs from the element count")
                }
            }
        };
        let (a, b, class) = pick(rng);
        t.case("reject:Matrix::new:sizes<=64");
        let got = guard(|| jlib(&Matrix::new(data.clone(), a, b)));
        reject_value(t, id!("new", "rejects"), "reject:Matrix::new:sizes<=64", got, &|| json!({"call": format!("Matrix::new({} values, {}, {})", size, a, b), "class": class}));
        let (a, b, class) = pick(rng);
        t.case("reject:Vector::reshape:sizes<=64");
        let got = guard(|| jlib(&Vector::new(data.clone()).reshape(a, b)));
        reject_value(t, id!("vec_reshape", "rejects"), "reject:Vector::reshape:sizes<=64", got, &|| json!({"call": format!("Vector({} values).reshape({}, {})", size, a, b), "class": class}));
        // three rejected calls in a row on ONE object, which must come out of each of them unchanged
        for round in 0..3 {
            let (a, b, class) = pick(rng);
            match if round == 2 { 2 + rng.usize(0, 1) } else { 1 - round } {
                0 => {
                    let regime = "reject:reshape:sizes<=64";
                    t.case(regime);
                    let got = guard(|| jlib(&lib.reshape(a, b)));
                    must_reject(t, id!("reshape", "rejects"), regime, got, &mut lib, &model, &|| json!({"call": format!("({}x{}).reshape({}, {})", r, c, a, b), "class": class}));
                }
                1 => {
                    let regime = "reject:reshape_mut:sizes<=64";
                    t.case(regime);
                    let got = guard(|| {
                        lib.reshape_mut(a, b);
                        jlib(&lib)
                    });
                    must_reject(t, id!("reshape_mut", "rejects"), regime, got, &mut lib, &model, &|| json!({"call": format!("({}x{}).reshape_mut({}, {})", r, c, a, b), "class": class}));
                }
                k => {
                    let h = k == 2;
                    let regime = if h { "reject:hcat:sizes<=64" } else { "reject:vcat:sizes<=64" };
                    t.case(regime);
                    let d = rng.usize(1, 3);
                    let (or, oc) = if h { (if r > d && rng.bool() { r - d } else { r + d }, rng.usize(1, 3)) } else { (rng.usize(1, 3), if c > d && rng.bool() { c - d } else { c + d }) };
                    let other = Matrix::new(vec![0.5; or * oc], or as i32, oc as i32);
                    let got = guard(|| jlib(&if h { lib.hcat(other) } else { lib.vcat(other) }));
                    must_reject(t, if h { id!("hcat", "rejects") } else { id!("vcat", "rejects") }, regime, got, &mut lib, &model, &|| json!({"call": format!("({}x{}).{}(other {}x{})", r, c, if h { "hcat" } else { "vcat" }, or, oc)}));
                }
            }
        }
        // ... and remains usable: a transposition and the flat data after all that
        t.case("reject:then-use");
        let nm = mt(&model);
        let got = guard(|| lib.t());
        adopt(t, [id!("t", "no_panic"), id!("t", "state")], "reject:then-use", got, &mut lib, &model, &nm, &|| json!("t() on an object that has been through rejected reshapes / concatenations"));
    }
}

// ---------------------------------------------------------------------------------------------
// predicates and comparisons

fn answer(t: &mut Tally, ids: [&'static str; 2], regime: &'static str, got: Result<bool, String>, expect: bool, what: &dyn Fn() -> Value) {
    match got {
        Err(msg) => {
            t.check(ids[0], regime, false, &|| json!({"call": what(), "observed": {"panic": msg}, "expected": expect}));
        }
        Ok(b) => {
            t.check(ids[0], regime, true, &|| Value::Null);
            t.check(ids[1], regime, b == expect, &|| json!({"call": what(), "observed": b, "expected": expect}));
        }
    }
}

fn predicates(t: &mut Tally, rng: &mut Rng, maxn: usize) {
    let n = rng.usize(1, maxn);
    // square / matrix predicates on slices
    {
        let len = rng.usize(1, maxn * maxn);
        let v = vec![1.5; len];
        let root = (1..=len).find(|k| k * k >= len).unwrap();
        let exp = if root * root == len { Some(root) } else { None };
        t.case("is_square(slice)");
        let got = guard(|| is_square(&v).ok());
        t.check(id!("is_square_slice", "answer"), "is_square(slice)", got == Ok(exp), &|| json!({"call": format!("is_square(slice of length {})", len), "observed": format!("{:?}", got), "expected": format!("{:?}", exp)}));
        let rows = rng.usize(1, maxn);
        let exp = if len % rows == 0 { Some(len / rows) } else { None };
        t.case("is_matrix(slice)");
        let got = guard(|| is_matrix(&v, rows).ok());
        t.check(id!("is_matrix_slice", "answer"), "is_matrix(slice)", got == Ok(exp), &|| json!({"call": format!("is_matrix(slice of length {}, {})", len, rows), "observed": format!("{:?}", got), "expected": format!("{:?}", exp)}));
        let (r, c) = (rng.usize(1, maxn), rng.usize(1, maxn));
        t.case("is_square");
        let got = guard(|| Matrix::zeros(r, c).is_square());
        answer(t, [id!("is_square", "no_panic"), id!("is_square", "answer")], "is_square", got, r == c, &|| json!(format!("Matrix::zeros({}, {}).is_square()", r, c)));
    }
    // symmetry
    {
        let vals = distinct_values(rng, n * n);
        let scale = vals.iter().fold(0.0f64, |m, x| m.max(x.abs()));
        let mut s = vec![0.0; n * n];
        for i in 0..n {
            for j in 0..n {
                s[i * n + j] = vals[i.min(j) * n + i.max(j)];
            }
        }
        let ms = Matrix::new(s.clone(), n as i32, n as i32);
        t.case("is_symmetric:positive");
        answer(t, [id!("is_symmetric", "no_panic"), id!("is_symmetric", "answer")], "is_symmetric:positive", guard(|| ms.is_symmetric()), true, &|| json!({"call": "Matrix::is_symmetric", "n": n, "data": jf(&s)}));
        t.case("is_symmetric(slice):positive");
        answer(t, [id!("is_symmetric_slice", "no_panic"), id!("is_symmetric_slice", "answer")], "is_symmetric(slice):positive", guard(|| is_symmetric(&s)), true, &|| json!({"call": "is_symmetric(slice)", "n": n, "data": jf(&s)}));
        if n >= 2 {
            let (i, j) = (rng.usize(1, n - 1), 0);
            let j = rng.usize(j, i - 1);
            let mut a = s.clone();
            a[i * n + j] += scale * rng.log_range(1e-3, 1.0);
            let ma = Matrix::new(a.clone(), n as i32, n as i32);
            t.case("is_symmetric:negative");
            answer(t, [id!("is_symmetric", "no_panic"), id!("is_symmetric", "answer")], "is_symmetric:negative", guard(|| ma.is_symmetric()), false, &|| json!({"call": "Matrix::is_symmetric", "n": n, "data": jf(&a), "perturbed": [i, j]}));
            t.case("is_symmetric(slice):negative");
            answer(t, [id!("is_symmetric_slice", "no_panic"), id!("is_symmetric_slice", "answer")], "is_symmetric(slice):negative", guard(|| is_symmetric(&a)), false, &|| json!({"call": "is_symmetric(slice)", "n": n, "data": jf(&a), "perturbed": [i, j]}));
        }
        let (r, c) = (rng.usize(1, maxn), rng.usize(1, maxn));
        if r != c {
            let m = Matrix::new(vec![1.0; r * c], r as i32, c as i32);
            t.case("is_symmetric:non-square");
            answer(t, [id!("is_symmetric", "no_panic"), id!("is_symmetric", "answer")], "is_symmetric:non-square", guard(|| m.is_symmetric()), false, &|| json!(format!("Matrix::ones({}, {}).is_symmetric()", r, c)));
        }
    }
    // triangular structure (definition: entries below / above the main diagonal are zero)
    {
        let (r, c) = if rng.chance(0.4) { (n, n) } else { (rng.usize(1, maxn), rng.usize(1, maxn)) };
        let pat = rng.usize(0, 3); // 0 upper, 1 lower, 2 full, 3 diagonal
        let vals = distinct_values(rng, r * c);
        let mut a = vec![0.0; r * c];
        for i in 0..r {
            for j in 0..c {
                let keep = match pat {
                    0 => j >= i,
                    1 => j <= i,
                    2 => true,
                    _ => i == j,
                };
                if keep {
                    a[i * c + j] = vals[i * c + j];
                }
            }
        }
        if pat == 2 && rng.bool() {
            // a single offending entry is enough
            for i in 0..r {
                for j in 0..c {
                    if i != j {
                        a[i * c + j] = 0.0;
                    }
                }
            }
            let (i, j) = (rng.usize(0, r - 1), rng.usize(0, c - 1));
            a[i * c + j] = 7.5;
        }
        let upper = (0..r).all(|i| (0..c.min(i)).all(|j| a[i * c + j] == 0.0));
        let lower = (0..r).all(|i| (i + 1..c).all(|j| a[i * c + j] == 0.0));
        let m = Matrix::new(a.clone(), r as i32, c as i32);
        let (ru, rl) = if r == c {
            ("is_upper_triangular:square", "is_lower_triangular:square")
        } else if r > c {
            ("is_upper_triangular:tall", "is_lower_triangular:tall")
        } else {
            ("is_upper_triangular:wide", "is_lower_triangular:wide")
        };
        t.case(ru);
        answer(t, [id!("is_upper_triangular", "no_panic"), id!("is_upper_triangular", "answer")], ru, guard(|| m.is_upper_triangular()), upper, &|| json!({"call": "is_upper_triangular", "shape": [r, c], "data": jf(&a)}));
        t.case(rl);
        answer(t, [id!("is_lower_triangular", "no_panic"), id!("is_lower_triangular", "answer")], rl, guard(|| m.is_lower_triangular()), lower, &|| json!({"call": "is_lower_triangular", "shape": [r, c], "data": jf(&a)}));
    }
    // design-matrix predicate
    {
        let (r, k) = (rng.usize(1, maxn), rng.usize(1, 8.min(maxn)));
        let x = distinct_values(rng, r * k);
        let good = design(&x, r);
        t.case("is_design:positive");
        answer(t, [id!("is_design", "no_panic"), id!("is_design", "answer")], "is_design:positive", guard(|| is_design(&good, r)), true, &|| json!({"call": format!("is_design(design(x, {}), {})", r, r), "data": jf(&good)}));
        let mut bad = good.clone();
        let i = rng.usize(0, r - 1);
        bad[i * (k + 1)] = 1.0 + rng.log_range(1e-3, 10.0) * if rng.bool() { 1.0 } else { -1.0 };
        t.case("is_design:negative");
        answer(t, [id!("is_design", "no_panic"), id!("is_design", "answer")], "is_design:negative", guard(|| is_design(&bad, r)), false, &|| json!({"call": format!("is_design(data, {})", r), "data": jf(&bad), "row_with_non_unit_first_entry": i}));
    }
}

fn comparisons(t: &mut Tally, rng: &mut Rng, maxn: usize) {
    let n = rng.usize(1, maxn);
    let tol = rng.log_range(1e-12, 1e-2);
    // magnitudes at least 1e3 x the tolerance, both signs
    let x: Vec<f64> = (0..n).map(|_| rng.log_range((1e3 * tol).max(1e-6), 1e6) * if rng.bool() { 1.0 } else { -1.0 }).collect();
    let k = rng.usize(0, n - 1);
    let classes: [(&'static str, &'static str, Vec<f64>, bool); 5] = [
        ("close_to:identical", "mat_close_to:identical", x.clone(), true),
        ("close_to:near", "mat_close_to:near", x.iter().map(|v| v * (1.0 + rng.range(-0.1, 0.1) * tol)).collect(), true),
        ("close_to:far", "mat_close_to:far", x.iter().enumerate().map(|(i, v)| if i == k { v * (1.0 + 10.0 * tol) } else { *v }).collect(), false),
        // same magnitudes, one element of opposite sign
        ("close_to:opposite-sign", "mat_close_to:opposite-sign", x.iter().enumerate().map(|(i, v)| if i == k { -v } else { *v }).collect(), false),
        ("close_to:length-mismatch", "mat_close_to:length-mismatch", x.iter().copied().chain(std::iter::once(1.0)).collect(), false),
    ];
    let vx = Vector::new(x.clone());
    for (rv, rm, y, expect) in classes.iter() {
        let vy = Vector::new(y.clone());
        t.case(rv);
        answer(t, [id!("close_to", "no_panic"), id!("close_to", "answer")], rv, guard(|| vx.close_to(&vy, tol)), *expect, &|| json!({"call": "Vector::close_to(x, y, tol)", "x": jf(&x), "y": jf(y), "tol": tol}));
        t.case(rm);
        let (mx, my) = (Matrix::new(x.clone(), 1, x.len() as i32), Matrix::new(y.clone(), 1, y.len() as i32));
        answer(t, [id!("mat_close_to", "no_panic"), id!("mat_close_to", "answer")], rm, guard(|| mx.close_to(&my, tol)), *expect, &|| json!({"call": "Matrix::close_to(1 x n, 1 x n, tol)", "x": jf(&x), "y": jf(y), "tol": tol}));
    }
    // == (absolute difference <= f64::EPSILON per element)
    let e: Vec<f64> = (0..n).map(|_| rng.log_range(1e3 * f64::EPSILON, 1e6) * if rng.bool() { 1.0 } else { -1.0 }).collect();
    let eq_classes: [(&'static str, &'static str, Vec<f64>, bool); 4] = [
        ("eq:identical", "mat_eq:identical", e.clone(), true),
        ("eq:opposite-sign", "mat_eq:opposite-sign", e.iter().enumerate().map(|(i, v)| if i == k { -v } else { *v }).collect(), false),
        ("eq:different", "mat_eq:different", e.iter().enumerate().map(|(i, v)| if i == k { v + v.abs().max(1.0) * 1e-3 } else { *v }).collect(), false),
        ("eq:length-mismatch", "mat_eq:length-mismatch", e.iter().copied().chain(std::iter::once(1.0)).collect(), false),
    ];
    let ve = Vector::new(e.clone());
    for (rv, rm, y, expect) in eq_classes.iter() {
        let vy = Vector::new(y.clone());
        t.case(rv);
        answer(t, [id!("vec_eq", "no_panic"), id!("vec_eq", "answer")], rv, guard(|| ve == vy), *expect, &|| json!({"call": "Vector == Vector", "x": jf(&e), "y": jf(y)}));
        t.case(rm);
        let (mx, my) = (Matrix::new(e.clone(), e.len() as i32, 1), Matrix::new(y.clone(), y.len() as i32, 1));
        answer(t, [id!("mat_eq", "no_panic"), id!("mat_eq", "answer")], rm, guard(|| mx == my), *expect, &|| json!({"call": "Matrix == Matrix (n x 1)", "x": jf(&e), "y": jf(y)}));
    }
    // same data, different shape
    let (r, c) = (rng.usize(1, maxn), rng.usize(2, maxn.max(2)));
    if r != c {
        let d = distinct_values(rng, r * c);
        let (a, b) = (Matrix::new(d.clone(), r as i32, c as i32), Matrix::new(d.clone(), c as i32, r as i32));
        t.case("mat_eq:shape-mismatch");
        answer(t, [id!("mat_eq", "no_panic"), id!("mat_eq", "answer")], "mat_eq:shape-mismatch", guard(|| a == b), false, &|| json!(format!("same data as {}x{} and {}x{} compared with ==", r, c, c, r)));
        t.case("mat_close_to:shape-mismatch");
        answer(t, [id!("mat_close_to", "no_panic"), id!("mat_close_to", "answer")], "mat_close_to:shape-mismatch", guard(|| a.close_to(&b, 1e-6)), false, &|| json!(format!("same data as {}x{} and {}x{} compared with close_to", r, c, c, r)));
    }
}

// ---------------------------------------------------------------------------------------------
// comparisons and predicates across extreme magnitudes (1e-300 .. 1e300, subnormals, signed zeros)
//
// `close_to` is a *relative* comparison (`rel_diff`), so for two non-zero values of opposite sign the
// answer is "not close" at every magnitude: |a − b| / min(|a|,|b|) >= 2 > tol. A sign test that is
// computed through a product, a quotient, a sum or a difference of the two values under- or overflows
// at the ends of the range; the pairs below sit there. +0.0 / −0.0 are the same number.

#[derive(Clone, Copy, PartialEq)]
enum Band {
    Tiny,
    Mid,
    Huge,
}

/// a magnitude in the band; `resolved`: a normal number far enough from both limits that x·(1 ± 0.2) is
/// computed with full relative precision and does not overflow
fn xmag(rng: &mut Rng, band: Band, resolved: bool) -> f64 {
    match band {
        Band::Tiny => {
            if !resolved && rng.chance(0.25) {
                *rng.choose(&[5e-324, 1e-310, f64::MIN_POSITIVE, 3e-300, 1e-200, 1e-162, 1.5e-154])
            } else {
                rng.log_range(if resolved { 1e-290 } else { 1e-300 }, 1e-150)
            }
        }
        Band::Mid => rng.log_range(1e-150, 1e150),
        Band::Huge => {
            if !resolved && rng.chance(0.25) {
                *rng.choose(&[1.3e154, 1e200, 3e300, f64::MAX / 4.0, f64::MAX])
            } else {
                rng.log_range(1e150, 1e300)
            }
        }
    }
}

fn comparisons_extreme(t: &mut Tally, rng: &mut Rng) {
    let band = *rng.choose(&[Band::Tiny, Band::Tiny, Band::Mid, Band::Huge, Band::Huge]);
    let n = rng.usize(1, 6);
    let k = rng.usize(0, n - 1);
    let tol = rng.log_range(1e-12, 1e-2);
    let sign = |rng: &mut Rng| if rng.bool() { 1.0 } else { -1.0 };
    // x: any magnitude of the band (subnormals and the largest finite numbers included);
    // xr: well-resolved magnitudes only (for the pairs that differ by a relative amount)
    let mixed = rng.chance(0.3);
    let x: Vec<f64> = (0..n).map(|i| xmag(rng, if mixed && i != k { Band::Mid } else { band }, false) * sign(rng)).collect();
    let xr: Vec<f64> = (0..n).map(|i| xmag(rng, if mixed && i != k { Band::Mid } else { band }, true) * sign(rng)).collect();
    let d_near = rng.range(-0.1, 0.1) * tol;
    let flip = |v: &[f64]| -> Vec<f64> { v.iter().enumerate().map(|(i, a)| if i == k { -a } else { *a }).collect() };
    let (r_opp, r_oppm, r_id, r_idm, r_near, r_nearm, r_far, r_farm) = match band {
        Band::Tiny => ("close_to:opposite-sign:|x|<1e-150", "mat_close_to:opposite-sign:|x|<1e-150", "close_to:identical:|x|<1e-150", "mat_close_to:identical:|x|<1e-150", "close_to:near:|x|<1e-150", "mat_close_to:near:|x|<1e-150", "close_to:far:|x|<1e-150", "mat_close_to:far:|x|<1e-150"),
        Band::Mid => ("close_to:opposite-sign:1e-150..1e150", "mat_close_to:opposite-sign:1e-150..1e150", "close_to:identical:1e-150..1e150", "mat_close_to:identical:1e-150..1e150", "close_to:near:1e-150..1e150", "mat_close_to:near:1e-150..1e150", "close_to:far:1e-150..1e150", "mat_close_to:far:1e-150..1e150"),
        Band::Huge => ("close_to:opposite-sign:|x|>1e150", "mat_close_to:opposite-sign:|x|>1e150", "close_to:identical:|x|>1e150", "mat_close_to:identical:|x|>1e150", "close_to:near:|x|>1e150", "mat_close_to:near:|x|>1e150", "close_to:far:|x|>1e150", "mat_close_to:far:|x|>1e150"),
    };
    // (regime, matrix regime, x, y, expected)
    let mut pairs: Vec<(&'static str, &'static str, Vec<f64>, Vec<f64>, bool)> = vec![
        // equal magnitude, opposite sign in one position
        (r_opp, r_oppm, x.clone(), flip(&x), false),
        // nearly equal magnitude (within tol/10), opposite sign in one position
        (r_opp, r_oppm, xr.clone(), xr.iter().enumerate().map(|(i, a)| if i == k { -a * (1.0 + d_near) } else { *a }).collect(), false),
        (r_id, r_idm, x.clone(), x.clone(), true),
        (r_near, r_nearm, xr.clone(), xr.iter().map(|a| a * (1.0 + d_near)).collect(), true),
        (r_far, r_farm, xr.clone(), xr.iter().enumerate().map(|(i, a)| if i == k { a * (1.0 + 10.0 * tol) } else { *a }).collect(), false),
    ];
    // signed zeros: the same vector with the sign of every zero flipped (non-zero entries identical)
    let z: Vec<f64> = (0..n).map(|i| if i == k || rng.bool() { if rng.bool() { 0.0 } else { -0.0 } } else { x[i] }).collect();
    let zf: Vec<f64> = z.iter().map(|&a| if a == 0.0 { -a } else { a }).collect();
    pairs.push(("close_to:signed-zeros", "mat_close_to:signed-zeros", z.clone(), zf.clone(), true));
    for (rv, rm, a, b, expect) in pairs.iter() {
        let (va, vb) = (Vector::new(a.clone()), Vector::new(b.clone()));
        t.case(rv);
        answer(t, [id!("close_to", "no_panic"), id!("close_to", "answer")], rv, guard(|| va.close_to(&vb, tol)), *expect, &|| json!({"call": "Vector::close_to(x, y, tol)", "x": jf(a), "y": jf(b), "tol": tol}));
        // the relation is symmetric in its arguments
        answer(t, [id!("close_to", "no_panic"), id!("close_to", "answer")], rv, guard(|| vb.close_to(&va, tol)), *expect, &|| json!({"call": "Vector::close_to(y, x, tol)", "x": jf(a), "y": jf(b), "tol": tol}));
        t.case(rm);
        let (ma, mb) = if rng.bool() { (Matrix::new(a.clone(), 1, n as i32), Matrix::new(b.clone(), 1, n as i32)) } else { (Matrix::new(a.clone(), n as i32, 1), Matrix::new(b.clone(), n as i32, 1)) };
        answer(t, [id!("mat_close_to", "no_panic"), id!("mat_close_to", "answer")], rm, guard(|| ma.close_to(&mb, tol)), *expect, &|| json!({"call": "Matrix::close_to(x, y, tol) (1 x n or n x 1)", "x": jf(a), "y": jf(b), "tol": tol}));
    }
    // == : |x_i − y_i| <= f64::EPSILON element-wise (absolute). Opposite signs are asserted where the
    // magnitudes are >= 1e3 x that tolerance (below it the definition itself equates them).
    let e: Vec<f64> = (0..n).map(|_| rng.log_range(1e3 * f64::EPSILON, 1e300) * sign(rng)).collect();
    let eq_pairs: [(&'static str, &'static str, Vec<f64>, Vec<f64>, bool); 5] = [
        ("eq:identical:1e-300..1e300", "mat_eq:identical:1e-300..1e300", x.clone(), x.clone(), true),
        ("eq:opposite-sign:2e-13..1e300", "mat_eq:opposite-sign:2e-13..1e300", e.clone(), flip(&e), false),
        ("eq:opposite-sign:2e-13..1e300", "mat_eq:opposite-sign:2e-13..1e300", e.clone(), e.iter().enumerate().map(|(i, a)| if i == k { -a * (1.0 + d_near) } else { *a }).collect(), false),
        ("eq:different:2e-13..1e300", "mat_eq:different:2e-13..1e300", e.clone(), e.iter().enumerate().map(|(i, a)| if i == k { a * 1.001 + a.signum() * 1e-9 } else { *a }).collect(), false),
        ("eq:signed-zeros", "mat_eq:signed-zeros", z.clone(), zf.clone(), true),
    ];
    for (rv, rm, a, b, expect) in eq_pairs.iter() {
        let (va, vb) = (Vector::new(a.clone()), Vector::new(b.clone()));
        t.case(rv);
        answer(t, [id!("vec_eq", "no_panic"), id!("vec_eq", "answer")], rv, guard(|| va == vb), *expect, &|| json!({"call": "Vector == Vector", "x": jf(a), "y": jf(b)}));
        answer(t, [id!("vec_eq", "no_panic"), id!("vec_eq", "answer")], rv, guard(|| vb == va), *expect, &|| json!({"call": "Vector == Vector (swapped)", "x": jf(a), "y": jf(b)}));
        t.case(rm);
        let (ma, mb) = (Matrix::new(a.clone(), n as i32, 1), Matrix::new(b.clone(), n as i32, 1));
        answer(t, [id!("mat_eq", "no_panic"), id!("mat_eq", "answer")], rm, guard(|| ma == mb), *expect, &|| json!({"call": "Matrix == Matrix (n x 1)", "x": jf(a), "y": jf(b)}));
    }
}

/// symmetric / triangular predicates on matrices whose entries sit at the ends of the f64 range
fn predicates_extreme(t: &mut Tally, rng: &mut Rng) {
    let n = rng.usize(2, 6);
    let band = *rng.choose(&[Band::Tiny, Band::Tiny, Band::Mid, Band::Huge, Band::Huge]);
    // a symmetric matrix with entries of either sign in the band (subnormals / near-MAX included)
    let mut s = vec![0.0; n * n];
    for i in 0..n {
        for j in i..n {
            let v = xmag(rng, band, false) * if rng.bool() { 1.0 } else { -1.0 };
            s[i * n + j] = v;
            s[j * n + i] = v;
        }
    }
    let (i, j) = {
        let i = rng.usize(1, n - 1);
        (i, rng.usize(0, i - 1))
    };
    // negatives: one mirrored pair of opposite sign; one pair differing by 1e-3 relative (resolved magnitude)
    let mut opp = s.clone();
    opp[i * n + j] = -opp[j * n + i];
    let mut pert = s.clone();
    let base = xmag(rng, band, true);
    pert[j * n + i] = base;
    pert[i * n + j] = base * (1.0 + rng.log_range(1e-3, 0.2));
    let (rp, rps, rn, rns) = match band {
        Band::Tiny => ("is_symmetric:positive:|x|<1e-150", "is_symmetric(slice):positive:|x|<1e-150", "is_symmetric:negative:|x|<1e-150", "is_symmetric(slice):negative:|x|<1e-150"),
        Band::Mid => ("is_symmetric:positive:1e-150..1e150", "is_symmetric(slice):positive:1e-150..1e150", "is_symmetric:negative:1e-150..1e150", "is_symmetric(slice):negative:1e-150..1e150"),
        Band::Huge => ("is_symmetric:positive:|x|>1e150", "is_symmetric(slice):positive:|x|>1e150", "is_symmetric:negative:|x|>1e150", "is_symmetric(slice):negative:|x|>1e150"),
    };
    for (rm, rs, data, expect, why) in [(rp, rps, &s, true, "exactly symmetric"), (rn, rns, &opp, false, "one mirrored pair of opposite sign"), (rn, rns, &pert, false, "one mirrored pair differing by >= 1e-3 relative")] {
        let m = Matrix::new(data.clone(), n as i32, n as i32);
        t.case(rm);
        answer(t, [id!("is_symmetric", "no_panic"), id!("is_symmetric", "answer")], rm, guard(|| m.is_symmetric()), expect, &|| json!({"call": "Matrix::is_symmetric", "n": n, "data": jf(data), "construction": why, "pair": [i, j]}));
        t.case(rs);
        answer(t, [id!("is_symmetric_slice", "no_panic"), id!("is_symmetric_slice", "answer")], rs, guard(|| is_symmetric(data)), expect, &|| json!({"call": "is_symmetric(slice)", "n": n, "data": jf(data), "construction": why, "pair": [i, j]}));
    }
    // triangular: the definition is "exactly zero"; a single non-zero entry of the smallest magnitudes offends
    let (r, c) = (rng.usize(2, 6), rng.usize(2, 6));
    let mut u = vec![0.0; r * c];
    for a in 0..r {
        for b in a..c {
            u[a * c + b] = xmag(rng, band, false) * if rng.bool() { 1.0 } else { -1.0 };
        }
    }
    let l: Vec<f64> = {
        // the transposed pattern in the same r x c shape
        let mut l = vec![0.0; r * c];
        for a in 0..r {
            for b in 0..c.min(a + 1) {
                l[a * c + b] = xmag(rng, band, false) * if rng.bool() { 1.0 } else { -1.0 };
            }
        }
        l
    };
    let off = *rng.choose(&[5e-324, -5e-324, 1e-310, -f64::MIN_POSITIVE, 3e-300, -1e-200, 1e-17]);
    let (mut ubad, mut lbad) = (u.clone(), l.clone());
    let bi = rng.usize(1, r - 1);
    let bj = rng.usize(0, bi.min(c) - 1);
    ubad[bi * c + bj] = off; // below the diagonal
    let ai = rng.usize(0, r.min(c - 1) - 1);
    let aj = rng.usize(ai + 1, c - 1);
    lbad[ai * c + aj] = off; // above the diagonal
    for (upper, data, expect, why) in [(true, &u, true, "zero below the diagonal"), (true, &ubad, false, "one tiny non-zero entry below the diagonal"), (false, &l, true, "zero above the diagonal"), (false, &lbad, false, "one tiny non-zero entry above the diagonal")] {
        let m = Matrix::new(data.clone(), r as i32, c as i32);
        if upper {
            // tall matrices have rows that lie entirely below the diagonal: a mechanism (and signature) of its own
            let rg = match (expect, r > c) {
                (true, false) => "is_upper_triangular:extreme-entries",
                (true, true) => "is_upper_triangular:extreme-entries:tall",
                (false, false) => "is_upper_triangular:tiny-offender",
                (false, true) => "is_upper_triangular:tiny-offender:tall",
            };
            t.case(rg);
            answer(t, [id!("is_upper_triangular", "no_panic"), id!("is_upper_triangular", "answer")], rg, guard(|| m.is_upper_triangular()), expect, &|| json!({"call": "is_upper_triangular", "shape": [r, c], "data": jf(data), "construction": why}));
        } else {
            let rg = match (expect, r < c) {
                (true, false) => "is_lower_triangular:extreme-entries",
                (true, true) => "is_lower_triangular:extreme-entries:wide",
                (false, false) => "is_lower_triangular:tiny-offender",
                (false, true) => "is_lower_triangular:tiny-offender:wide",
            };
            t.case(rg);
            answer(t, [id!("is_lower_triangular", "no_panic"), id!("is_lower_triangular", "answer")], rg, guard(|| m.is_lower_triangular()), expect, &|| json!({"call": "is_lower_triangular", "shape": [r, c], "data": jf(data), "construction": why}));
        }
    }
}

// ---------------------------------------------------------------------------------------------
// predicates on matrices built from a small set of special values (signs, zeros, near-ones), every
// shape 1..8 x 1..8 in turn; comparisons of operands that are prefixes / extensions / reshapes of
// one another. Random real data never produces an exact −1 next to a +1 or two operands of different
// length that agree on their common part, so these classes are constructed.

const SPECIAL: [f64; 12] = [1.0, -1.0, 0.0, -0.0, 0.5, 2.0, -2.0, 1.001, 0.999, -0.5, 3.0, 1e-3];

fn special(rng: &mut Rng) -> f64 {
    *rng.choose(&SPECIAL)
}

fn predicates_special(t: &mut Tally, rng: &mut Rng, case: usize) {
    // every shape of the quantifier in turn
    let (r, c) = (1 + case % 8, 1 + (case / 8) % 8);
    // --- design matrices: the definition is "every entry of the first column is one"
    {
        let mut d: Vec<f64> = (0..r * c).map(|_| special(rng)).collect();
        let class = rng.usize(0, 3);
        for i in 0..r {
            d[i * c] = match class {
                0 | 1 => 1.0,
                2 => *rng.choose(&[1.0, -1.0]),
                _ => special(rng),
            };
        }
        if class == 1 {
            // exactly one intercept entry replaced by a value that is not one
            d[rng.usize(0, r - 1) * c] = *rng.choose(&[-1.0, 0.0, -0.0, 0.5, 2.0, 1.001, 0.999, -2.0]);
        }
        if class == 2 {
            d[rng.usize(0, r - 1) * c] = -1.0; // at least one sign-flipped intercept
        }
        let first: Vec<f64> = (0..r).map(|i| d[i * c]).collect();
        let expect = first.iter().all(|&v| v == 1.0);
        let regime = if expect {
            "is_design:special:all-ones"
        } else if first.iter().all(|&v| v.abs() == 1.0) {
            "is_design:special:intercepts-of-magnitude-1-with-a-negative-one"
        } else {
            "is_design:special:non-unit-intercept"
        };
        t.case(regime);
        answer(t, [id!("is_design", "no_panic"), id!("is_design", "answer")], regime, guard(|| is_design(&d, r)), expect, &|| json!({"call": format!("is_design(data, {})", r), "shape": [r, c], "data": jf(&d), "first_column": jf(&first)}));
        // the negated matrix is a design matrix only if the original intercept column is all −1
        let neg: Vec<f64> = d.iter().map(|v| -v).collect();
        let nexpect = first.iter().all(|&v| v == -1.0);
        let nregime = if nexpect { "is_design:special:all-ones" } else if first.iter().all(|&v| v.abs() == 1.0) { "is_design:special:intercepts-of-magnitude-1-with-a-negative-one" } else { "is_design:special:non-unit-intercept" };
        t.case(nregime);
        answer(t, [id!("is_design", "no_panic"), id!("is_design", "answer")], nregime, guard(|| is_design(&neg, r)), nexpect, &|| json!({"call": format!("is_design(-data, {})", r), "shape": [r, c], "data": jf(&neg)}));
    }
    // --- triangular structure on this shape: entries from the special set, zeros of either sign count as zero
    {
        let pat = rng.usize(0, 4); // 0 upper, 1 lower, 2 diagonal, 3 upper + one offender, 4 lower + one offender
        let mut a = vec![0.0; r * c];
        for i in 0..r {
            for j in 0..c {
                let keep = match pat {
                    0 | 3 => j >= i,
                    1 | 4 => j <= i,
                    _ => i == j,
                };
                a[i * c + j] = if keep { special(rng) } else if rng.bool() { 0.0 } else { -0.0 };
            }
        }
        let off = *rng.choose(&[1.0, -1.0, 0.5, -2.0, 1e-3, -1e-3]);
        if pat == 3 && r >= 2 {
            let i = rng.usize(1, r - 1);
            let j = rng.usize(0, i.min(c) - 1);
            a[i * c + j] = off;
        }
        if pat == 4 && c >= 2 {
            let i = rng.usize(0, r.min(c - 1) - 1);
            let j = rng.usize(i + 1, c - 1);
            a[i * c + j] = off;
        }
        let upper = (0..r).all(|i| (0..c.min(i)).all(|j| a[i * c + j] == 0.0));
        let lower = (0..r).all(|i| (i + 1..c).all(|j| a[i * c + j] == 0.0));
        let (ru, rl) = if r == c {
            ("is_upper_triangular:special:square", "is_lower_triangular:special:square")
        } else if r > c {
            ("is_upper_triangular:special:tall", "is_lower_triangular:special:tall")
        } else {
            ("is_upper_triangular:special:wide", "is_lower_triangular:special:wide")
        };
        let neg: Vec<f64> = a.iter().map(|v| -v).collect();
        for (data, what) in [(&a, "m"), (&neg, "-m")] {
            let m = Matrix::new(data.clone(), r as i32, c as i32);
            t.case(ru);
            answer(t, [id!("is_upper_triangular", "no_panic"), id!("is_upper_triangular", "answer")], ru, guard(|| m.is_upper_triangular()), upper, &|| json!({"call": format!("({}).is_upper_triangular()", what), "shape": [r, c], "data": jf(data)}));
            t.case(rl);
            answer(t, [id!("is_lower_triangular", "no_panic"), id!("is_lower_triangular", "answer")], rl, guard(|| m.is_lower_triangular()), lower, &|| json!({"call": format!("({}).is_lower_triangular()", what), "shape": [r, c], "data": jf(data)}));
        }
        // the transpose (c x r) is lower triangular exactly when m is upper triangular, and vice versa
        let tr = flat(&mt(&unflat(&a, r, c)));
        let m = Matrix::new(tr.clone(), c as i32, r as i32);
        let (rtu, rtl) = if r == c {
            ("is_upper_triangular:special:square", "is_lower_triangular:special:square")
        } else if c > r {
            ("is_upper_triangular:special:tall", "is_lower_triangular:special:tall")
        } else {
            ("is_upper_triangular:special:wide", "is_lower_triangular:special:wide")
        };
        t.case(rtl);
        answer(t, [id!("is_lower_triangular", "no_panic"), id!("is_lower_triangular", "answer")], rtl, guard(|| m.is_lower_triangular()), upper, &|| json!({"call": "transpose.is_lower_triangular()", "shape": [c, r], "data": jf(&tr)}));
        t.case(rtu);
        answer(t, [id!("is_upper_triangular", "no_panic"), id!("is_upper_triangular", "answer")], rtu, guard(|| m.is_upper_triangular()), lower, &|| json!({"call": "transpose.is_upper_triangular()", "shape": [c, r], "data": jf(&tr)}));
    }
    // --- symmetry (square n = r): special values; negatives differ in sign only, or by 1e-3, in one mirrored pair
    {
        let n = r;
        let mut sy = vec![0.0; n * n];
        for i in 0..n {
            for j in i..n {
                let v = special(rng);
                sy[i * n + j] = v;
                sy[j * n + i] = if v == 0.0 && rng.bool() { -v } else { v }; // +0 / −0 are the same value
            }
        }
        let mut cases: Vec<(&'static str, &'static str, Vec<f64>, bool, &'static str)> = vec![("is_symmetric:special:positive", "is_symmetric(slice):special:positive", sy.clone(), true, "symmetric (mirrored zeros may differ in sign)")];
        if n >= 2 {
            let i = rng.usize(1, n - 1);
            let j = rng.usize(0, i - 1);
            let v = *rng.choose(&[1.0, -1.0, 0.5, 2.0, -2.0, 3.0, 1e-3]);
            let mut flipped = sy.clone();
            flipped[i * n + j] = v;
            flipped[j * n + i] = -v;
            cases.push(("is_symmetric:special:mirrored-pair-of-opposite-sign", "is_symmetric(slice):special:mirrored-pair-of-opposite-sign", flipped, false, "a_ij = -a_ji != 0 in one pair"));
            let mut near = sy.clone();
            near[i * n + j] = v;
            near[j * n + i] = v * 1.001;
            cases.push(("is_symmetric:special:mirrored-pair-differs", "is_symmetric(slice):special:mirrored-pair-differs", near, false, "a_ij = 1.001 a_ji in one pair"));
            // the fully negated symmetric matrix is symmetric
            cases.push(("is_symmetric:special:positive", "is_symmetric(slice):special:positive", sy.iter().map(|v| -v).collect(), true, "negated symmetric matrix"));
        }
        for (rm, rs, data, expect, why) in cases.iter() {
            let m = Matrix::new(data.clone(), n as i32, n as i32);
            t.case(rm);
            answer(t, [id!("is_symmetric", "no_panic"), id!("is_symmetric", "answer")], rm, guard(|| m.is_symmetric()), *expect, &|| json!({"call": "Matrix::is_symmetric", "n": n, "data": jf(data), "construction": why}));
            t.case(rs);
            answer(t, [id!("is_symmetric_slice", "no_panic"), id!("is_symmetric_slice", "answer")], rs, guard(|| is_symmetric(data)), *expect, &|| json!({"call": "is_symmetric(slice)", "n": n, "data": jf(data), "construction": why}));
        }
    }
}

/// operands of different length / shape that agree on everything they have in common
fn comparisons_prefix(t: &mut Tally, rng: &mut Rng) {
    let n = rng.usize(1, 12);
    let extra = rng.usize(1, 3);
    let base: Vec<f64> = match rng.usize(0, 3) {
        0 => vec![*rng.choose(&[0.0, 1.0, -1.0, 2.5]); n + extra], // constant vectors of different length
        1 => (0..n + extra).map(|i| i as f64 * 0.25).collect(),   // grid points: linspace(0,1,5) vs arange(0,1,.25)
        2 => distinct_values(rng, n + extra),
        _ => (0..n + extra).map(|_| special(rng)).collect(),
    };
    let (short, long) = (base[..n].to_vec(), base.clone());
    let (vs, vl) = (Vector::new(short.clone()), Vector::new(long.clone()));
    let tol = rng.log_range(1e-12, 1e-2);
    let d = || json!({"short": jf(&short), "long (short + further elements)": jf(&long)});
    t.case("eq:prefix-extension");
    answer(t, [id!("vec_eq", "no_panic"), id!("vec_eq", "answer")], "eq:prefix-extension", guard(|| vs == vl), false, &|| json!({"call": "short == long", "operands": d()}));
    answer(t, [id!("vec_eq", "no_panic"), id!("vec_eq", "answer")], "eq:prefix-extension", guard(|| vl == vs), false, &|| json!({"call": "long == short", "operands": d()}));
    answer(t, [id!("vec_eq", "no_panic"), id!("vec_eq", "answer")], "eq:prefix-extension", guard(|| !(vs != vl)), false, &|| json!({"call": "!(short != long)", "operands": d()}));
    t.case("close_to:prefix-extension");
    answer(t, [id!("close_to", "no_panic"), id!("close_to", "answer")], "close_to:prefix-extension", guard(|| vs.close_to(&vl, tol)), false, &|| json!({"call": "short.close_to(long, tol)", "operands": d(), "tol": tol}));
    answer(t, [id!("close_to", "no_panic"), id!("close_to", "answer")], "close_to:prefix-extension", guard(|| vl.close_to(&vs, tol)), false, &|| json!({"call": "long.close_to(short, tol)", "operands": d(), "tol": tol}));
    // matrices: a block and its extension by further rows (row-major data in a prefix relation)
    let c = rng.usize(1, 4);
    let (r0, r1) = (rng.usize(1, 4), rng.usize(1, 3));
    let data: Vec<f64> = if rng.bool() { vec![1.5; (r0 + r1) * c] } else { distinct_values(rng, (r0 + r1) * c) };
    let (ms, ml) = (Matrix::new(data[..r0 * c].to_vec(), r0 as i32, c as i32), Matrix::new(data.clone(), (r0 + r1) as i32, c as i32));
    let dm = || json!({"block": jlib(&ms), "block with further rows": jlib(&ml)});
    t.case("mat_eq:prefix-extension");
    answer(t, [id!("mat_eq", "no_panic"), id!("mat_eq", "answer")], "mat_eq:prefix-extension", guard(|| ms == ml), false, &|| json!({"call": "block == extended", "operands": dm()}));
    answer(t, [id!("mat_eq", "no_panic"), id!("mat_eq", "answer")], "mat_eq:prefix-extension", guard(|| ml == ms), false, &|| json!({"call": "extended == block", "operands": dm()}));
    t.case("mat_close_to:prefix-extension");
    answer(t, [id!("mat_close_to", "no_panic"), id!("mat_close_to", "answer")], "mat_close_to:prefix-extension", guard(|| ms.close_to(&ml, tol)), false, &|| json!({"call": "block.close_to(extended, tol)", "operands": dm()}));
    answer(t, [id!("mat_close_to", "no_panic"), id!("mat_close_to", "answer")], "mat_close_to:prefix-extension", guard(|| ml.close_to(&ms, tol)), false, &|| json!({"call": "extended.close_to(block, tol)", "operands": dm()}));
    // equal data, different shape: every pair of distinct factorisations of the length (2x3, 3x2, 1x6, 6x1, ...)
    let len = *rng.choose(&[2usize, 3, 4, 6, 8, 9, 12, 16, 24, 36, 64]);
    let shapes: Vec<(usize, usize)> = (1..=len).filter(|k| len % k == 0 && *k <= 64 && len / k <= 64).map(|k| (k, len / k)).collect();
    let data: Vec<f64> = if rng.chance(0.3) { vec![-2.0; len] } else { distinct_values(rng, len) };
    let (i, mut j) = (rng.usize(0, shapes.len() - 1), rng.usize(0, shapes.len() - 1));
    if i == j {
        j = (j + 1) % shapes.len();
    }
    let (sa, sb) = (shapes[i], shapes[j]);
    let (ma, mb) = (Matrix::new(data.clone(), sa.0 as i32, sa.1 as i32), Matrix::new(data.clone(), sb.0 as i32, sb.1 as i32));
    let what = |op: &str| json!(format!("the same {} values as {}x{} and as {}x{}: {}", len, sa.0, sa.1, sb.0, sb.1, op));
    t.case("mat_eq:same-data-different-shape");
    answer(t, [id!("mat_eq", "no_panic"), id!("mat_eq", "answer")], "mat_eq:same-data-different-shape", guard(|| ma == mb), false, &|| what("=="));
    t.case("mat_close_to:same-data-different-shape");
    answer(t, [id!("mat_close_to", "no_panic"), id!("mat_close_to", "answer")], "mat_close_to:same-data-different-shape", guard(|| ma.close_to(&mb, tol)), false, &|| what("close_to"));
    // and the positive control: the same shape and data compare equal / close
    let mc = Matrix::new(data.clone(), sa.0 as i32, sa.1 as i32);
    t.case("mat_eq:same-data-same-shape");
    answer(t, [id!("mat_eq", "no_panic"), id!("mat_eq", "answer")], "mat_eq:same-data-same-shape", guard(|| ma == mc), true, &|| what("== (same shape)"));
    answer(t, [id!("mat_close_to", "no_panic"), id!("mat_close_to", "answer")], "mat_eq:same-data-same-shape", guard(|| ma.close_to(&mc, tol)), true, &|| what("close_to (same shape)"));
}

const SPECIAL_REGIMES: [&str; 19] = [
    "is_design:special:all-ones", "is_design:special:intercepts-of-magnitude-1-with-a-negative-one", "is_design:special:non-unit-intercept",
    "is_upper_triangular:special:square", "is_upper_triangular:special:tall", "is_upper_triangular:special:wide",
    "is_lower_triangular:special:square", "is_lower_triangular:special:tall", "is_lower_triangular:special:wide",
    "is_symmetric:special:positive", "is_symmetric:special:mirrored-pair-of-opposite-sign", "is_symmetric:special:mirrored-pair-differs",
    "eq:prefix-extension", "close_to:prefix-extension", "mat_eq:prefix-extension", "mat_close_to:prefix-extension",
    "mat_eq:same-data-different-shape", "mat_close_to:same-data-different-shape", "mat_eq:same-data-same-shape",
];

/// regimes of the extreme-magnitude comparisons that every native run must reach
const EXTREME_REGIMES: [&str; 17] = [
    "close_to:opposite-sign:|x|<1e-150", "close_to:opposite-sign:1e-150..1e150", "close_to:opposite-sign:|x|>1e150",
    "mat_close_to:opposite-sign:|x|<1e-150", "mat_close_to:opposite-sign:|x|>1e150",
    "close_to:near:|x|<1e-150", "close_to:near:|x|>1e150", "close_to:identical:|x|<1e-150", "close_to:identical:|x|>1e150", "close_to:far:|x|<1e-150", "close_to:far:|x|>1e150",
    "close_to:signed-zeros", "eq:signed-zeros", "eq:opposite-sign:2e-13..1e300", "eq:identical:1e-300..1e300",
    "is_symmetric:negative:|x|<1e-150", "is_upper_triangular:tiny-offender",
];

const PROGRAM_REGIMES: [&str; 62] = [
    "t", "t_mut", "reshape:explicit", "reshape:infer-dividing", "reshape:infer-nondividing", "reshape:explicit-mismatch", "reshape:invalid-args",
    "reshape_mut:explicit", "reshape_mut:infer-dividing", "reshape_mut:infer-nondividing", "reshape_mut:explicit-mismatch", "reshape_mut:invalid-args",
    "hcat:matching", "hcat:mismatched", "vcat:matching", "vcat:mismatched", "hrepeat", "vrepeat",
    "get_row:in-range", "get_row:out-of-range", "get_col:in-range", "get_col:out-of-range",
    "apply_row:in-range", "apply_row:out-of-range", "apply_col:in-range", "apply_col:out-of-range",
    "flat_idx:in-range", "flat_idx:out-of-range", "flat_idx_replace:in-range", "flat_idx_replace:out-of-range",
    "index2:in-range", "index2:out-of-range", "index2_write:in-range", "index2_write:out-of-range",
    "row_index:in-range", "row_index:out-of-range", "row_index_write:in-range", "row_index_write:out-of-range",
    "diag:square", "diag:tall", "diag:wide", "to_vec.to_matrix",
    "vec_reshape:explicit", "vec_reshape:infer-dividing", "vec_reshape:infer-nondividing", "vec_reshape:explicit-mismatch", "vec_reshape:invalid-args",
    "new:explicit", "new:infer-dividing", "new:infer-nondividing", "new:explicit-mismatch", "new:invalid-args",
    "row_to_col_major", "col_to_row_major", "accessors", "transpose(slice)", "program",
    "eye", "zeros", "ones", "with_shape", "empty_n",
];
/// rejection probes (stream 5): reached by every run, the Miri smoke run included
const REJECT_REGIMES: [&str; 12] = [
    "reject:design:ragged", "reject:row_to_col_major:non-dividing", "reject:col_to_row_major:non-dividing", "reject:transpose(slice):non-dividing",
    "reject:diag(slice):non-square", "nonmatrix:is_design", "nonmatrix:is_symmetric(slice)",
    "reject:Matrix::new:sizes<=64", "reject:Vector::reshape:sizes<=64", "reject:then-use",
    "reject:reshape_mut:sizes<=64", "reject:reshape:sizes<=64",
];
const OTHER_REGIMES: [&str; 33] = [
    "diag_matrix", "diag(slice)", "toeplitz", "vandermonde", "design", "linspace:num=1", "linspace:num=2", "linspace:num>=3",
    "arange:empty", "arange:frac∈[.05,.95]", "arange:near-integer", "rotation:X", "rotation:Y", "rotation:Z",
    "is_square", "is_square(slice)", "is_matrix(slice)", "is_symmetric:positive", "is_symmetric:negative", "is_symmetric:non-square",
    "is_upper_triangular:square", "is_upper_triangular:wide", "is_upper_triangular:tall", "is_lower_triangular:square", "is_design:positive", "is_design:negative",
    "close_to:identical", "close_to:near", "close_to:far", "close_to:opposite-sign", "eq:identical", "eq:opposite-sign", "mat_eq:shape-mismatch",
];

pub fn run(cfg: &Cfg, rep: &mut Report) {
    rep.rule = "random programs of 1..40 structural operations (30 kinds, ~60 regimes incl. the must-panic variants, after which the surviving object must equal the unchanged model and is used on) over matrices that start at 1..8 x 1..8 with pairwise distinct entries, \
                run in lock-step with a Vec<Vec<f64>> model (Miri smoke: 300 programs of 1..3 operations); constructors at sizes 1..64 with real start/stop/step and angles in +-4pi x 3 axes; rejection probes (ragged design block, non-dividing row counts for the layout conversions and the slice transpose, non-square diag, Matrix::new / Vector::reshape / reshape / reshape_mut / hcat / vcat with inconsistent sizes up to 64 x 64, three rejected calls in a row on one object which is then transposed); \
                predicates and comparisons on constructed positives/negatives, on special-value matrices (signs, zeros, near-ones) over every shape 1..8 x 1..8, on prefix/extension and reshaped operands, and on values at the ends of the f64 range (magnitudes 5e-324..1.8e308 in three bands, signed zeros: opposite-sign / identical / near / far pairs for close_to and ==, symmetric and triangular predicates). non-trivial program = at least 3 shape-changing operations; distinct by hash of (start shape, operation codes, intermediate shapes)"
        .into();
    rep.assume("concatenation / repetition is only applied while the result stays within 8 rows and 8 columns (reshape may produce any factorisation of at most 64 elements)");
    rep.assume("zero-sized matrices are outside the quantifier (1..8 rows/columns, sizes 1..64): Matrix::zeros(0, n), hrepeat(0), linspace(a, b, 0) are not exercised");
    rep.assume("Matrix::with_shape / Vector::empty_n return garbage by contract: only nrows, ncols and data.len() are inspected, the contents are never read");
    rep.assume("predicates are decided on clear positives/negatives (asymmetry or deviation >= 1e-3 * scale); comparisons on pairs that are identical, within tol/10, beyond 10*tol, or of opposite sign with magnitudes >= 1e3 * tol");
    rep.assume("extreme-magnitude comparisons: close_to is relative (rel_diff), so non-zero values of opposite sign must be reported not close at every magnitude 5e-324..1.8e308 and every tol in 1e-12..1e-2; +0.0/-0.0 are equal; same-sign pairs within tol/10 (normal numbers 1e-290..1e300) must be reported close. `==` is absolute (|x-y| <= f64::EPSILON): opposite signs are asserted for magnitudes >= 1e3*EPSILON only (below that the definition itself equates them, e.g. [1e-300] == [-1e-300])");
    rep.assume("special-value predicates: entries from {1, -1, 0, -0, 0.5, 2, -2, 1.001, 0.999, -0.5, 3, 1e-3}; a design matrix has every first-column entry equal to one (so -1, 0, 1 +- 1e-3 are not), zeros of either sign are zero for the triangular predicates, a mirrored pair (v, -v) or (v, 1.001 v) breaks symmetry; operands of different length or shape are never equal / close even when all common elements agree");
    rep.assume("a call that the model rejects (and that panics) is a step of the program: the model is unchanged by it, so the library object that survives the panic must still equal the model (shape, every element, rows*cols == len) and the program continues on that very object; it is rebuilt from the model only after a failed assertion");
    rep.assume("rejection probes: a block of len values has no layout with `rows` rows when rows does not divide len (design, row_to_col_major, col_to_row_major, transpose(slice), Matrix::new, Vector::reshape, reshape, reshape_mut), a slice of non-square length has no diagonal, blocks with different row (column) counts cannot be concatenated: a returned value is the violation. For is_design / is_symmetric on such slices a panic or `false` are both accepted, `true` is not");
    rep.assume("arange: the exact ratio (stop-start)/step is evaluated in double-double; the point count is only pinned (= ceil) when its fractional part lies in [0.05, 0.95]");
    let lean = cfg.miri();
    let n_prog = cfg.pick(2000, 50000, 300);
    // memcheck / ASan (native lite): enough constructor cases to reach every class
    let n_ctor = if cfg.lite && !cfg.miri() { 120 } else { cfg.pick(600, 12000, 3) };
    let maxn = if cfg.miri() { 5 } else { 64 };
    let n_xcmp = if cfg.lite { 60 } else { cfg.pick(1500, 30000, 60) };
    let n_special = if cfg.lite { 128 } else { cfg.pick(1920, 38400, 128) }; // multiples of the 64 shapes
    if cfg.miri() {
        // eight cases (spread over the Miri shard processes by the driver), each with one tally and one
        // flush (every `Report` map operation costs ~10 ms under Miri)
        const MIRI_CASES: usize = 8;
        par_cases(cfg, rep, 1, MIRI_CASES, |i, rng, rep| {
            let mut t = Tally::new(lean);
            for _ in 0..(n_prog + MIRI_CASES - 1) / MIRI_CASES {
                let len = rng.usize(1, 3);
                program(&mut t, rng, len);
            }
            if i < n_ctor {
                constructors(&mut t, rng, maxn);
                predicates(&mut t, rng, maxn);
                comparisons(&mut t, rng, maxn);
                comparisons_extreme(&mut t, rng);
                predicates_extreme(&mut t, rng);
            }
            if i < 6 {
                predicates_special(&mut t, rng, 9 * i + 1);
                comparisons_prefix(&mut t, rng);
            } else {
                // rejection probes: a panic costs ~0.1 s in the interpreter, two rounds (about 20 panics)
                rejections(&mut t, rng, maxn);
            }
            t.flush(rep);
        });
    } else {
        par_cases(cfg, rep, 1, n_prog, |_i, rng, rep| {
            let mut t = Tally::new(lean);
            let len = rng.usize(1, 40);
            program(&mut t, rng, len);
            t.flush(rep);
        });
        par_cases(cfg, rep, 2, n_ctor, |i, rng, rep| {
            let mut t = Tally::new(lean);
            // every third case stays at the program sizes (1..8), the rest goes up to 64
            let m = if i % 3 == 0 { 8 } else { maxn };
            constructors(&mut t, rng, m);
            predicates(&mut t, rng, m.min(24));
            comparisons(&mut t, rng, m);
            t.flush(rep);
        });
        // comparisons and predicates across extreme magnitudes
        par_cases(cfg, rep, 3, n_xcmp, |_i, rng, rep| {
            let mut t = Tally::new(lean);
            comparisons_extreme(&mut t, rng);
            predicates_extreme(&mut t, rng);
            t.flush(rep);
        });
        // predicates on special-value matrices (every shape 1..8 x 1..8 in turn), prefix / reshape comparisons
        par_cases(cfg, rep, 4, n_special, |i, rng, rep| {
            let mut t = Tally::new(lean);
            predicates_special(&mut t, rng, i);
            comparisons_prefix(&mut t, rng);
            t.flush(rep);
        });
        // rejection probes for every size-taking constructor / conversion (stream 5)
        let n_rej = if cfg.lite { 60 } else { cfg.pick(600, 12000, 60) };
        par_cases(cfg, rep, 5, n_rej, |i, rng, rep| {
            let mut t = Tally::new(lean);
            rejections(&mut t, rng, if i % 3 == 0 { 8 } else { maxn });
            t.flush(rep);
        });
        for r in EXTREME_REGIMES.iter().chain(SPECIAL_REGIMES.iter()) {
            rep.require(r, 1);
        }
    }
    for r in REJECT_REGIMES.iter() {
        rep.require(r, 1);
    }
    if !cfg.miri() {
        rep.require("reject:hcat:sizes<=64", 1);
        rep.require("reject:vcat:sizes<=64", 1);
    }
    for r in PROGRAM_REGIMES.iter().chain(OTHER_REGIMES.iter()) {
        if cfg.miri()
            && (r.contains("invalid-args") || r.contains("mismatch") || r.contains("out-of-range") || r.contains("nondividing") || r.contains("triangular:") || r.contains("is_symmetric:non-square")
                || ["arange:", "linspace:", "vec_reshape:", "new:", "diag:", "is_", "close_to:", "eq:", "mat_eq:"].iter().any(|p| r.starts_with(p)))
        {
            continue; // the smoke run (about 600 operations, 3 constructor cases) cannot be sure to reach the rare classes
        }
        rep.require(r, 1);
    }
}
