//! C04 — element-wise arithmetic and maps are exact at every length and operand form; reductions
//! stay within their rounding bound (DESIGN §3 C04).
//!
//! Events: every operator impl / map / reduction call (value or panic) on Vector and Matrix.
//! Oracle: the same scalar `std` operation applied position by position, compared bit for bit;
//! reductions against double-double references with a-priori γ_n bounds. The memory half of the
//! property ("every output slot written") is decided by running this same workload under Miri and
//! valgrind memcheck (`cfg.lite`): every element of every result is read here.
use crate::gen::{distinct_vec, Rng};
use crate::oracle::dd::{self, gamma_n, Dd};
use crate::report::{guard, jf, jnum, par_cases, same_bits, same_bits_slice, Cfg, Hasher, Report};
use compute::linalg::{dot, inf_norm, logmeanexp, logsumexp, matmatadd, matmatdiv, matmatmul, matmatsub, norm, prod, sum, Matrix, Vector};
use serde_json::{json, Value};
use std::hint::black_box;

fn sc(op: char, a: f64, b: f64) -> f64 {
    match op {
        '+' => a + b,
        '-' => a - b,
        '*' => a * b,
        _ => a / b,
    }
}

// ---------------------------------------------------------------------------------------------
// operator tables (one entry per `impl`)

type VV = (&'static str, char, fn(&Vector, &Vector) -> Vector);
type VS = (&'static str, char, bool, fn(&Vector, f64) -> Vector); // bool = scalar on the left
type VA = (&'static str, char, fn(&mut Vector, &Vector));
type VAS = (&'static str, char, fn(&mut Vector, f64));
type MM = (&'static str, char, fn(&Matrix, &Matrix) -> Matrix);
type MS = (&'static str, char, bool, fn(&Matrix, f64) -> Matrix);
type MA = (&'static str, char, fn(&mut Matrix, &Matrix));
type MAS = (&'static str, char, fn(&mut Matrix, f64));

macro_rules! bin_table {
    ($t:ty) => {
        [
            ("owned+owned", '+', |a: &$t, b: &$t| a.clone() + b.clone()),
            ("owned+ref", '+', |a: &$t, b: &$t| a.clone() + b),
            ("ref+owned", '+', |a: &$t, b: &$t| a + b.clone()),
            ("ref+ref", '+', |a: &$t, b: &$t| a + b),
            ("owned-owned", '-', |a: &$t, b: &$t| a.clone() - b.clone()),
            ("owned-ref", '-', |a: &$t, b: &$t| a.clone() - b),
            ("ref-owned", '-', |a: &$t, b: &$t| a - b.clone()),
            ("ref-ref", '-', |a: &$t, b: &$t| a - b),
            ("owned*owned", '*', |a: &$t, b: &$t| a.clone() * b.clone()),
            ("owned*ref", '*', |a: &$t, b: &$t| a.clone() * b),
            ("ref*owned", '*', |a: &$t, b: &$t| a * b.clone()),
            ("ref*ref", '*', |a: &$t, b: &$t| a * b),
            ("owned/owned", '/', |a: &$t, b: &$t| a.clone() / b.clone()),
            ("owned/ref", '/', |a: &$t, b: &$t| a.clone() / b),
            ("ref/owned", '/', |a: &$t, b: &$t| a / b.clone()),
            ("ref/ref", '/', |a: &$t, b: &$t| a / b),
        ]
    };
}
macro_rules! scalar_table {
    ($t:ty) => {
        [
            ("owned+s", '+', false, |a: &$t, s: f64| a.clone() + s),
            ("ref+s", '+', false, |a: &$t, s: f64| a + s),
            ("s+owned", '+', true, |a: &$t, s: f64| s + a.clone()),
            ("s+ref", '+', true, |a: &$t, s: f64| s + a),
            ("owned-s", '-', false, |a: &$t, s: f64| a.clone() - s),
            ("ref-s", '-', false, |a: &$t, s: f64| a - s),
            ("s-owned", '-', true, |a: &$t, s: f64| s - a.clone()),
            ("s-ref", '-', true, |a: &$t, s: f64| s - a),
            ("owned*s", '*', false, |a: &$t, s: f64| a.clone() * s),
            ("ref*s", '*', false, |a: &$t, s: f64| a * s),
            ("s*owned", '*', true, |a: &$t, s: f64| s * a.clone()),
            ("s*ref", '*', true, |a: &$t, s: f64| s * a),
            ("owned/s", '/', false, |a: &$t, s: f64| a.clone() / s),
            ("ref/s", '/', false, |a: &$t, s: f64| a / s),
            ("s/owned", '/', true, |a: &$t, s: f64| s / a.clone()),
            ("s/ref", '/', true, |a: &$t, s: f64| s / a),
        ]
    };
}
macro_rules! assign_table {
    ($t:ty) => {
        [
            ("+=owned", '+', |a: &mut $t, b: &$t| *a += b.clone()),
            ("+=ref", '+', |a: &mut $t, b: &$t| *a += b),
            ("-=owned", '-', |a: &mut $t, b: &$t| *a -= b.clone()),
            ("-=ref", '-', |a: &mut $t, b: &$t| *a -= b),
            ("*=owned", '*', |a: &mut $t, b: &$t| *a *= b.clone()),
            ("*=ref", '*', |a: &mut $t, b: &$t| *a *= b),
            ("/=owned", '/', |a: &mut $t, b: &$t| *a /= b.clone()),
            ("/=ref", '/', |a: &mut $t, b: &$t| *a /= b),
        ]
    };
}
macro_rules! assign_scalar_table {
    ($t:ty) => {
        [
            ("+=s", '+', |a: &mut $t, s: f64| *a += s),
            ("-=s", '-', |a: &mut $t, s: f64| *a -= s),
            ("*=s", '*', |a: &mut $t, s: f64| *a *= s),
            ("/=s", '/', |a: &mut $t, s: f64| *a /= s),
        ]
    };
}

static V_VV: [VV; 16] = bin_table!(Vector);
static V_VS: [VS; 16] = scalar_table!(Vector);
static V_VA: [VA; 8] = assign_table!(Vector);
static V_VAS: [VAS; 4] = assign_scalar_table!(Vector);
static M_MM: [MM; 16] = bin_table!(Matrix);
static M_MS: [MS; 16] = scalar_table!(Matrix);
static M_MA: [MA; 8] = assign_table!(Matrix);
static M_MAS: [MAS; 4] = assign_scalar_table!(Matrix);
static M_FN: [MM; 4] = [
    ("matmatadd", '+', |a: &Matrix, b: &Matrix| matmatadd(a, b)),
    ("matmatsub", '-', |a: &Matrix, b: &Matrix| matmatsub(a, b)),
    ("matmatmul", '*', |a: &Matrix, b: &Matrix| matmatmul(a, b)),
    ("matmatdiv", '/', |a: &Matrix, b: &Matrix| matmatdiv(a, b)),
];

type Map = (&'static str, fn(f64) -> f64, fn(&Vector) -> Vector, fn(&Matrix) -> Matrix);
macro_rules! maps {
    ($($m:ident),+) => { [ $( (stringify!($m), |x: f64| x.$m(), |v: &Vector| v.$m(), |m: &Matrix| m.$m()) ),+ ] };
}
static MAPS: [Map; 29] = maps!(
    ln, ln_1p, log10, log2, exp, exp2, exp_m1, sin, cos, tan, sinh, cosh, tanh, asin, acos, atan, asinh, acosh, atanh, sqrt, cbrt, abs, floor,
    ceil, to_radians, to_degrees, recip, round, signum
);
const POWI: [i32; 8] = [-2, -1, 0, 1, 2, 3, 4, 7];
const POWF: [f64; 4] = [-1.5, 0.5, 2.0, 3.0];
/// further exponents natively (values an implementation might special-case: ±1/2, ±1, 0, −2, 1/3)
const POWF_EXTRA: [f64; 7] = [-0.5, 1.0, -1.0, 0.0, -2.0, 1.0 / 3.0, 1.5];

// ---------------------------------------------------------------------------------------------

fn len_class(n: usize) -> &'static str {
    if n == 0 {
        "len=0"
    } else if n % 8 == 0 {
        "len%8=0"
    } else if n < 8 {
        "len<8"
    } else {
        "len%8!=0"
    }
}

/// Split n into a matrix shape; n == 0 → None (the empty matrix).
fn shape_for(rng: &mut Rng, n: usize) -> Option<(usize, usize)> {
    if n == 0 {
        return None;
    }
    let divs: Vec<usize> = (1..=n).filter(|d| n % d == 0).collect();
    let r = *rng.choose(&divs);
    Some((r, n / r))
}
fn mk_matrix(data: &[f64], shape: Option<(usize, usize)>) -> Matrix {
    match shape {
        None => Matrix::empty(),
        Some((r, c)) => Matrix::new(data.to_vec(), r as i32, c as i32),
    }
}

struct Ctx<'a> {
    rep: &'a mut Report,
    n: usize,
    /// regime strings are formatted once per (container, family): formatting costs ms under Miri
    cache: Vec<(&'static str, &'static str, String)>,
}

impl<'a> Ctx<'a> {
    fn regime(&mut self, cont: &'static str, family: &'static str) -> String {
        if let Some(e) = self.cache.iter().find(|e| e.0 == cont && e.1 == family) {
            return e.2.clone();
        }
        let r = if cont == "Matrix" && self.n == 0 {
            format!("{}:{}:empty", cont, family)
        } else {
            format!("{}:{}:{}", cont, family, len_class(self.n))
        };
        self.cache.push((cont, family, r.clone()));
        r
    }
    /// Common verdict on one value-returning call.
    fn value(&mut self, cont: &'static str, family: &'static str, impl_name: &str, got: Result<(Vec<f64>, Option<[usize; 2]>), String>, expect: &[f64], shape: Option<[usize; 2]>, inputs: impl Fn() -> Value) {
        let regime = self.regime(cont, family);
        self.rep.case(&regime);
        self.rep.distinct(Hasher::new().s(cont).s(family).s(impl_name).u(self.n as u64).finish(), self.n >= 1);
        match got {
            Err(msg) => {
                self.rep.check("C04.value.no_panic", &regime, false, || json!({"impl": format!("{} {}", cont, impl_name), "len": self.n, "panic": msg, "inputs": inputs()}));
            }
            Ok((data, gshape)) => {
                self.rep.check("C04.value.no_panic", &regime, true, || json!(null));
                self.rep.check("C04.value.length", &regime, data.len() == expect.len(), || {
                    json!({"impl": format!("{} {}", cont, impl_name), "len": self.n, "got_len": data.len(), "inputs": inputs()})
                });
                if let (Some(s), Some(g)) = (shape, gshape) {
                    self.rep.check("C04.value.shape", &regime, s == g, || json!({"impl": format!("{} {}", cont, impl_name), "expected_shape": s, "got_shape": g, "inputs": inputs()}));
                }
                if data.len() == expect.len() {
                    let ok = same_bits_slice(&data, expect);
                    self.rep.check("C04.value.bits", &regime, ok, || {
                        let pos = data.iter().zip(expect).position(|(a, b)| !same_bits(*a, *b));
                        json!({"impl": format!("{} {}", cont, impl_name), "len": self.n, "first_bad_index": pos, "observed": jf(&data), "expected": jf(expect), "inputs": inputs()})
                    });
                }
            }
        }
    }
    fn unchanged(&mut self, cont: &'static str, family: &'static str, impl_name: &str, now: &[f64], before: &[f64]) {
        let regime = self.regime(cont, family);
        self.rep.check("C04.operand_unchanged", &regime, same_bits_slice(now, before), || json!({"impl": format!("{} {}", cont, impl_name), "before": jf(before), "after": jf(now)}));
    }
    fn must_panic(&mut self, cont: &str, family: &str, impl_name: &str, got: Result<Vec<f64>, String>, what: Value) {
        let regime = format!("{}:{}:mismatch", cont, family);
        self.rep.case(&regime);
        self.rep.check("C04.mismatch.panics", &regime, got.is_err(), || json!({"impl": format!("{} {}", cont, impl_name), "case": what, "returned": got.as_ref().ok().map(|d| jf(d))}));
    }
}

fn elementwise(cfg: &Cfg, rng: &mut Rng, rep: &mut Report, n: usize, mismatch: bool) {
    let a = distinct_vec(rng, n, true);
    let b = distinct_vec(rng, n, true);
    let s = if rng.chance(0.2) { *rng.choose(crate::gen::SPECIALS) } else { rng.range(-5.0, 5.0) };
    let va = Vector::new(a.clone());
    let vb = Vector::new(b.clone());
    let shape = shape_for(rng, n);
    let ma = mk_matrix(&a, shape);
    let mb = mk_matrix(&b, shape);
    let mshape = Some(shape.map(|(r, c)| [r, c]).unwrap_or([0, 0]));
    let mut cx = Ctx { rep, n, cache: Vec::new() };
    let inp2 = || json!({"a": jf(&a), "b": jf(&b), "matrix_shape": mshape});
    let inp1 = || json!({"a": jf(&a), "scalar": jnum(s), "matrix_shape": mshape});

    // --- Vector ∘ Vector, Matrix ∘ Matrix
    for (name, op, f) in V_VV.iter() {
        let exp: Vec<f64> = a.iter().zip(&b).map(|(x, y)| sc(*op, *x, *y)).collect();
        let got = guard(|| f(&va, &vb)).map(|v| (v.v.clone(), None));
        cx.value("Vector", "vv", name, got, &exp, None, inp2);
        cx.unchanged("Vector", "vv", name, &va.v, &a);
        cx.unchanged("Vector", "vv", name, &vb.v, &b);
    }
    for (tbl, fam) in [(&M_MM[..], "vv"), (&M_FN[..], "matfn")] {
        for (name, op, f) in tbl.iter() {
            let exp: Vec<f64> = a.iter().zip(&b).map(|(x, y)| sc(*op, *x, *y)).collect();
            let got = guard(|| f(&ma, &mb)).map(|m| (m.data.v.clone(), Some([m.nrows, m.ncols])));
            cx.value("Matrix", fam, name, got, &exp, mshape, inp2);
            cx.unchanged("Matrix", fam, name, &ma.data.v, &a);
            cx.unchanged("Matrix", fam, name, &mb.data.v, &b);
        }
    }
    // --- scalar forms
    for (name, op, left, f) in V_VS.iter() {
        let exp: Vec<f64> = a.iter().map(|x| if *left { sc(*op, s, *x) } else { sc(*op, *x, s) }).collect();
        let fam = if *left { "scalar-left" } else { "scalar-right" };
        let got = guard(|| f(&va, s)).map(|v| (v.v.clone(), None));
        cx.value("Vector", fam, name, got, &exp, None, inp1);
        cx.unchanged("Vector", fam, name, &va.v, &a);
    }
    for (name, op, left, f) in M_MS.iter() {
        let exp: Vec<f64> = a.iter().map(|x| if *left { sc(*op, s, *x) } else { sc(*op, *x, s) }).collect();
        let fam = if *left { "scalar-left" } else { "scalar-right" };
        let got = guard(|| f(&ma, s)).map(|m| (m.data.v.clone(), Some([m.nrows, m.ncols])));
        cx.value("Matrix", fam, name, got, &exp, mshape, inp1);
        cx.unchanged("Matrix", fam, name, &ma.data.v, &a);
    }
    // --- compound assignment
    for (name, op, f) in V_VA.iter() {
        let exp: Vec<f64> = a.iter().zip(&b).map(|(x, y)| sc(*op, *x, *y)).collect();
        let mut t = va.clone();
        let got = guard(|| {
            f(&mut t, &vb);
        })
        .map(|_| (t.v.clone(), None));
        cx.value("Vector", "assign", name, got, &exp, None, inp2);
        cx.unchanged("Vector", "assign", name, &vb.v, &b);
    }
    for (name, op, f) in V_VAS.iter() {
        let exp: Vec<f64> = a.iter().map(|x| sc(*op, *x, s)).collect();
        let mut t = va.clone();
        let got = guard(|| {
            f(&mut t, s);
        })
        .map(|_| (t.v.clone(), None));
        cx.value("Vector", "assign-scalar", name, got, &exp, None, inp1);
    }
    for (name, op, f) in M_MA.iter() {
        let exp: Vec<f64> = a.iter().zip(&b).map(|(x, y)| sc(*op, *x, *y)).collect();
        let mut t = ma.clone();
        let got = guard(|| {
            f(&mut t, &mb);
        })
        .map(|_| (t.data.v.clone(), Some([t.nrows, t.ncols])));
        cx.value("Matrix", "assign", name, got, &exp, mshape, inp2);
        cx.unchanged("Matrix", "assign", name, &mb.data.v, &b);
    }
    for (name, op, f) in M_MAS.iter() {
        let exp: Vec<f64> = a.iter().map(|x| sc(*op, *x, s)).collect();
        let mut t = ma.clone();
        let got = guard(|| {
            f(&mut t, s);
        })
        .map(|_| (t.data.v.clone(), Some([t.nrows, t.ncols])));
        cx.value("Matrix", "assign-scalar", name, got, &exp, mshape, inp1);
    }
    // --- negation
    {
        let exp: Vec<f64> = a.iter().map(|x| -*x).collect();
        let got = guard(|| -va.clone()).map(|v| (v.v.clone(), None));
        cx.value("Vector", "neg", "neg", got, &exp, None, inp2);
        let got = guard(|| -ma.clone()).map(|m| (m.data.v.clone(), Some([m.nrows, m.ncols])));
        cx.value("Matrix", "neg", "neg", got, &exp, mshape, inp2);
    }
    // --- maps
    for (name, sf, vf, mf) in MAPS.iter() {
        let exp: Vec<f64> = a.iter().map(|x| sf(*x)).collect();
        let got = guard(|| vf(&va)).map(|v| (v.v.clone(), None));
        cx.value("Vector", "map", name, got, &exp, None, inp2);
        cx.unchanged("Vector", "map", name, &va.v, &a);
        let got = guard(|| mf(&ma)).map(|m| (m.data.v.clone(), Some([m.nrows, m.ncols])));
        cx.value("Matrix", "map", name, got, &exp, mshape, inp2);
        cx.unchanged("Matrix", "map", name, &ma.data.v, &a);
    }
    for &e in POWI.iter() {
        let e = black_box(e);
        // `powi` is not an IEEE operation; the runtime-exponent `f64::powi` is the scalar operation.
        // x*x (e=2) and x*x*x (e=3) are bit-identical to it (repeated squaring) and are what the
        // kernels use inside full chunks.
        let exp: Vec<f64> = a.iter().map(|x| x.powi(e)).collect();
        let name = format!("powi({})", e);
        let got = guard(|| va.powi(e)).map(|v| (v.v.clone(), None));
        cx.value("Vector", "powi", &name, got, &exp, None, inp2);
        let got = guard(|| ma.powi(e)).map(|m| (m.data.v.clone(), Some([m.nrows, m.ncols])));
        cx.value("Matrix", "powi", &name, got, &exp, mshape, inp2);
    }
    let extra: &[f64] = if cfg.miri() { &[] } else { &POWF_EXTRA };
    for &e in POWF.iter().chain(extra.iter()) {
        let e = black_box(e);
        let exp: Vec<f64> = a.iter().map(|x| x.powf(e)).collect();
        let name = format!("powf({})", e);
        let got = guard(|| va.powf(e)).map(|v| (v.v.clone(), None));
        cx.value("Vector", "powf", &name, got, &exp, None, inp2);
        let got = guard(|| ma.powf(e)).map(|m| (m.data.v.clone(), Some([m.nrows, m.ncols])));
        cx.value("Matrix", "powf", &name, got, &exp, mshape, inp2);
    }

    // --- mismatched lengths / shapes must panic
    if mismatch {
        let k = if cfg.miri() { 2 } else { 16 };
        let delta = if rng.bool() || n == 0 { 1 } else { n - rng.usize(0, n - 1) }; // other length n+1 or shorter
        let other_len = if delta == 1 { n + 1 } else { n - delta.min(n) };
        let vb2 = Vector::new(distinct_vec(rng, other_len, false));
        for (name, _op, f) in V_VV.iter().take(k) {
            let got = guard(|| f(&va, &vb2)).map(|v| v.v.clone());
            cx.must_panic("Vector", "vv", name, got, json!({"left_len": n, "right_len": other_len}));
        }
        for (name, _op, f) in V_VA.iter().take(k) {
            let mut t = va.clone();
            let got = guard(|| {
                f(&mut t, &vb2);
            })
            .map(|_| t.v.clone());
            cx.must_panic("Vector", "assign", name, got, json!({"left_len": n, "right_len": other_len}));
        }
        // matrices: same element count, different shape, both dimensions > 1 on each side (so that
        // NumPy broadcasting — C12 — does not apply); and assignment with any differing shape.
        if let Some((r, c)) = shape {
            if r != c && r > 1 && c > 1 {
                let mb2 = Matrix::new(b.clone(), c as i32, r as i32);
                for (tbl, fam) in [(&M_MM[..], "vv"), (&M_FN[..], "matfn")] {
                    for (name, _op, f) in tbl.iter().take(k) {
                        let got = guard(|| f(&ma, &mb2)).map(|m| m.data.v.clone());
                        cx.must_panic("Matrix", fam, name, got, json!({"left_shape": [r, c], "right_shape": [c, r]}));
                    }
                }
            }
            if r != c {
                let mb2 = Matrix::new(b.clone(), c as i32, r as i32);
                for (name, _op, f) in M_MA.iter().take(k) {
                    let mut t = ma.clone();
                    let got = guard(|| {
                        f(&mut t, &mb2);
                    })
                    .map(|_| t.data.v.clone());
                    cx.must_panic("Matrix", "assign", name, got, json!({"left_shape": [r, c], "right_shape": [c, r]}));
                }
            }
        }
    }
    cx.rep.sample(|| json!({"len": n, "matrix_shape": mshape, "a": jf(&a[..a.len().min(6)]), "b": jf(&b[..b.len().min(6)]), "scalar": jnum(s), "impls_exercised": 16*4 + 12*2 + 4 + 2 + 29*2 + 16 + 8}));
}

// ---------------------------------------------------------------------------------------------
// reductions

fn reductions(cfg: &Cfg, rng: &mut Rng, rep: &mut Report, n: usize) {
    let class = len_class(n);
    let kind = rng.usize(0, 3);
    let (x, kname): (Vec<f64>, &str) = match kind {
        0 => (rng.vec(n, -10.0, 10.0), "uniform"),
        1 => ((0..n).map(|_| rng.normal() * 10f64.powi(rng.int(-6, 6) as i32)).collect(), "wide-scale"),
        2 => (rng.ints(n, -1000, 1000), "integer"),
        _ => (rng.vec(n, 0.5, 2.0), "positive"),
    };
    let y: Vec<f64> = rng.vec(n, -3.0, 3.0);
    let regime = format!("reduce:{}:{}", kname, class);
    rep.case(&regime);
    rep.distinct(Hasher::new().s("reduce").fs(&x).finish(), n >= 2);
    let tiny = f64::MIN_POSITIVE;
    let inputs = || json!({"x": jf(&x), "y": jf(&y)});
    let v = Vector::new(x.clone());

    // sum (free fn, Vector method, Matrix method)
    let sref = dd::sum(&x);
    let sabs = dd::sum_abs(&x).f();
    let sbound = gamma_n(n.max(1)) * sabs + tiny;
    let one = |rep: &mut Report, id: &str, got: Result<f64, String>, reference: Dd, bound: f64, extra: &str| match got {
        Err(m) => {
            rep.check(id, &regime, false, || json!({"panic": m, "form": extra, "inputs": inputs()}));
        }
        Ok(g) => {
            let err = (Dd::new(g) - reference).f().abs();
            let ok = err <= bound || (g.is_nan() && reference.f().is_nan());
            if bound > 0.0 && err.is_finite() {
                rep.note_max(&format!("worst_ratio.{}", id), err / bound);
            }
            rep.check(id, &regime, ok, || json!({"form": extra, "observed": jnum(g), "reference": jnum(reference.f()), "abs_err": jnum(err), "bound": jnum(bound), "inputs": inputs()}));
        }
    };
    one(rep, "C04.sum", guard(|| sum(&x)), sref, sbound, "sum(&[f64])");
    one(rep, "C04.sum", guard(|| v.sum()), sref, sbound, "Vector::sum");
    if n > 0 {
        let m = Matrix::new(x.clone(), 1, n as i32);
        one(rep, "C04.sum", guard(|| m.sum()), sref, sbound, "Matrix::sum");
    }
    // dot
    let dref = dd::dot(&x, &y);
    let dbound = gamma_n(n.max(1) + 1) * dd::dot_abs(&x, &y) * (1.0 + 1e-9) + tiny;
    one(rep, "C04.dot", guard(|| dot(&x, &y)), dref, dbound, "dot(&[f64],&[f64])");
    // dot with mismatched lengths must panic
    if n > 0 && rng.chance(0.1) {
        let r = guard(|| dot(&x, &y[..n - 1]));
        rep.check("C04.mismatch.panics", "reduce:dot:mismatch", r.is_err(), || json!({"returned": r.as_ref().ok(), "inputs": inputs()}));
    }
    // prod (well-scaled positive data only: relative bound)
    if kname == "positive" || kname == "integer" && n <= 8 {
        let mut p = Dd::ONE;
        for &t in &x {
            p = p * Dd::new(t);
        }
        if p.is_finite() && (p.f() == 0.0 || p.f().abs() > 1e-290) {
            let pb = gamma_n(n.max(1)) * p.f().abs() + tiny;
            one(rep, "C04.prod", guard(|| prod(&x)), p, pb, "prod(&[f64])");
            one(rep, "C04.prod", guard(|| v.prod()), p, pb, "Vector::prod");
        }
    }
    // prod over a wide dynamic range: factors span hundreds of decades but every left-to-right
    // partial product (and the result) is a normal number, so the definition is representable and a
    // correct product stays within gamma_n of it; an implementation that forms partial products of
    // sub-blocks on their own may overflow/underflow there.
    if n >= 2 && rng.chance(0.5) {
        let mut pref = 0.0f64; // decimal exponent of the running product
        let wx: Vec<f64> = (0..n)
            .map(|i| {
                let target = if i + 1 == n { rng.range(-100.0, 100.0) } else { rng.range(-250.0, 250.0) };
                let e = (target - pref).clamp(-300.0, 300.0);
                pref += e;
                let sign = if rng.chance(0.3) { -1.0 } else { 1.0 };
                sign * rng.range(1.0, 2.0) * 10f64.powf(e) / 1.5
            })
            .collect();
        let mut p = Dd::ONE;
        let mut ok_range = true;
        for &t in &wx {
            p = p * Dd::new(t);
            let a = p.f().abs();
            if !(a > 1e-280 && a < 1e280) {
                ok_range = false;
            }
        }
        if ok_range {
            let wregime = format!("reduce:prod-wide-range:{}", class);
            rep.case(&wregime);
            let pb = gamma_n(n) * p.f().abs();
            for (form, got) in [("prod(&[f64])", guard(|| prod(&wx))), ("Vector::prod", guard(|| Vector::new(wx.clone()).prod()))] {
                match got {
                    Err(m) => {
                        rep.check("C04.prod", &wregime, false, || json!({"panic": m, "form": form, "x": jf(&wx)}));
                    }
                    Ok(g) => {
                        let err = (Dd::new(g) - p).f().abs();
                        rep.check("C04.prod", &wregime, err <= pb, || json!({"form": form, "observed": jnum(g), "reference": jnum(p.f()), "abs_err": jnum(err), "bound": jnum(pb), "x": jf(&wx)}));
                    }
                }
            }
        }
    }
    // norm
    let n2 = dd::dot(&x, &x).sqrt();
    let nb = (gamma_n(n.max(1) + 1) * 0.5 + 2.0 * dd::U) * n2.f() * (1.0 + 1e-9) + tiny;
    one(rep, "C04.norm", guard(|| norm(&x)), n2, nb, "norm(&[f64])");
    one(rep, "C04.norm", guard(|| v.norm()), n2, nb, "Vector::norm");
    // infinity norm of a matrix shape
    if let Some((r, c)) = shape_for(rng, n) {
        let mut best = Dd::ZERO;
        for i in 0..r {
            best = best.max(dd::sum_abs(&x[i * c..(i + 1) * c]));
        }
        let ib = gamma_n(c) * best.f() + tiny;
        one(rep, "C04.inf_norm", guard(|| inf_norm(&x, r)), best, ib, "inf_norm(&[f64], nrows)");
        let m = Matrix::new(x.clone(), r as i32, c as i32);
        one(rep, "C04.inf_norm", guard(|| m.inf_norm()), best, ib, "Matrix::inf_norm");
    }
    // log-sum-exp / log-mean-exp with large-magnitude log-domain inputs
    if n > 0 {
        let scale = *rng.choose(&[1.0, 50.0, 800.0, 1e4]);
        let mut lx: Vec<f64> = (0..n).map(|_| rng.range(-1.0, 1.0) * scale).collect();
        // tied maxima / constant vectors: the shifted sum must count every copy of the maximum
        let ties = match rng.usize(0, 3) {
            0 if n >= 2 => {
                let mx = lx.iter().cloned().fold(f64::NEG_INFINITY, f64::max);
                let k = rng.usize(1, (n - 1).min(6));
                for _ in 0..k {
                    let i = rng.usize(0, n - 1);
                    lx[i] = mx;
                }
                "tied-max"
            }
            1 if n >= 2 => {
                let c = lx[0];
                lx.iter_mut().for_each(|t| *t = c);
                "constant"
            }
            _ => "generic",
        };
        let m = lx.iter().cloned().fold(f64::NEG_INFINITY, f64::max);
        let mut s = Dd::ZERO;
        for &t in &lx {
            s = s + Dd::new((t - m).exp());
        }
        let lse = m + s.f().ln();
        let lme = m + (s.f() / n as f64).ln();
        let lregime = format!("reduce:logdomain:{}:scale={}", ties, scale);
        rep.case(&lregime);
        for (id, form, got, reference) in [
            ("C04.logsumexp", "logsumexp(&[f64])", guard(|| logsumexp(&lx)), lse),
            ("C04.logsumexp", "Vector::logsumexp", guard(|| Vector::new(lx.clone()).logsumexp()), lse),
            ("C04.logmeanexp", "logmeanexp(&[f64])", guard(|| logmeanexp(&lx)), lme),
            ("C04.logmeanexp", "Vector::logmeanexp", guard(|| Vector::new(lx.clone()).logmeanexp()), lme),
        ] {
            match got {
                Err(msg) => {
                    rep.check(id, &lregime, false, || json!({"form": form, "panic": msg, "x": jf(&lx)}));
                }
                Ok(g) => {
                    let bound = 4.0 * (n as f64 + 4.0) * f64::EPSILON * (1.0 + reference.abs());
                    let err = (g - reference).abs();
                    if err.is_finite() {
                        rep.note_max(&format!("worst_ratio.{}", id), err / bound);
                    }
                    rep.check(id, &lregime, g.is_finite() && err <= bound, || json!({"form": form, "observed": jnum(g), "reference": jnum(reference), "bound": jnum(bound), "x": jf(&lx)}));
                }
            }
        }
    }
    let _ = cfg;
}

// ---------------------------------------------------------------------------------------------
// reductions over structured inputs

/// One reduction result against a double-double reference with an absolute a-priori bound.
fn red_check(rep: &mut Report, id: &str, regime: &str, form: &str, got: Result<f64, String>, reference: Dd, bound: f64, inputs: &dyn Fn() -> Value) {
    match got {
        Err(m) => {
            rep.check(id, regime, false, || json!({"panic": m, "form": form, "inputs": inputs()}));
        }
        Ok(g) => {
            let err = (Dd::new(g) - reference).f().abs();
            if bound > 0.0 && err.is_finite() {
                rep.note_max(&format!("worst_ratio.{}", id), err / bound);
            }
            rep.check(id, regime, err <= bound, || json!({"form": form, "observed": jnum(g), "reference": jnum(reference.f()), "abs_err": jnum(err), "bound": jnum(bound), "inputs": inputs()}));
        }
    }
}

/// log-sum-exp / log-mean-exp of `lx` (free functions and Vector methods) against the max-shifted
/// definition evaluated with a double-double sum.
fn logdomain_check(rep: &mut Report, regime: &str, lx: &[f64]) {
    let n = lx.len();
    let m = lx.iter().cloned().fold(f64::NEG_INFINITY, f64::max);
    let mut s = Dd::ZERO;
    for &t in lx {
        s = s + Dd::new((t - m).exp());
    }
    let lse = m + s.f().ln();
    let lme = m + (s.f() / n as f64).ln();
    for (id, form, got, reference) in [
        ("C04.logsumexp", "logsumexp(&[f64])", guard(|| logsumexp(lx)), lse),
        ("C04.logsumexp", "Vector::logsumexp", guard(|| Vector::new(lx.to_vec()).logsumexp()), lse),
        ("C04.logmeanexp", "logmeanexp(&[f64])", guard(|| logmeanexp(lx)), lme),
        ("C04.logmeanexp", "Vector::logmeanexp", guard(|| Vector::new(lx.to_vec()).logmeanexp()), lme),
    ] {
        match got {
            Err(msg) => {
                rep.check(id, regime, false, || json!({"form": form, "panic": msg, "x": jf(lx)}));
            }
            Ok(g) => {
                let bound = 4.0 * (n as f64 + 4.0) * f64::EPSILON * (1.0 + reference.abs());
                let err = (g - reference).abs();
                if err.is_finite() {
                    rep.note_max(&format!("worst_ratio.{}", id), err / bound);
                }
                rep.check(id, regime, g.is_finite() && err <= bound, || json!({"form": form, "observed": jnum(g), "reference": jnum(reference), "bound": jnum(bound), "len": n, "max": jnum(m), "x": jf(&lx[..n.min(64)])}));
            }
        }
    }
}

const SIGN_PATTERNS: [&str; 5] = ["nonpos-with-zeros", "nonneg-with-zeros", "single-nonzero", "negative-only", "mixed-with-zeros"];

/// A vector of length n (n >= 1) following one sign pattern. Zeros are exact (+0 and -0 mixed);
/// magnitudes of the non-zero entries come from one of three moderate scales, so that no square,
/// partial sum or (for the "unit" scale) partial product leaves the normal range.
fn sign_pattern_vec(rng: &mut Rng, n: usize, pattern: usize) -> (Vec<f64>, &'static str) {
    let (mag, mname): (fn(&mut Rng) -> f64, &'static str) = match rng.usize(0, 2) {
        0 => (|r| r.range(0.5, 2.0), "unit"),
        1 => (|r| r.int(1, 1000) as f64, "integer"),
        _ => (|r| r.range(1.0, 10.0) * 10f64.powi(r.int(-6, 6) as i32), "wide"),
    };
    let zero = |r: &mut Rng| if r.bool() { 0.0 } else { -0.0 };
    let mut x: Vec<f64> = (0..n).map(|_| mag(rng)).collect();
    // number of exact zeros: at least one, at most n-1 (patterns that contain zeros)
    let nz = if n >= 2 { rng.usize(1, n - 1) } else { 0 };
    let idx = rng.perm(n);
    match pattern {
        0 => {
            x.iter_mut().for_each(|t| *t = -*t);
            for &i in &idx[..nz] {
                x[i] = zero(rng);
            }
        }
        1 => {
            for &i in &idx[..nz] {
                x[i] = zero(rng);
            }
        }
        2 => {
            for &i in &idx[1..] {
                x[i] = zero(rng);
            }
            if rng.bool() {
                x[idx[0]] = -x[idx[0]];
            }
        }
        3 => x.iter_mut().for_each(|t| *t = -*t),
        _ => {
            for t in x.iter_mut() {
                if rng.bool() {
                    *t = -*t;
                }
            }
            for &i in &idx[..nz] {
                x[i] = zero(rng);
            }
        }
    }
    (x, mname)
}

/// Every reduction on vectors that follow a sign pattern (one-sided data, exact zeros, a single
/// non-zero entry): the definition does not depend on where the signs or the zeros sit.
fn sign_pattern_reductions(rng: &mut Rng, rep: &mut Report, n: usize, pattern: usize) {
    let (x, mname) = sign_pattern_vec(rng, n, pattern);
    let ypat = rng.usize(0, SIGN_PATTERNS.len() - 1);
    let (y, _) = sign_pattern_vec(rng, n, ypat);
    let regime = format!("reduce:sign:{}:{}", SIGN_PATTERNS[pattern], len_class(n));
    rep.case(&regime);
    rep.distinct(Hasher::new().s("reduce-sign").fs(&x).finish(), n >= 2);
    let tiny = f64::MIN_POSITIVE;
    let inputs = || json!({"x": jf(&x), "y": jf(&y), "magnitudes": mname});
    let v = Vector::new(x.clone());
    let shape = shape_for(rng, n).unwrap();
    let m = Matrix::new(x.clone(), shape.0 as i32, shape.1 as i32);
    // sum
    let sref = dd::sum(&x);
    let sbound = gamma_n(n) * dd::sum_abs(&x).f() + tiny;
    red_check(rep, "C04.sum", &regime, "sum(&[f64])", guard(|| sum(&x)), sref, sbound, &inputs);
    red_check(rep, "C04.sum", &regime, "Vector::sum", guard(|| v.sum()), sref, sbound, &inputs);
    red_check(rep, "C04.sum", &regime, "Matrix::sum", guard(|| m.sum()), sref, sbound, &inputs);
    // dot (against another patterned vector, and against itself)
    for (form, b) in [("dot(x,y)", &y), ("dot(x,x)", &x)] {
        let dref = dd::dot(&x, b);
        let dbound = gamma_n(n + 1) * dd::dot_abs(&x, b) * (1.0 + 1e-9) + tiny;
        red_check(rep, "C04.dot", &regime, form, guard(|| dot(&x, b)), dref, dbound, &inputs);
    }
    // prod: relative bound while every partial product is a normal number (or the product is 0)
    {
        let mut p = Dd::ONE;
        let mut in_range = true;
        for &t in &x {
            p = p * Dd::new(t);
            let a = p.f().abs();
            if !(a == 0.0 || (a > 1e-280 && a < 1e280)) {
                in_range = false;
            }
        }
        if in_range {
            let pb = gamma_n(n) * p.f().abs() + tiny;
            red_check(rep, "C04.prod", &regime, "prod(&[f64])", guard(|| prod(&x)), p, pb, &inputs);
            red_check(rep, "C04.prod", &regime, "Vector::prod", guard(|| v.prod()), p, pb, &inputs);
            red_check(rep, "C04.prod", &regime, "Matrix::prod", guard(|| m.prod()), p, pb, &inputs);
        }
    }
    // norm
    let n2 = dd::dot(&x, &x).sqrt();
    let nb = (gamma_n(n + 1) * 0.5 + 2.0 * dd::U) * n2.f() * (1.0 + 1e-9) + tiny;
    red_check(rep, "C04.norm", &regime, "norm(&[f64])", guard(|| norm(&x)), n2, nb, &inputs);
    red_check(rep, "C04.norm", &regime, "Vector::norm", guard(|| v.norm()), n2, nb, &inputs);
    red_check(rep, "C04.norm", &regime, "Matrix::norm", guard(|| m.norm()), n2, nb, &inputs);
    // infinity norm
    {
        let (r, c) = shape;
        let mut best = Dd::ZERO;
        for i in 0..r {
            best = best.max(dd::sum_abs(&x[i * c..(i + 1) * c]));
        }
        let ib = gamma_n(c) * best.f() + tiny;
        red_check(rep, "C04.inf_norm", &regime, "inf_norm(&[f64], nrows)", guard(|| inf_norm(&x, r)), best, ib, &inputs);
        red_check(rep, "C04.inf_norm", &regime, "Matrix::inf_norm", guard(|| m.inf_norm()), best, ib, &inputs);
    }
    // the same vector read as log-domain values (one-sided log-weights with an exact 0 maximum, ...)
    logdomain_check(rep, &regime, &x);
}

const THRESHOLD_WINDOWS: [(&str, f64, f64); 2] = [("below-exp-overflow", 690.0, 709.78), ("above-exp-underflow", -745.0, -690.0)];
const NEAR_KINDS: [&str; 3] = ["exact-ties", "near-ties", "spread"];

/// Log-domain inputs whose maximum lies just inside the thresholds of `exp` (every single
/// exp(x_i) is still finite / non-zero) with 1..=1000 entries at or next to the maximum: the sum of
/// exponentials leaves the f64 range although no term does. The definition is finite.
fn logdomain_threshold(rng: &mut Rng, rep: &mut Report, n: usize, window: usize, kind: usize) {
    let (wname, lo, hi) = THRESHOLD_WINDOWS[window];
    let m = rng.range(lo, hi);
    let kmax = n.min(1000);
    let k = if rng.chance(0.25) { kmax } else { (rng.log_range(1.0, kmax as f64 + 0.999).floor() as usize).clamp(1, kmax) };
    let width = match kind {
        0 => 0.0,
        1 => *rng.choose(&[1e-12, 1e-6, 0.01]),
        _ => *rng.choose(&[0.5, 2.0, 8.0]),
    };
    let tail = *rng.choose(&[1.0, 20.0, 100.0, 1500.0]);
    let mut lx: Vec<f64> = (0..n).map(|i| if i == 0 { m } else if i < k { m - rng.f64() * width } else { m - rng.f64() * tail }).collect();
    rng.shuffle(&mut lx);
    let regime = format!("reduce:logdomain-threshold:{}:{}", wname, NEAR_KINDS[kind]);
    rep.case(&regime);
    rep.distinct(Hasher::new().s("reduce-threshold").fs(&lx).finish(), n >= 2);
    logdomain_check(rep, &regime, &lx);
}

const NEGINF_PLACEMENTS: [&str; 5] = ["leading", "trailing", "interior", "scattered", "single-finite"];
const NEGINF_MAGS: [&str; 9] = ["scale=1", "scale=50", "scale=800", "scale=1e4", "below-exp-overflow", "above-exp-underflow", "log-prob", "constant", "nonpos-zero-max"];

/// k >= 1 finite log-domain values of one of the magnitude classes this monitor uses elsewhere
/// (uniform at four scales, maximum just inside the exp thresholds, logarithms of normalised
/// weights, a constant vector, one-sided values with an exact 0 maximum).
fn finite_logvals(rng: &mut Rng, k: usize, mag: usize) -> Vec<f64> {
    let mut v: Vec<f64> = match mag {
        0..=3 => {
            let scale = [1.0, 50.0, 800.0, 1e4][mag];
            (0..k).map(|_| rng.range(-1.0, 1.0) * scale).collect()
        }
        4 | 5 => {
            let (_, lo, hi) = THRESHOLD_WINDOWS[mag - 4];
            let m = rng.range(lo, hi);
            let tail = *rng.choose(&[0.0, 1e-6, 2.0, 100.0, 1500.0]);
            (0..k).map(|i| if i == 0 { m } else { m - rng.f64() * tail }).collect()
        }
        6 => {
            let w: Vec<f64> = (0..k).map(|_| rng.exp1() + 1e-300).collect();
            let tot: f64 = w.iter().sum();
            w.iter().map(|t| (t / tot).ln()).collect()
        }
        7 => {
            let c = rng.normal() * *rng.choose(&[1.0, 50.0, 800.0, 1e4]);
            vec![c; k]
        }
        _ => (0..k).map(|i| if i == 0 { 0.0 } else { -rng.log_range(1e-3, 1e3) }).collect(),
    };
    rng.shuffle(&mut v);
    v
}

/// Log-domain reductions of vectors that contain −inf entries (logarithms of zero weights, masked
/// scores) next to at least one finite entry: exp(−inf) = 0, so the definition is the log-sum-exp of
/// the finite entries (log-mean-exp: with the full count n in the mean). The −inf entries sit in
/// leading, trailing, interior or scattered positions, or everywhere but one position.
fn logdomain_neginf(rng: &mut Rng, rep: &mut Report, n: usize, placement: usize, mag: usize) {
    if n < 2 || (placement == 2 && n < 3) {
        return;
    }
    // mask[i] = true: entry i is −inf. 1 <= number of −inf entries <= n−1.
    let mut mask = vec![false; n];
    let count = |rng: &mut Rng, hi: usize| -> usize {
        // half of the cases: two or more (runs of −inf), else any count
        if hi >= 2 && rng.bool() {
            rng.usize(2, hi)
        } else {
            rng.usize(1, hi)
        }
    };
    match placement {
        0 => {
            let k = count(rng, n - 1);
            mask[..k].iter_mut().for_each(|t| *t = true);
        }
        1 => {
            let k = count(rng, n - 1);
            mask[n - k..].iter_mut().for_each(|t| *t = true);
        }
        2 => {
            let k = count(rng, n - 2);
            let start = rng.usize(1, n - 1 - k);
            mask[start..start + k].iter_mut().for_each(|t| *t = true);
        }
        3 => {
            let k = count(rng, n - 1);
            for &i in &rng.perm(n)[..k] {
                mask[i] = true;
            }
        }
        _ => {
            mask.iter_mut().for_each(|t| *t = true);
            // the finite entry: first, last or anywhere
            let at = match rng.usize(0, 3) {
                0 => 0,
                1 => n - 1,
                _ => rng.usize(0, n - 1),
            };
            mask[at] = false;
        }
    }
    let nf = mask.iter().filter(|t| !**t).count();
    let fin = finite_logvals(rng, nf, mag);
    let mut it = fin.iter();
    let lx: Vec<f64> = mask.iter().map(|&inf| if inf { f64::NEG_INFINITY } else { *it.next().unwrap() }).collect();
    // the signature is the placement (the mechanism class); the magnitude class of the finite
    // entries is counted as a coverage label of its own
    let regime = format!("reduce:logdomain-neginf:{}", NEGINF_PLACEMENTS[placement]);
    rep.seen(&format!("reduce:logdomain-neginf:finite-entries:{}", NEGINF_MAGS[mag]), 1);
    rep.case(&regime);
    rep.distinct(Hasher::new().s("reduce-neginf").fs(&lx).finish(), true);
    // the max-shifted double-double reference of `logdomain_check` is the reference over the finite
    // entries: the maximum is finite and every −inf entry contributes exp(−inf) = 0 exactly
    logdomain_check(rep, &regime, &lx);
    rep.sample(|| json!({"family": "logdomain-neginf", "placement": NEGINF_PLACEMENTS[placement], "magnitudes": NEGINF_MAGS[mag], "len": n, "neg_inf_entries": n - nf, "x": jf(&lx[..n.min(12)])}));
}

/// Corners the quantifier ("large-magnitude log-domain inputs") does not clearly cover: a vector
/// of −inf only (every weight zero; the definition gives −inf) and vectors with +inf entries (the
/// definition gives +inf). What the library returns is counted as evidence and not judged.
fn logdomain_unjudged(rng: &mut Rng, rep: &mut Report, n: usize) {
    let class = |r: &Result<f64, String>| match r {
        Err(_) => "panic",
        Ok(g) if g.is_nan() => "nan",
        Ok(g) if *g == f64::NEG_INFINITY => "neg_inf",
        Ok(g) if *g == f64::INFINITY => "pos_inf",
        Ok(_) => "finite",
    };
    let all = vec![f64::NEG_INFINITY; n];
    rep.case("reduce:logdomain-neginf:all-neg-inf(unjudged)");
    for (f, r) in [("logsumexp", guard(|| logsumexp(&all))), ("logmeanexp", guard(|| logmeanexp(&all))), ("Vector::logsumexp", guard(|| Vector::new(all.clone()).logsumexp())), ("Vector::logmeanexp", guard(|| Vector::new(all.clone()).logmeanexp()))] {
        rep.note_add(&format!("evidence.logdomain.all-neg-inf.{}.{}", f, class(&r)), 1.0);
    }
    let pmag = rng.usize(0, NEGINF_MAGS.len() - 1);
    let mut px = finite_logvals(rng, n, pmag);
    let k = rng.usize(1, n.min(3));
    for &i in &rng.perm(n)[..k] {
        px[i] = f64::INFINITY;
    }
    if n >= 2 && rng.bool() {
        let i = rng.usize(0, n - 1);
        if px[i].is_finite() {
            px[i] = f64::NEG_INFINITY;
        }
    }
    rep.case("reduce:logdomain-posinf(unjudged)");
    for (f, r) in [("logsumexp", guard(|| logsumexp(&px))), ("logmeanexp", guard(|| logmeanexp(&px))), ("Vector::logsumexp", guard(|| Vector::new(px.clone()).logsumexp())), ("Vector::logmeanexp", guard(|| Vector::new(px.clone()).logmeanexp()))] {
        rep.note_add(&format!("evidence.logdomain.pos-inf-entries.{}.{}", f, class(&r)), 1.0);
    }
}

// ---------------------------------------------------------------------------------------------
// reductions with infinite entries, overflowing partial sums / products and NaN entries

const NONFINITE_CLASSES: [&str; 6] = ["pos-inf-entries", "neg-inf-entries", "both-inf-signs", "finite-overflowing", "near-limit-order-dependent(unjudged)", "nan-entries"];
const NONFINITE_PLACEMENTS: [&str; 5] = ["leading", "trailing", "interior", "scattered", "every-position"];

#[derive(Clone, Copy, PartialEq)]
enum Ext {
    PosInf,
    NegInf,
    Nan,
    /// not judged (order dependent, or the unmodified library already deviates: evidence only)
    Open,
}

fn ext_name(r: &Result<f64, String>) -> &'static str {
    match r {
        Err(_) => "panic",
        Ok(g) if g.is_nan() => "nan",
        Ok(g) if *g == f64::NEG_INFINITY => "neg_inf",
        Ok(g) if *g == f64::INFINITY => "pos_inf",
        Ok(_) => "finite",
    }
}

/// Positions of the k special entries in a vector of length n.
fn special_positions(rng: &mut Rng, n: usize, placement: usize) -> Vec<usize> {
    let several = if n >= 3 { rng.usize(1, 3.min(n - 1)) } else { 1 };
    match placement {
        0 => (0..several).collect(),
        1 => (n - several..n).collect(),
        2 => {
            if n >= 3 {
                vec![rng.usize(1, n - 2)]
            } else {
                vec![n / 2]
            }
        }
        3 => {
            let k = if n >= 2 { rng.usize(1, (n - 1).min(6)) } else { 1 };
            rng.perm(n)[..k].to_vec()
        }
        _ => (0..n).collect(),
    }
}

/// sum, dot, prod, norm, inf_norm (free functions and Vector / Matrix methods) on vectors whose
/// definition is ±inf or NaN by IEEE arithmetic in every order of evaluation: +inf / −inf entries
/// among moderate finite ones, infinities of both signs, same-sign finite entries near f64::MAX
/// whose sum / product overflows, NaN entries. Judged on the class of the result only.
fn nonfinite_reductions(rng: &mut Rng, rep: &mut Report, n: usize, class: usize, placement: usize) {
    let inf = f64::INFINITY;
    // finite background: non-zero, moderate, mixed signs (no zero: inf·0 is NaN by definition)
    let mut x: Vec<f64> = (0..n).map(|_| rng.range(0.5, 2.0) * 10f64.powi(rng.int(-3, 3) as i32) * if rng.bool() { -1.0 } else { 1.0 }).collect();
    // second operand of the dot product: strictly positive, O(1)
    let y: Vec<f64> = (0..n).map(|_| rng.range(1.0, 2.0)).collect();
    let mut pos = special_positions(rng, n, placement);
    pos.sort();
    pos.dedup();
    let huge = |rng: &mut Rng| rng.range(1.0, 1.7) * 1e308;
    let (esum, edot_xy, edot_xx, eprod_sign_known): (Ext, Ext, Ext, bool);
    match class {
        0 | 1 => {
            let v = if class == 0 { inf } else { -inf };
            for &i in &pos {
                x[i] = v;
            }
            esum = if class == 0 { Ext::PosInf } else { Ext::NegInf };
            edot_xy = esum;
            edot_xx = Ext::PosInf;
            eprod_sign_known = true;
        }
        2 => {
            // both signs need two positions
            if pos.len() < 2 {
                let extra = (pos[0] + 1 + rng.usize(0, n.saturating_sub(2))) % n;
                if extra != pos[0] {
                    pos.push(extra);
                }
            }
            if pos.len() < 2 {
                return;
            }
            for (j, &i) in pos.iter().enumerate() {
                x[i] = if j % 2 == 0 { inf } else { -inf };
            }
            if rng.bool() {
                for &i in &pos {
                    x[i] = -x[i];
                }
            }
            esum = Ext::Nan;
            edot_xy = Ext::Nan;
            edot_xx = Ext::PosInf;
            eprod_sign_known = true;
        }
        3 => {
            // same-sign entries of magnitude 1e308..1.7e308: two of them already exceed f64::MAX
            if pos.len() < 2 {
                let extra = (pos[0] + 1 + rng.usize(0, n.saturating_sub(2))) % n;
                if extra != pos[0] {
                    pos.push(extra);
                }
            }
            if pos.len() < 2 {
                return;
            }
            let sg = if rng.bool() { 1.0 } else { -1.0 };
            for &i in &pos {
                x[i] = sg * huge(rng);
            }
            esum = if sg > 0.0 { Ext::PosInf } else { Ext::NegInf };
            edot_xy = esum;
            edot_xx = Ext::PosInf;
            eprod_sign_known = true;
        }
        4 => {
            // the exact sum is representable, some partial sums are not: nothing is judged
            if n < 3 {
                return;
            }
            let p3 = &rng.perm(n)[..3];
            let h = huge(rng);
            x[p3[0]] = h;
            x[p3[1]] = h;
            x[p3[2]] = -h;
            esum = Ext::Open;
            edot_xy = Ext::Open;
            edot_xx = Ext::PosInf;
            eprod_sign_known = false;
        }
        _ => {
            for &i in &pos {
                x[i] = f64::NAN;
            }
            esum = Ext::Nan;
            edot_xy = Ext::Nan;
            edot_xx = Ext::Nan;
            eprod_sign_known = false;
        }
    }
    let cname = NONFINITE_CLASSES[class];
    let regime = format!("reduce:nonfinite:{}", cname);
    rep.case(&regime);
    rep.seen(&format!("reduce:nonfinite:placement:{}", NONFINITE_PLACEMENTS[placement]), 1);
    rep.seen(&format!("reduce:nonfinite:{}:{}", cname, len_class(n)), 1);
    rep.distinct(Hasher::new().s("reduce-nonfinite").u(class as u64).fs(&x).finish(), true);
    let inputs = || json!({"x": jf(&x), "y(dot)": jf(&y), "class": cname, "placement": NONFINITE_PLACEMENTS[placement]});
    rep.sample(|| json!({"family": "reduce-nonfinite", "class": cname, "placement": NONFINITE_PLACEMENTS[placement], "len": n, "x": jf(&x[..n.min(10)])}));
    let v = Vector::new(x.clone());
    let shape = shape_for(rng, n).unwrap();
    let m = Matrix::new(x.clone(), shape.0 as i32, shape.1 as i32);
    let judge = |rep: &mut Report, id: &str, form: &str, got: Result<f64, String>, want: Ext| {
        rep.note_add(&format!("evidence.nonfinite.{}.{}.{}", cname, form, ext_name(&got)), 1.0);
        let ok = match (&got, want) {
            (_, Ext::Open) => return,
            (Ok(g), Ext::PosInf) => *g == f64::INFINITY,
            (Ok(g), Ext::NegInf) => *g == f64::NEG_INFINITY,
            (Ok(g), Ext::Nan) => g.is_nan(),
            (Err(_), _) => false,
        };
        let wname = match want {
            Ext::PosInf => "+inf",
            Ext::NegInf => "-inf",
            _ => "NaN",
        };
        rep.check(id, &regime, ok, || json!({"form": form, "observed": match &got { Ok(g) => jnum(*g), Err(e) => json!({"panic": e}) }, "expected": wname, "inputs": inputs()}));
    };
    // sum
    judge(rep, "C04.sum", "sum(&[f64])", guard(|| sum(&x)), esum);
    judge(rep, "C04.sum", "Vector::sum", guard(|| v.sum()), esum);
    judge(rep, "C04.sum", "Matrix::sum", guard(|| m.sum()), esum);
    // dot against a positive vector and against itself
    judge(rep, "C04.dot", "dot(x,y)", guard(|| dot(&x, &y)), edot_xy);
    judge(rep, "C04.dot", "dot(x,x)", guard(|| dot(&x, &x)), edot_xx);
    // prod: every factor is non-zero, so an infinite (or overflowing) product keeps the sign of the
    // product of the signs; a NaN factor gives NaN
    let eprod = if class == 5 {
        Ext::Nan
    } else if eprod_sign_known {
        let neg = x.iter().filter(|t| **t < 0.0).count() % 2 == 1;
        // the finite background may shrink an overflowing product back only if it is tiny: bound it
        let lg: f64 = x.iter().filter(|t| t.is_finite()).map(|t| t.abs().log10()).sum();
        let lgmin: f64 = {
            // smallest decimal exponent of any partial product of the finite factors (any order is
            // bounded below by the sum of the negative logs)
            x.iter().filter(|t| t.is_finite()).map(|t| t.abs().log10().min(0.0)).sum()
        };
        let overflow_sure = class != 3 || (lg > 330.0 && lgmin > -280.0);
        if !overflow_sure {
            Ext::Open
        } else if neg {
            Ext::NegInf
        } else {
            Ext::PosInf
        }
    } else {
        Ext::Open
    };
    judge(rep, "C04.prod", "prod(&[f64])", guard(|| prod(&x)), eprod);
    judge(rep, "C04.prod", "Vector::prod", guard(|| v.prod()), eprod);
    judge(rep, "C04.prod", "Matrix::prod", guard(|| m.prod()), eprod);
    // norm: sqrt of a sum of squares. An infinite entry gives +inf, a NaN entry NaN; finite entries
    // near f64::MAX have a representable norm that sqrt(dot) cannot reach: evidence only
    let enorm = match class {
        0 | 1 | 2 => Ext::PosInf,
        5 => Ext::Nan,
        _ => Ext::Open,
    };
    judge(rep, "C04.norm", "norm(&[f64])", guard(|| norm(&x)), enorm);
    judge(rep, "C04.norm", "Vector::norm", guard(|| v.norm()), enorm);
    judge(rep, "C04.norm", "Matrix::norm", guard(|| m.norm()), enorm);
    // infinity norm: largest absolute row sum
    let (r, c) = shape;
    let einf = match class {
        0 | 1 | 2 => Ext::PosInf,
        3 => {
            // +inf when one row holds two of the huge entries
            let two = (0..r).any(|i| x[i * c..(i + 1) * c].iter().filter(|t| t.abs() >= 1e308).count() >= 2);
            if two {
                Ext::PosInf
            } else {
                Ext::Open
            }
        }
        // NaN entries: the library takes the largest row sum with f64::max, which skips a NaN row
        // sum; the largest of a set that contains NaN has no mathematical definition, so the result
        // is counted as evidence (notes evidence.nonfinite.nan-entries.*inf_norm.*) and not judged
        _ => Ext::Open,
    };
    judge(rep, "C04.inf_norm", "inf_norm(&[f64], nrows)", guard(|| inf_norm(&x, r)), einf);
    judge(rep, "C04.inf_norm", "Matrix::inf_norm", guard(|| m.inf_norm()), einf);
}

pub fn run(cfg: &Cfg, rep: &mut Report) {
    rep.rule = "every operator impl (4 ops x {Vector,Matrix} x {owned,borrowed}^2 vec∘vec, scalar-left/right, compound assignment, Neg, matmat* fns), 29 maps, powi (8 exponents), powf (4) at every length 0..=40 (lite: 0..=17,24,33) and random lengths up to 1e4, elements pairwise distinct with ±0, ±inf, subnormals, NaN mixed in; reductions against double-double references. non-trivial = length >= 1; distinct by (container, family, impl, length); reductions additionally on sign-pattern vectors (all <= 0 / all >= 0 with exact ±0, single non-zero, negatives only, mixed) at every length 1..=40 and random lengths, and on log-domain vectors whose maximum lies in (690, 709.78) or (-745, -690) with 1..=1000 entries tied with / next to the maximum, and on log-domain vectors with −inf entries (leading / trailing / interior / scattered / all but one position) next to finite entries of every magnitude class at every length 2..=40 and random lengths; sum / dot / prod / norm / inf_norm (free functions, Vector and Matrix methods) on vectors with +inf entries, −inf entries, infinities of both signs, same-sign finite entries of magnitude 1e308..1.7e308 (overflowing sum / product), NaN entries, placed leading / trailing / interior / scattered / at every position among non-zero moderate finite entries, every length 1..=40 and random lengths up to 1e4 (regimes reduce:nonfinite:<class>)".into();
    rep.assume("powi has no IEEE definition: the runtime-exponent f64::powi (compiler-rt repeated squaring) is taken as the scalar operation; x*x and x*x*x are bit-identical to it");
    rep.assume("prod is checked on well-scaled data (no overflow/underflow) with a relative gamma_n bound; reductions of the empty slice other than sum/prod/dot/norm are outside the quantifier");
    rep.assume("Matrix shape mismatches are checked for pairs that NumPy broadcasting (C12) does not make compatible");
    // exhaustive lengths
    // Miri: 0..=17 covers every residue of the length mod 8 with 0, 1 and 2 full chunks (one
    // evaluation costs ~50-90 ms there); memcheck/ASan: native sizes.
    let mut lengths: Vec<usize> = if cfg.miri() {
        if cfg.thorough() {
            (0..=33).collect()
        } else {
            (0..=17).collect()
        }
    } else {
        (0..=40).collect()
    };
    if cfg.lite && !cfg.miri() {
        lengths.extend([64, 65, 127, 200, 300]);
    }
    let reps = cfg.pick(3, 12, 1).max(1);
    let lens = lengths.clone();
    par_cases(cfg, rep, 1, lens.len() * reps, |i, rng, rep| {
        let n = lens[i % lens.len()];
        elementwise(cfg, rng, rep, n, true);
    });
    rep.exhaustive = Some(false);
    // random larger lengths
    let nrand = cfg.pick(40, 400, 0);
    par_cases(cfg, rep, 2, nrand, |_i, rng, rep| {
        let n = if rng.chance(0.7) { rng.usize(41, 600) } else { rng.usize(601, 10_000) };
        let mm = rng.chance(0.3);
        elementwise(cfg, rng, rep, n, mm);
    });
    // reductions: every length 0..=40 + random
    let rl = lengths.len();
    let rreps = cfg.pick(20, 200, 1);
    par_cases(cfg, rep, 3, rl * rreps, |i, rng, rep| {
        reductions(cfg, rng, rep, lengths[i % rl]);
    });
    let nr = cfg.pick(300, 6000, 0);
    par_cases(cfg, rep, 4, nr, |_i, rng, rep| {
        let n = rng.usize(41, 10_000);
        reductions(cfg, rng, rep, n);
    });
    // structured reductions (native layers only): sign patterns at every length, and log-domain
    // inputs with the maximum just inside the exp thresholds and many near-maximal entries
    if !cfg.miri() {
        let slens: Vec<usize> = (1..=40).collect();
        let np = SIGN_PATTERNS.len();
        let sreps = cfg.pick(4, 40, 1).max(1);
        par_cases(cfg, rep, 5, slens.len() * np * sreps, |i, rng, rep| {
            sign_pattern_reductions(rng, rep, slens[(i / np) % slens.len()], i % np);
        });
        par_cases(cfg, rep, 6, cfg.pick(200, 3000, 20), |i, rng, rep| {
            let n = if rng.chance(0.8) { rng.usize(41, 400) } else { rng.usize(401, 5000) };
            sign_pattern_reductions(rng, rep, n, i % np);
        });
        let treps = cfg.pick(3, 30, 1).max(1);
        par_cases(cfg, rep, 7, slens.len() * 6 * treps, |i, rng, rep| {
            logdomain_threshold(rng, rep, slens[(i / 6) % slens.len()], i % 2, (i / 2) % 3);
        });
        par_cases(cfg, rep, 8, cfg.pick(600, 6000, 60), |i, rng, rep| {
            let n = if rng.chance(0.8) { rng.usize(41, 1200) } else { rng.usize(1201, 10_000) };
            logdomain_threshold(rng, rep, n, i % 2, (i / 2) % 3);
        });
        for p in SIGN_PATTERNS {
            for cl in ["len<8", "len%8=0", "len%8!=0"] {
                rep.require(&format!("reduce:sign:{}:{}", p, cl), 1);
            }
        }
        for (w, _, _) in THRESHOLD_WINDOWS {
            for k in NEAR_KINDS {
                rep.require(&format!("reduce:logdomain-threshold:{}:{}", w, k), 1);
            }
        }
        // log-domain reductions with −inf entries (logarithms of zero weights): every length 1..=40 x
        // placement x magnitude class, then random longer vectors; all-(−inf) and +inf corners as evidence
        let (npl, nmg) = (NEGINF_PLACEMENTS.len(), NEGINF_MAGS.len());
        let ireps = cfg.pick(1, 10, 1).max(1);
        par_cases(cfg, rep, 9, slens.len() * npl * nmg * ireps, |i, rng, rep| {
            logdomain_neginf(rng, rep, slens[(i / (npl * nmg)) % slens.len()], i % npl, (i / npl) % nmg);
        });
        par_cases(cfg, rep, 10, cfg.pick(450, 4500, 45), |i, rng, rep| {
            let n = if rng.chance(0.8) { rng.usize(41, 600) } else { rng.usize(601, 10_000) };
            logdomain_neginf(rng, rep, n, i % npl, (i / npl) % nmg);
        });
        par_cases(cfg, rep, 11, cfg.pick(60, 400, 10), |i, rng, rep| {
            let n = if i < 40 { i + 1 } else { rng.usize(41, 2000) };
            logdomain_unjudged(rng, rep, n);
        });
        // reductions whose definition is ±inf / NaN: every length 1..=40 x class x placement, then longer
        let (ncl, npc) = (NONFINITE_CLASSES.len(), NONFINITE_PLACEMENTS.len());
        let nreps = cfg.pick(1, 8, 1).max(1);
        par_cases(cfg, rep, 12, slens.len() * ncl * npc * nreps, |i, rng, rep| {
            nonfinite_reductions(rng, rep, slens[(i / (ncl * npc)) % slens.len()], i % ncl, (i / ncl) % npc);
        });
        par_cases(cfg, rep, 13, cfg.pick(300, 3000, 30), |i, rng, rep| {
            let n = if rng.chance(0.8) { rng.usize(41, 600) } else { rng.usize(601, 10_000) };
            nonfinite_reductions(rng, rep, n, i % ncl, (i / ncl) % npc);
        });
        for c in NONFINITE_CLASSES {
            rep.require(&format!("reduce:nonfinite:{}", c), 100);
            for cl in ["len<8", "len%8=0", "len%8!=0"] {
                rep.require(&format!("reduce:nonfinite:{}:{}", c, cl), 5);
            }
        }
        for p in NONFINITE_PLACEMENTS {
            rep.require(&format!("reduce:nonfinite:placement:{}", p), 100);
        }
        for p in NEGINF_PLACEMENTS {
            rep.require(&format!("reduce:logdomain-neginf:{}", p), (nmg * 10) as u64);
        }
        for m in NEGINF_MAGS {
            rep.require(&format!("reduce:logdomain-neginf:finite-entries:{}", m), (npl * 10) as u64);
        }
        rep.assume("reductions with non-finite results (regimes reduce:nonfinite:*) are judged on the class of the result only (+inf, −inf or NaN as IEEE arithmetic gives in every order of evaluation); not judged, counted as evidence under notes evidence.nonfinite.*: sums / dots whose exact value is representable while some partial sums are not (order dependent), norm and single-entry row sums of finite entries near f64::MAX (sqrt(dot) overflows although the norm is representable), inf_norm with NaN entries (f64::max skips NaN row sums)");
        rep.assume("log-domain reductions with −inf entries are judged when at least one entry is finite (exp(−inf) = 0: reference over the finite entries, full count in the mean); a vector of −inf only and vectors with +inf entries are recorded as evidence (notes evidence.logdomain.*) and not judged");
    }
    for cont in ["Vector", "Matrix"] {
        for fam in ["vv", "scalar-left", "scalar-right", "assign", "assign-scalar", "neg", "map", "powi", "powf"] {
            for cl in ["len<8", "len%8=0", "len%8!=0"] {
                rep.require(&format!("{}:{}:{}", cont, fam, cl), 1);
            }
        }
        rep.require(&format!("{}:vv:mismatch", cont), 1);
        rep.require(&format!("{}:assign:mismatch", cont), 1);
    }
    rep.require("Vector:vv:len=0", 1);
    rep.require("Matrix:vv:empty", 1);
}
