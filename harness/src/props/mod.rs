//! One module per property: workload generator + monitor.
use crate::report::{Cfg, Report};

pub mod c01;
pub mod c02;
pub mod c03;
pub mod c04;
pub mod c05;
pub mod c06;
pub mod c07;
pub mod c08;
pub mod c09;
pub mod c10;
pub mod c11;
pub mod c12;
pub mod c13;
pub mod c14;
pub mod c15;
pub mod c16;
pub mod c17;
pub mod c18;
pub mod c19;
pub mod c20;

pub fn run(id: &str, cfg: &Cfg, rep: &mut Report) -> bool {
    match id {
        "C01" => c01::run(cfg, rep),
        "C02" => c02::run(cfg, rep),
        "C03" => c03::run(cfg, rep),
        "C04" => c04::run(cfg, rep),
        "C05" => c05::run(cfg, rep),
        "C06" => c06::run(cfg, rep),
        "C07" => c07::run(cfg, rep),
        "C08" => c08::run(cfg, rep),
        "C09" => c09::run(cfg, rep),
        "C10" => c10::run(cfg, rep),
        "C11" => c11::run(cfg, rep),
        "C12" => c12::run(cfg, rep),
        "C13" => c13::run(cfg, rep),
        "C14" => c14::run(cfg, rep),
        "C15" => c15::run(cfg, rep),
        "C16" => c16::run(cfg, rep),
        "C17" => c17::run(cfg, rep),
        "C18" => c18::run(cfg, rep),
        "C19" => c19::run(cfg, rep),
        "C20" => c20::run(cfg, rep),
        _ => return false,
    }
    true
}
