//! C18 — distributions are a pure function of current parameters and the RNG seed (DESIGN §3 C18).
//!
//! Events: every constructor / setter / `update` call (value or panic) in a random mutation history,
//! and after every step the observable behaviour of the mutated object next to a freshly constructed
//! twin, through EVERY method the distribution traits and inherent impls offer: `Continuous::pdf` /
//! `Discrete::pmf` at 16 probe points, `Continuous::ln_pdf` (a default body = pdf().ln() that a law may
//! override: Normal does) and `Normal::cdf` at those points and 10 far-tail points, `Mean::mean`,
//! `Variance::var`, a seeded stream of `Distribution::sample` draws, and the bulk forms
//! `Distribution1D::sample_n` / `sample_matrix` from the same seed.
//! Oracle: the harness keeps its own model of the parameters that should be current (last accepted
//! values) and a validity table taken from the constructors' documented domains; twin comparison is
//! bitwise (NaN = NaN). A rejected call is compared object-before vs object-after.
//! Valid targets carry structure on purpose (exact coincidences between the two parameters or with
//! their current values, one-sided changes, the edges of the documented domains): guards of the
//! form `if new != self.field` and domain checks that differ between constructor and setter only
//! show there.
//! Two further families:
//!   * histories that START from `Default::default()` (all 13 distributions implement it): the twin is
//!     `new(default parameters)`, the default parameters being the harness's own table of what the
//!     `Default` impls document (Bernoulli 0.5, Beta(1,1), Binomial(1,0.5), ChiSquared 1,
//!     DiscreteUniform(0,1), Exponential 1, Gamma(1,1), Gumbel(0,1), Normal(0,1), Pareto(1,1), Poisson 1,
//!     T 1, Uniform(0,1)) — checked against the object itself through mean/var/density, so a wrong table
//!     entry shows as a twin difference at once. The object is compared right after construction, again
//!     after a rejected mutation (which must leave it the default law), and then mutated like any other;
//!   * long bulk draws: `sample_n(n)` / `sample_matrix(r, c)` with n = r*c at and around powers of two
//!     up to 2^17 (thorough 2^20) from a fixed seed must be reproducible (two identical seeded calls
//!     agree bit for bit), must be the stream of n successive `sample()` calls from that seed, and the
//!     draws FOLLOWING the bulk call must continue that stream (the generator is left where n single
//!     draws leave it). Stream-length-dependent behaviour is invisible to the 64-draw twin streams.
//! No FFI is used here: the lite workload runs under Miri (data-race detector on the thread part).
use crate::gen::Rng;
use crate::report::{guard, is_budget_panic, jf, par_cases, same_bits, Cfg, Hasher, Report};
use compute::distributions::*;
use serde_json::{json, Value};

/// `true` would demand that a rejected bulk update leaves *every* parameter untouched. The property
/// text only demands that no object ever holds an out-of-domain parameter and that the object is a
/// pure function of its current parameters, so a bulk update that applied its valid prefix before
/// panicking is recorded as evidence (`notes.rejected_update.valid_prefix_applied`) but not as a violation.
const STRICT_ATOMIC_UPDATE: bool = false;

const BUDGET: u64 = 100_000;

#[derive(Clone, Copy, PartialEq, Eq, Debug)]
enum Kind {
    Bernoulli,
    Beta,
    Binomial,
    ChiSquared,
    DiscreteUniform,
    Exponential,
    Gamma,
    Gumbel,
    Normal,
    Pareto,
    Poisson,
    T,
    Uniform,
}
use Kind as K;

const KINDS: [Kind; 13] = [K::Bernoulli, K::Beta, K::Binomial, K::ChiSquared, K::DiscreteUniform, K::Exponential, K::Gamma, K::Gumbel, K::Normal, K::Pareto, K::Poisson, K::T, K::Uniform];

#[derive(Clone, Copy)]
enum Obj {
    Bernoulli(Bernoulli),
    Beta(Beta),
    Binomial(Binomial),
    ChiSquared(ChiSquared),
    DiscreteUniform(DiscreteUniform),
    Exponential(Exponential),
    Gamma(Gamma),
    Gumbel(Gumbel),
    Normal(Normal),
    Pareto(Pareto),
    Poisson(Poisson),
    T(T),
    Uniform(Uniform),
}

impl Kind {
    fn name(self) -> &'static str {
        match self {
            K::Bernoulli => "bernoulli",
            K::Beta => "beta",
            K::Binomial => "binomial",
            K::ChiSquared => "chi2",
            K::DiscreteUniform => "discrete_uniform",
            K::Exponential => "exponential",
            K::Gamma => "gamma",
            K::Gumbel => "gumbel",
            K::Normal => "normal",
            K::Pareto => "pareto",
            K::Poisson => "poisson",
            K::T => "t",
            K::Uniform => "uniform",
        }
    }
    fn setters(self) -> &'static [&'static str] {
        match self {
            K::Bernoulli => &["set_p"],
            K::Beta => &["set_alpha", "set_beta"],
            K::Binomial => &["set_n", "set_p"],
            K::ChiSquared => &["set_dof"],
            K::DiscreteUniform => &["set_lower", "set_upper"],
            K::Exponential => &["set_lambda"],
            K::Gamma => &["set_alpha", "set_beta"],
            K::Gumbel => &["set_mu", "set_beta"],
            K::Normal => &["set_mu", "set_sigma"],
            K::Pareto => &["set_alpha", "set_minval"],
            K::Poisson => &["set_lambda"],
            K::T => &["set_dof"],
            K::Uniform => &["set_lower", "set_upper"],
        }
    }
    fn nparams(self) -> usize {
        self.setters().len()
    }
    fn two_sided(self) -> bool {
        matches!(self, K::Uniform | K::DiscreteUniform)
    }
    fn discrete(self) -> bool {
        matches!(self, K::Bernoulli | K::Binomial | K::DiscreteUniform | K::Poisson)
    }
    /// integer-typed parameter (setter takes u64 / usize / i64, `update` casts from f64)
    fn integer(self, i: usize) -> bool {
        matches!((self, i), (K::Binomial, 0) | (K::ChiSquared, 0) | (K::DiscreteUniform, _))
    }
}

/// Validity table: the constructors' documented domains.
fn valid(kind: Kind, p: &[f64]) -> bool {
    match kind {
        K::Bernoulli => (0.0..=1.0).contains(&p[0]),
        K::Beta | K::Gamma | K::Pareto => p[0] > 0.0 && p[1] > 0.0,
        K::Binomial => p[0] >= 0.0 && (0.0..=1.0).contains(&p[1]),
        K::ChiSquared => p[0] >= 1.0,
        K::DiscreteUniform | K::Uniform => p[0] <= p[1],
        K::Exponential | K::Poisson | K::T => p[0] > 0.0,
        K::Gumbel => p[1] > 0.0,
        K::Normal => p[1] >= 0.0,
    }
}

fn construct(kind: Kind, p: &[f64]) -> Obj {
    match kind {
        K::Bernoulli => Obj::Bernoulli(Bernoulli::new(p[0])),
        K::Beta => Obj::Beta(Beta::new(p[0], p[1])),
        K::Binomial => Obj::Binomial(Binomial::new(p[0] as u64, p[1])),
        K::ChiSquared => Obj::ChiSquared(ChiSquared::new(p[0] as usize)),
        K::DiscreteUniform => Obj::DiscreteUniform(DiscreteUniform::new(p[0] as i64, p[1] as i64)),
        K::Exponential => Obj::Exponential(Exponential::new(p[0])),
        K::Gamma => Obj::Gamma(Gamma::new(p[0], p[1])),
        K::Gumbel => Obj::Gumbel(Gumbel::new(p[0], p[1])),
        K::Normal => Obj::Normal(Normal::new(p[0], p[1])),
        K::Pareto => Obj::Pareto(Pareto::new(p[0], p[1])),
        K::Poisson => Obj::Poisson(Poisson::new(p[0])),
        K::T => Obj::T(T::new(p[0])),
        K::Uniform => Obj::Uniform(Uniform::new(p[0], p[1])),
    }
}

impl Obj {
    fn set(&mut self, i: usize, v: f64) {
        match (self, i) {
            (Obj::Bernoulli(d), _) => {
                d.set_p(v);
            }
            (Obj::Beta(d), 0) => {
                d.set_alpha(v);
            }
            (Obj::Beta(d), _) => {
                d.set_beta(v);
            }
            (Obj::Binomial(d), 0) => {
                d.set_n(v as u64);
            }
            (Obj::Binomial(d), _) => {
                d.set_p(v);
            }
            (Obj::ChiSquared(d), _) => {
                d.set_dof(v as usize);
            }
            (Obj::DiscreteUniform(d), 0) => {
                d.set_lower(v as i64);
            }
            (Obj::DiscreteUniform(d), _) => {
                d.set_upper(v as i64);
            }
            (Obj::Exponential(d), _) => {
                d.set_lambda(v);
            }
            (Obj::Gamma(d), 0) => {
                d.set_alpha(v);
            }
            (Obj::Gamma(d), _) => {
                d.set_beta(v);
            }
            (Obj::Gumbel(d), 0) => {
                d.set_mu(v);
            }
            (Obj::Gumbel(d), _) => {
                d.set_beta(v);
            }
            (Obj::Normal(d), 0) => {
                d.set_mu(v);
            }
            (Obj::Normal(d), _) => {
                d.set_sigma(v);
            }
            (Obj::Pareto(d), 0) => {
                d.set_alpha(v);
            }
            (Obj::Pareto(d), _) => {
                d.set_minval(v);
            }
            (Obj::Poisson(d), _) => {
                d.set_lambda(v);
            }
            (Obj::T(d), _) => {
                d.set_dof(v);
            }
            (Obj::Uniform(d), 0) => {
                d.set_lower(v);
            }
            (Obj::Uniform(d), _) => {
                d.set_upper(v);
            }
        }
    }
    fn update(&mut self, p: &[f64]) {
        match self {
            Obj::Bernoulli(d) => d.update(p),
            Obj::Beta(d) => d.update(p),
            Obj::Binomial(d) => d.update(p),
            Obj::ChiSquared(d) => d.update(p),
            Obj::DiscreteUniform(d) => d.update(p),
            Obj::Exponential(d) => d.update(p),
            Obj::Gamma(d) => d.update(p),
            Obj::Gumbel(d) => d.update(p),
            Obj::Normal(d) => d.update(p),
            Obj::Pareto(d) => d.update(p),
            Obj::Poisson(d) => d.update(p),
            Obj::T(d) => d.update(p),
            Obj::Uniform(d) => d.update(p),
        }
    }
    fn density(&self, x: f64) -> f64 {
        match self {
            Obj::Bernoulli(d) => d.pmf(x as i64),
            Obj::Beta(d) => d.pdf(x),
            Obj::Binomial(d) => d.pmf(x as i64),
            Obj::ChiSquared(d) => d.pdf(x),
            Obj::DiscreteUniform(d) => d.pmf(x as i64),
            Obj::Exponential(d) => d.pdf(x),
            Obj::Gamma(d) => d.pdf(x),
            Obj::Gumbel(d) => d.pdf(x),
            Obj::Normal(d) => d.pdf(x),
            Obj::Pareto(d) => d.pdf(x),
            Obj::Poisson(d) => d.pmf(x as i64),
            Obj::T(d) => d.pdf(x),
            Obj::Uniform(d) => d.pdf(x),
        }
    }
    /// `Continuous::ln_pdf` (the discrete laws have no log-mass method)
    fn ln_density(&self, x: f64) -> Option<f64> {
        Some(match self {
            Obj::Beta(d) => d.ln_pdf(x),
            Obj::ChiSquared(d) => d.ln_pdf(x),
            Obj::Exponential(d) => d.ln_pdf(x),
            Obj::Gamma(d) => d.ln_pdf(x),
            Obj::Gumbel(d) => d.ln_pdf(x),
            Obj::Normal(d) => d.ln_pdf(x),
            Obj::Pareto(d) => d.ln_pdf(x),
            Obj::T(d) => d.ln_pdf(x),
            Obj::Uniform(d) => d.ln_pdf(x),
            Obj::Bernoulli(_) | Obj::Binomial(_) | Obj::DiscreteUniform(_) | Obj::Poisson(_) => return None,
        })
    }
    /// inherent `cdf` (only Normal has one)
    fn cdf(&self, x: f64) -> Option<f64> {
        match self {
            Obj::Normal(d) => Some(d.cdf(x)),
            _ => None,
        }
    }
    fn debug_repr(&self) -> String {
        match self {
            Obj::Bernoulli(d) => format!("{:?}", d),
            Obj::Beta(d) => format!("{:?}", d),
            Obj::Binomial(d) => format!("{:?}", d),
            Obj::ChiSquared(d) => format!("{:?}", d),
            Obj::DiscreteUniform(d) => format!("{:?}", d),
            Obj::Exponential(d) => format!("{:?}", d),
            Obj::Gamma(d) => format!("{:?}", d),
            Obj::Gumbel(d) => format!("{:?}", d),
            Obj::Normal(d) => format!("{:?}", d),
            Obj::Pareto(d) => format!("{:?}", d),
            Obj::Poisson(d) => format!("{:?}", d),
            Obj::T(d) => format!("{:?}", d),
            Obj::Uniform(d) => format!("{:?}", d),
        }
    }
    fn mean(&self) -> f64 {
        match self {
            Obj::Bernoulli(d) => d.mean(),
            Obj::Beta(d) => d.mean(),
            Obj::Binomial(d) => d.mean(),
            Obj::ChiSquared(d) => d.mean(),
            Obj::DiscreteUniform(d) => d.mean(),
            Obj::Exponential(d) => d.mean(),
            Obj::Gamma(d) => d.mean(),
            Obj::Gumbel(d) => d.mean(),
            Obj::Normal(d) => d.mean(),
            Obj::Pareto(d) => d.mean(),
            Obj::Poisson(d) => d.mean(),
            Obj::T(d) => d.mean(),
            Obj::Uniform(d) => d.mean(),
        }
    }
    fn var(&self) -> f64 {
        match self {
            Obj::Bernoulli(d) => d.var(),
            Obj::Beta(d) => d.var(),
            Obj::Binomial(d) => d.var(),
            Obj::ChiSquared(d) => d.var(),
            Obj::DiscreteUniform(d) => d.var(),
            Obj::Exponential(d) => d.var(),
            Obj::Gamma(d) => d.var(),
            Obj::Gumbel(d) => d.var(),
            Obj::Normal(d) => d.var(),
            Obj::Pareto(d) => d.var(),
            Obj::Poisson(d) => d.var(),
            Obj::T(d) => d.var(),
            Obj::Uniform(d) => d.var(),
        }
    }
    fn sample(&self) -> f64 {
        match self {
            Obj::Bernoulli(d) => d.sample(),
            Obj::Beta(d) => d.sample(),
            Obj::Binomial(d) => d.sample(),
            Obj::ChiSquared(d) => d.sample(),
            Obj::DiscreteUniform(d) => d.sample(),
            Obj::Exponential(d) => d.sample(),
            Obj::Gamma(d) => d.sample(),
            Obj::Gumbel(d) => d.sample(),
            Obj::Normal(d) => d.sample(),
            Obj::Pareto(d) => d.sample(),
            Obj::Poisson(d) => d.sample(),
            Obj::T(d) => d.sample(),
            Obj::Uniform(d) => d.sample(),
        }
    }
}

impl Obj {
    fn dist(&self) -> &dyn Distribution1D {
        match self {
            Obj::Bernoulli(d) => d,
            Obj::Beta(d) => d,
            Obj::Binomial(d) => d,
            Obj::ChiSquared(d) => d,
            Obj::DiscreteUniform(d) => d,
            Obj::Exponential(d) => d,
            Obj::Gamma(d) => d,
            Obj::Gumbel(d) => d,
            Obj::Normal(d) => d,
            Obj::Pareto(d) => d,
            Obj::Poisson(d) => d,
            Obj::T(d) => d,
            Obj::Uniform(d) => d,
        }
    }
}

/// `Default::default()` of every distribution.
fn construct_default(kind: Kind) -> Obj {
    match kind {
        K::Bernoulli => Obj::Bernoulli(Default::default()),
        K::Beta => Obj::Beta(Default::default()),
        K::Binomial => Obj::Binomial(Default::default()),
        K::ChiSquared => Obj::ChiSquared(Default::default()),
        K::DiscreteUniform => Obj::DiscreteUniform(Default::default()),
        K::Exponential => Obj::Exponential(Default::default()),
        K::Gamma => Obj::Gamma(Default::default()),
        K::Gumbel => Obj::Gumbel(Default::default()),
        K::Normal => Obj::Normal(Default::default()),
        K::Pareto => Obj::Pareto(Default::default()),
        K::Poisson => Obj::Poisson(Default::default()),
        K::T => Obj::T(Default::default()),
        K::Uniform => Obj::Uniform(Default::default()),
    }
}

/// The parameters a default object stands for (the harness's own table: the standard member of each
/// family, as the library's `Default` impls state them).
fn default_params(kind: Kind) -> Vec<f64> {
    match kind {
        K::Bernoulli => vec![0.5],
        K::Beta | K::Gamma | K::Pareto => vec![1.0, 1.0],
        K::Binomial => vec![1.0, 0.5],
        K::ChiSquared | K::Exponential | K::Poisson | K::T => vec![1.0],
        K::DiscreteUniform | K::Gumbel | K::Normal | K::Uniform => vec![0.0, 1.0],
    }
}

// ---------------------------------------------------------------------------------------------
// observation

type Val = Result<f64, String>;

#[derive(Clone)]
struct Obs {
    at: Vec<f64>,
    density: Vec<Val>,
    /// probe points of the log-density / cdf: `at` and the far tails (where a density underflows but a
    /// log-space evaluation does not)
    at_ln: Vec<f64>,
    /// `ln_pdf` at `at_ln` (empty for the discrete laws)
    ln_density: Vec<Val>,
    /// `cdf` at `at_ln` (empty unless the law has one)
    cdf: Vec<Val>,
    mean: Val,
    var: Val,
}

fn val_eq(a: &Val, b: &Val) -> bool {
    match (a, b) {
        (Ok(x), Ok(y)) => same_bits(*x, *y),
        (Err(x), Err(y)) => x == y || (is_budget_panic(x) && is_budget_panic(y)),
        _ => false,
    }
}
fn jval(v: &Val) -> Value {
    match v {
        Ok(x) => crate::report::jnum(*x),
        Err(e) => json!({"panic": e}),
    }
}

/// 16 probe points derived from the model parameters (the same points for object and twin).
fn probes(kind: Kind, p: &[f64]) -> Vec<f64> {
    let a = p[0];
    let b = *p.last().unwrap();
    if kind == K::Binomial {
        // inside the support only: pmf outside 0..=n panics on the unchanged tree (C02's business)
        let n = a as u64;
        let ks = [0u64, 1, 2, 3, 5, 8, 13, 21, 34, 55, n, n / 2, n / 3, n.saturating_sub(1), n / 2 + 1, 2 * n / 3];
        return ks.iter().map(|&k| (k % (n + 1)) as f64).collect();
    }
    if kind.discrete() {
        let mid = ((a + b) / 2.0).floor();
        return vec![-1.0, 0.0, 1.0, 2.0, 3.0, 5.0, 8.0, 13.0, 21.0, 50.0, a.floor(), b.floor(), mid, a.floor() - 1.0, b.floor() + 1.0, (a + 2.0 * b).floor()];
    }
    vec![-3.0, -1.0, -0.25, 0.0, 0.1, 0.5, 0.9, 1.0, 1.5, 2.5, 7.0, 30.0, a, b, 0.5 * (a + b), a + 2.0 * b]
}

/// `Normal::cdf` is evaluated only where the object's own `mean()`, `var()` and `pdf(x)` say that its
/// standardised argument (x − μ)/σ is a number. On the unchanged tree `erf(NaN)` recurses without end
/// (`if x >= 0. {..} else { -erf(-x) }`): `Normal::new(mu, 0.).cdf(mu)` overflows the stack and aborts
/// the process — not a panic, so `guard` cannot contain it (reported as a finding outside C18: object
/// and twin behave alike). A degenerate object is skipped on both sides; if only one side is
/// degenerate the two `Val`s differ and the comparison fails as it should.
fn cdf_evaluable(o: &Obj, x: f64) -> bool {
    let z = guard(|| (x - o.mean()) / o.var().sqrt());
    let d = guard(|| o.density(x));
    matches!(z, Ok(z) if !z.is_nan()) && matches!(d, Ok(d) if d.is_finite())
}

fn observe(kind: Kind, p: &[f64], o: &Obj) -> Obs {
    let at = probes(kind, p);
    let mut at_ln = at.clone();
    at_ln.extend([-1e6, -1e3, -40.0, -1e-5, -1e-300, 1e-300, 1e-5, 40.0, 1e3, 1e6]);
    let has_ln = !kind.discrete();
    let has_cdf = kind == K::Normal;
    Obs {
        density: at.iter().map(|&x| guard(|| o.density(x))).collect(),
        ln_density: if has_ln { at_ln.iter().map(|&x| guard(|| o.ln_density(x).unwrap())).collect() } else { vec![] },
        cdf: if has_cdf { at_ln.iter().map(|&x| if cdf_evaluable(o, x) { guard(|| o.cdf(x).unwrap()) } else { Err("cdf not evaluated here (degenerate object: the standardised argument is not a number)".into()) }).collect() } else { vec![] },
        at,
        at_ln,
        mean: guard(|| o.mean()),
        var: guard(|| o.var()),
    }
}

type Stream = Result<Vec<f64>, String>;

fn draws(rep: &mut Report, o: &Obj, seed: u64, n: usize) -> Stream {
    rep.absorb_hooks(); // per-site counters restart, so the budget is per stream
    compute::verif_hooks::set_budget(BUDGET);
    alea::set_seed(seed);
    let r = guard(|| (0..n).map(|_| o.sample()).collect::<Vec<f64>>());
    compute::verif_hooks::set_budget(u64::MAX);
    rep.absorb_hooks();
    r
}

/// `sample_n(n)` / `sample_matrix(r, c)` of an object from a seed; the matrix shape leads the stream.
fn bulk_draws(rep: &mut Report, o: &Obj, seed: u64, shape: Result<usize, (usize, usize)>) -> Stream {
    rep.absorb_hooks();
    compute::verif_hooks::set_budget(BUDGET);
    alea::set_seed(seed);
    let r = guard(|| match shape {
        Ok(n) => o.dist().sample_n(n).v,
        Err((r, c)) => {
            let m = o.dist().sample_matrix(r, c);
            let mut v = vec![m.nrows as f64, m.ncols as f64];
            v.extend(m.data.v);
            v
        }
    });
    compute::verif_hooks::set_budget(u64::MAX);
    rep.absorb_hooks();
    r
}

fn stream_eq(a: &Stream, b: &Stream) -> bool {
    match (a, b) {
        (Ok(x), Ok(y)) => crate::report::same_bits_slice(x, y),
        (Err(x), Err(y)) => x == y || (is_budget_panic(x) && is_budget_panic(y)),
        _ => false,
    }
}
fn jstream(s: &Stream) -> Value {
    match s {
        Ok(v) => jf(&v[..v.len().min(8)]),
        Err(e) => json!({"panic": e}),
    }
}

struct Ctx<'a> {
    kind: Kind,
    history: &'a [String],
    n_draws: usize,
}

/// Compare object and twin; returns true if every observable agreed.
fn compare(rep: &mut Report, cx: &Ctx, regime: &str, model: &[f64], obj: &Obj, twin: &Obj, seed: u64) -> bool {
    let (a, b) = (observe(cx.kind, model, obj), observe(cx.kind, model, twin));
    let head = |what: Value| json!({"distribution": cx.kind.name(), "history": cx.history, "parameters_expected_current": jf(model), "difference": what});
    let mut all = true;
    let bad = (0..a.at.len()).find(|&i| !val_eq(&a.density[i], &b.density[i]));
    all &= rep.check("C18.twin.density", regime, bad.is_none(), || {
        let i = bad.unwrap();
        head(json!({"at": a.at[i], "mutated_object": jval(&a.density[i]), "fresh_twin": jval(&b.density[i])}))
    });
    // every further method the distribution traits (and the inherent impls) offer: the log-density of the
    // continuous laws — a trait method with a default body that any law may override — and Normal's cdf
    if !a.ln_density.is_empty() {
        rep.seen(&format!("cover:{}:ln_pdf", cx.kind.name()), 1);
        let bad = (0..a.at_ln.len()).find(|&i| !val_eq(&a.ln_density[i], &b.ln_density[i]));
        all &= rep.check("C18.twin.ln_density", regime, bad.is_none(), || {
            let i = bad.unwrap();
            head(json!({"method": "ln_pdf", "at": a.at_ln[i], "mutated_object": jval(&a.ln_density[i]), "fresh_twin": jval(&b.ln_density[i])}))
        });
    }
    if !a.cdf.is_empty() {
        rep.seen(&format!("cover:{}:cdf", cx.kind.name()), 1);
        let bad = (0..a.at_ln.len()).find(|&i| !val_eq(&a.cdf[i], &b.cdf[i]));
        all &= rep.check("C18.twin.cdf", regime, bad.is_none(), || {
            let i = bad.unwrap();
            head(json!({"method": "cdf", "at": a.at_ln[i], "mutated_object": jval(&a.cdf[i]), "fresh_twin": jval(&b.cdf[i])}))
        });
    }
    all &= rep.check("C18.twin.mean", regime, val_eq(&a.mean, &b.mean), || head(json!({"mutated_object": jval(&a.mean), "fresh_twin": jval(&b.mean)})));
    all &= rep.check("C18.twin.var", regime, val_eq(&a.var, &b.var), || head(json!({"mutated_object": jval(&a.var), "fresh_twin": jval(&b.var)})));
    let sa = draws(rep, obj, seed, cx.n_draws);
    let sb = draws(rep, twin, seed, cx.n_draws);
    if matches!(&sa, Err(e) if is_budget_panic(e)) {
        rep.note_add("streams_cut_by_iteration_budget(both sides compared as equal behaviour)", 1.0);
    }
    all &= rep.check("C18.twin.samples", regime, stream_eq(&sa, &sb), || head(json!({"seed": seed, "draws": cx.n_draws, "mutated_object_first": jstream(&sa), "fresh_twin_first": jstream(&sb),
        "mean_of_stream": [sa.as_ref().ok().map(|v| v.iter().sum::<f64>() / v.len() as f64), sb.as_ref().ok().map(|v| v.iter().sum::<f64>() / v.len() as f64)]})));
    // the bulk forms of `Distribution1D` (default bodies that a law may override) on the MUTATED object
    let nb = (cx.n_draws / 5).max(4);
    let (r, c) = if seed & 2 == 0 { (2, nb / 2) } else { (nb / 2, 2) };
    for (api, shape) in [("sample_n", Ok(nb)), ("sample_matrix", Err((r, c)))] {
        let sa = bulk_draws(rep, obj, seed, shape);
        let sb = bulk_draws(rep, twin, seed, shape);
        all &= rep.check(&format!("C18.twin.{}", api), regime, stream_eq(&sa, &sb), || head(json!({"method": api, "seed": seed, "n": nb, "matrix_shape": [r, c], "mutated_object_first": jstream(&sa), "fresh_twin_first": jstream(&sb)})));
    }
    // the internal state as `Debug` prints it: evidence only (a cache that no method reads is not observable behaviour)
    if all && obj.debug_repr() != twin.debug_repr() {
        rep.note_add("twin.debug_repr_differs_while_all_methods_agree", 1.0);
    }
    all
}

fn obs_eq(a: &Obs, b: &Obs) -> bool {
    let veq = |x: &[Val], y: &[Val]| x.len() == y.len() && x.iter().zip(y).all(|(x, y)| val_eq(x, y));
    veq(&a.density, &b.density) && veq(&a.ln_density, &b.ln_density) && veq(&a.cdf, &b.cdf) && val_eq(&a.mean, &b.mean) && val_eq(&a.var, &b.var)
}

// ---------------------------------------------------------------------------------------------
// generators

/// (low, high, log-scale?) of the valid range used for parameter `i`. Shape parameters stay >= 0.4
/// (T: dof/2 >= 0.35) so that no verdict depends on the gamma sampler's behaviour below shape 1/3 (C03).
fn range(kind: Kind, i: usize) -> (f64, f64, bool) {
    match (kind, i) {
        (K::Bernoulli, _) | (K::Binomial, 1) => (0.0, 1.0, false),
        (K::Beta, _) => (0.4, 50.0, true),
        (K::Binomial, _) => (0.0, 2000.0, false),
        (K::ChiSquared, _) => (1.0, 200.0, false),
        (K::DiscreteUniform, _) | (K::Uniform, _) => (-1000.0, 1000.0, false),
        (K::Exponential, _) => (1e-3, 1e3, true),
        (K::Gamma, 0) => (0.4, 100.0, true),
        (K::Gamma, _) => (1e-3, 1e3, true),
        (K::Gumbel, 0) | (K::Normal, 0) => (-100.0, 100.0, false),
        (K::Gumbel, _) => (1e-3, 1e3, true),
        (K::Normal, _) => (0.0, 1e3, false),
        (K::Pareto, 0) => (0.1, 50.0, true),
        (K::Pareto, _) => (1e-3, 1e3, true),
        (K::Poisson, _) => (1e-2, 500.0, true),
        (K::T, _) => (0.7, 200.0, true),
    }
}

fn draw_in(rng: &mut Rng, kind: Kind, i: usize, lo: f64, hi: f64) -> f64 {
    let (_, _, log) = range(kind, i);
    let v = if kind.integer(i) {
        rng.int(lo.ceil() as i64, hi.floor() as i64) as f64
    } else if log && lo > 0.0 {
        rng.log_range(lo, hi)
    } else {
        rng.range(lo, hi)
    };
    // boundary values of closed domains now and then
    if !kind.integer(i) && rng.chance(0.06) {
        if lo == range(kind, i).0 && matches!((kind, i), (K::Bernoulli, _) | (K::Binomial, 1) | (K::Normal, 1)) {
            return lo;
        }
        if hi == 1.0 && matches!((kind, i), (K::Bernoulli, _) | (K::Binomial, 1)) {
            return 1.0;
        }
    }
    v
}

fn initial(rng: &mut Rng, kind: Kind) -> Vec<f64> {
    let mut p: Vec<f64> = (0..kind.nparams())
        .map(|i| {
            let (lo, hi, _) = range(kind, i);
            draw_in(rng, kind, i, lo, hi)
        })
        .collect();
    if kind.two_sided() && p[0] > p[1] {
        p.swap(0, 1);
    }
    if kind.two_sided() && p[0] == p[1] {
        p[1] += 1.0;
    }
    p
}

/// Start of a history: the ordinary draw, or (20 %) two exactly equal parameters / one parameter at an
/// edge of its domain — the constructor is the reference for what is valid.
fn initial_structured(rng: &mut Rng, kind: Kind) -> Vec<f64> {
    let p = initial(rng, kind);
    if rng.chance(0.2) {
        let mut q = p.clone();
        if q.len() == 2 && rng.chance(0.4) {
            let i = rng.usize(0, 1);
            q = vec![p[i], p[i]];
        } else {
            let i = rng.usize(0, q.len() - 1);
            q[i] = extreme_value(rng, kind, i).0;
        }
        if vector_ok(kind, &q) {
            return q;
        }
    }
    p
}

/// A valid new value for parameter `i` given the rest of the model, on the requested side of the
/// current value when that side is non-empty. Returns (value, "up" | "down" | "same").
fn valid_target(rng: &mut Rng, kind: Kind, i: usize, model: &[f64]) -> (f64, &'static str) {
    let up = rng.bool();
    let (mut lo, mut hi, _) = range(kind, i);
    if kind.two_sided() {
        // lower <= upper; the window follows the other bound when a history has left the moderate range
        if i == 0 {
            hi = model[1];
            lo = lo.min(hi - 2000.0);
        } else {
            lo = model[0];
            hi = hi.max(lo + 2000.0);
        }
    }
    let real = model[i];
    // a current value outside the moderate range (left there by an "extreme" step): draw on the
    // requested side of its projection, i.e. move back into the moderate range
    let cur = if kind.two_sided() { real } else { real.clamp(lo, hi) };
    let step = if kind.integer(i) { 1.0 } else { 0.0 };
    let (a, b) = if up { (cur + step, hi) } else { (lo, cur - step) };
    let (a, b) = if a > b || (a == b && !kind.integer(i) && a == cur) { if up { (lo, cur - step) } else { (cur + step, hi) } } else { (a, b) };
    if a > b {
        return (real, "same");
    }
    let v = draw_in(rng, kind, i, a, b);
    let mut next = model.to_vec();
    next[i] = v;
    if !vector_ok(kind, &next) {
        return (real, "same"); // e.g. hi - lo overflowed between two huge bounds
    }
    (v, if v > real { "up" } else if v < real { "down" } else { "same" })
}

/// An invalid value for parameter `i` (None if the parameter has no invalid non-NaN value).
fn invalid_target(rng: &mut Rng, kind: Kind, i: usize, model: &[f64]) -> Option<f64> {
    let pick = |rng: &mut Rng, xs: &[f64]| *rng.choose(xs);
    match (kind, i) {
        (K::Bernoulli, _) | (K::Binomial, 1) => Some(if rng.bool() { pick(rng, &[-0.1, -1.0, -5e-324, -1e300, f64::NEG_INFINITY]) } else { pick(rng, &[1.1, 1.0 + f64::EPSILON, 2.0, 1e300, f64::INFINITY]) }),
        (K::Binomial, _) | (K::Gumbel, 0) | (K::Normal, 0) => None,
        (K::ChiSquared, _) => Some(0.0),
        (K::Normal, _) => Some(pick(rng, &[-1.0, -1e-3, -5e-324, -1e300, f64::NEG_INFINITY])),
        (K::DiscreteUniform, 0) => Some(model[1] + rng.int(1, 50) as f64),
        (K::DiscreteUniform, _) => Some(model[0] - rng.int(1, 50) as f64),
        // strictly beyond the other bound also where the offset is absorbed by a huge bound
        (K::Uniform, 0) => {
            let v = model[1] + rng.log_range(1e-6, 1e3);
            Some(if v > model[1] { v } else { next_above(model[1]) })
        }
        (K::Uniform, _) => {
            let v = model[0] - rng.log_range(1e-6, 1e3);
            Some(if v < model[0] { v } else { -next_above(-model[0]) })
        }
        _ => Some(pick(rng, &[0.0, -0.0, -1.0, -1e-3, -5e-324, -1e300, f64::NEG_INFINITY])),
    }
}

// ---------------------------------------------------------------------------------------------
// structured targets: exact coincidences between parameters and the extremes of the documented domains

/// Documented domain of one parameter (the validity table of single values; `valid` adds the
/// relation between the two bounds of the two-sided laws).
#[derive(Clone, Copy, PartialEq, Eq)]
enum Dom {
    /// (0, inf): "panics if x <= 0"
    Pos,
    /// [0, inf): Normal sigma
    NonNeg,
    /// any real: location parameters
    Real,
    /// [0, 1]
    Prob,
    /// u64, every value valid (Binomial n)
    Count,
    /// usize >= 1 (ChiSquared dof)
    Dof,
    /// i64 bound of DiscreteUniform
    Int,
    /// f64 bound of Uniform
    Bound,
}

fn dom(kind: Kind, i: usize) -> Dom {
    match (kind, i) {
        (K::Bernoulli, _) | (K::Binomial, 1) => Dom::Prob,
        (K::Binomial, _) => Dom::Count,
        (K::ChiSquared, _) => Dom::Dof,
        (K::DiscreteUniform, _) => Dom::Int,
        (K::Uniform, _) => Dom::Bound,
        (K::Gumbel, 0) | (K::Normal, 0) => Dom::Real,
        (K::Normal, _) => Dom::NonNeg,
        _ => Dom::Pos,
    }
}

/// Is `v` a value the monitor may present as VALID for parameter `i`? Finite values of the documented
/// domain only (±inf and NaN are accepted by most constructors but are not parameters of any law);
/// integer parameters stay where the f64 -> integer cast of `update` is exact and where the library's
/// own integer arithmetic (upper - lower + 1, lower + upper) cannot overflow.
fn value_ok(kind: Kind, i: usize, v: f64) -> bool {
    if !v.is_finite() {
        return false;
    }
    match dom(kind, i) {
        Dom::Pos => v > 0.0,
        Dom::NonNeg => v >= 0.0,
        Dom::Real | Dom::Bound => true,
        Dom::Prob => (0.0..=1.0).contains(&v),
        Dom::Count => v >= 0.0 && v <= 1e18 && v.fract() == 0.0,
        Dom::Dof => v >= 1.0 && v <= 1e18 && v.fract() == 0.0,
        Dom::Int => v.abs() <= 1e15 && v.fract() == 0.0,
    }
}

fn vector_ok(kind: Kind, p: &[f64]) -> bool {
    p.len() == kind.nparams() && (0..p.len()).all(|i| value_ok(kind, i, p[i])) && valid(kind, p)
}

/// Outside the moderate range the ordinary generator draws from (used for labels and for the length
/// of the compared sample stream only, never for a verdict).
fn outside(kind: Kind, i: usize, v: f64) -> bool {
    match dom(kind, i) {
        Dom::Int | Dom::Bound => v.abs() > 1e6,
        Dom::Real => v.abs() > 1e6 || (v != 0.0 && v.abs() < 1e-6),
        Dom::Prob => (v > 0.0 && v < 1e-6) || (v < 1.0 && v > 1.0 - 1e-6),
        _ => {
            let (lo, hi, _) = range(kind, i);
            v > hi || (v < lo && v != 0.0)
        }
    }
}

/// A valid value from the edges of the documented domain. "tiny": (0, moderate range) down to the
/// smallest subnormal — 1e-300..1e-15 and the decades between 1e-15 and the moderate range, so that a
/// positivity test against any threshold other than 0 (EPSILON, 1e-8, MIN_POSITIVE, ...) is met;
/// "huge": up to f64::MAX (probabilities: up to the last value below 1; integers: up to 1e18 / 1e15).
fn extreme_value(rng: &mut Rng, kind: Kind, i: usize) -> (f64, &'static str) {
    let tiny = rng.bool();
    let (lo, hi, _) = range(kind, i);
    let mag = if tiny {
        match rng.usize(0, 11) {
            0 => 5e-324,
            1 => f64::MIN_POSITIVE,
            2 => f64::EPSILON * 0.5,
            3 => 1e-15,
            4..=7 => rng.log_range(1e-300, 1e-15),
            _ => rng.log_range(1e-15, if lo > 1e-15 { lo } else { 1e-3 }),
        }
    } else {
        match rng.usize(0, 11) {
            0 => f64::MAX,
            1 => 1e300,
            2 => 1e15,
            3..=7 => rng.log_range(1e15, 1e300),
            _ => rng.log_range(if hi < 1e15 && hi > 0.0 { hi } else { 1e3 }, 1e15),
        }
    };
    let sign = if rng.bool() { 1.0 } else { -1.0 };
    let v = match dom(kind, i) {
        Dom::Pos | Dom::NonNeg => mag,
        Dom::Real | Dom::Bound => sign * mag,
        Dom::Prob => {
            if tiny {
                mag
            } else if rng.bool() {
                1.0 - rng.usize(1, 4) as f64 * f64::EPSILON * 0.5
            } else {
                1.0 - rng.log_range(1.2e-16, 1e-3)
            }
        }
        Dom::Count => {
            if tiny {
                rng.usize(0, 1) as f64
            } else {
                rng.log_range(2001.0, 1e18).floor()
            }
        }
        Dom::Dof => {
            if tiny {
                1.0
            } else {
                rng.log_range(201.0, 1e18).floor()
            }
        }
        Dom::Int => {
            let m = if tiny { rng.usize(0, 1) as f64 } else { rng.log_range(1001.0, 1e15).floor() };
            if m == 0.0 {
                0.0
            } else {
                sign * m
            }
        }
    };
    (v, if tiny { "tiny" } else { "huge" })
}

/// Structured valid value for the single setter `i`: the current value of the same parameter ("same"),
/// the current value of the other parameter ("cross"), or an edge of the domain ("tiny" / "huge").
fn structured_value(rng: &mut Rng, kind: Kind, i: usize, model: &[f64]) -> Option<(f64, &'static str)> {
    for _ in 0..6 {
        let (v, tag) = match rng.usize(0, 5) {
            0 => (model[i], "same"),
            1 | 2 if kind.nparams() == 2 => (model[1 - i], "cross"),
            _ => extreme_value(rng, kind, i),
        };
        let mut next = model.to_vec();
        next[i] = v;
        if vector_ok(kind, &next) {
            return Some((v, tag));
        }
    }
    None
}

/// Label of a valid bulk target by its structure relative to the current parameters (first match):
/// same (nothing changes) / equal (both targets bit-equal) / swap / cross (a target equals the CURRENT
/// value of the other parameter) / one-changes / extreme (a value outside the moderate range) / None.
fn classify_update(kind: Kind, model: &[f64], p: &[f64]) -> Option<&'static str> {
    let eq = |x: f64, y: f64| x.to_bits() == y.to_bits();
    if p.iter().zip(model).all(|(x, y)| eq(*x, *y)) {
        return Some("same");
    }
    if p.len() == 2 {
        let (a, b) = (model[0], model[1]);
        if eq(p[0], p[1]) {
            return Some("equal");
        }
        if eq(p[0], b) && eq(p[1], a) {
            return Some("swap");
        }
        if eq(p[0], b) || eq(p[1], a) {
            return Some("cross");
        }
        if eq(p[0], a) || eq(p[1], b) {
            return Some("one-changes");
        }
    }
    if (0..p.len()).any(|i| outside(kind, i, p[i])) {
        return Some("extreme");
    }
    None
}

/// Structured valid target vector for `update` (see `classify_update` for the classes).
fn structured_update(rng: &mut Rng, kind: Kind, model: &[f64]) -> Option<Vec<f64>> {
    let np = kind.nparams();
    for _ in 0..8 {
        let fresh = |rng: &mut Rng, i: usize| if rng.chance(0.25) { extreme_value(rng, kind, i).0 } else { valid_target(rng, kind, i, model).0 };
        let p: Vec<f64> = if np == 1 {
            if rng.chance(0.3) {
                model.to_vec()
            } else {
                vec![extreme_value(rng, kind, 0).0]
            }
        } else {
            let (a, b) = (model[0], model[1]);
            match rng.usize(0, 9) {
                // both targets exactly equal: a new value, or the current value of one of the two
                0 | 1 => {
                    let i = rng.usize(0, 1);
                    let v = fresh(rng, i);
                    vec![v, v]
                }
                2 => {
                    let v = model[rng.usize(0, 1)];
                    vec![v, v]
                }
                3 => vec![b, a],
                // one target equals the current value of the OTHER parameter
                4 => vec![b, fresh(rng, 1)],
                5 => vec![fresh(rng, 0), a],
                // only one of the two changes
                6 => vec![fresh(rng, 0), b],
                7 => vec![a, fresh(rng, 1)],
                8 => vec![a, b],
                // edges of the domain in one or both positions
                _ => match rng.usize(0, 2) {
                    0 => vec![extreme_value(rng, kind, 0).0, valid_target(rng, kind, 1, model).0],
                    1 => vec![valid_target(rng, kind, 0, model).0, extreme_value(rng, kind, 1).0],
                    _ => vec![extreme_value(rng, kind, 0).0, extreme_value(rng, kind, 1).0],
                },
            }
        };
        if vector_ok(kind, &p) {
            return Some(p);
        }
    }
    None
}

/// Smallest f64 above `x` (finite x).
fn next_above(x: f64) -> f64 {
    if x == 0.0 {
        5e-324
    } else if x > 0.0 {
        f64::from_bits(x.to_bits() + 1)
    } else {
        f64::from_bits(x.to_bits() - 1)
    }
}

// ---------------------------------------------------------------------------------------------
// one history

fn history(cfg: &Cfg, rep: &mut Report, rng: &mut Rng, kind: Kind, from_default: bool) {
    let name = kind.name();
    // stream length: shorter while a parameter sits at an edge of its domain (samplers may then run
    // into the iteration budget on both sides, which costs time and decides nothing)
    let draws_for = |m: &[f64]| if cfg.miri() { 8 } else if (0..m.len()).any(|i| outside(kind, i, m[i])) { 16 } else { 64 };
    let mut hist: Vec<String> = Vec::new();
    let mut hash = Hasher::new().s(name);
    let mut changed = false;

    // constructor, valid and invalid
    // (not under Miri: the edges of the domains cost sampler iterations and add nothing to a UB search)
    let structured_on = !cfg.miri();
    let mut model = if from_default {
        default_params(kind)
    } else if structured_on {
        initial_structured(rng, kind)
    } else {
        initial(rng, kind)
    };
    hist.push(if from_default { "Default::default()".to_string() } else { format!("new({:?})", model) });
    hash = hash.u(from_default as u64);
    let ctor_regime = if from_default {
        format!("{}:default", name)
    } else if (0..model.len()).any(|i| outside(kind, i, model[i])) {
        format!("{}:ctor:extreme", name)
    } else {
        format!("{}:ctor", name)
    };
    rep.case(&ctor_regime);
    let mut obj = match guard(|| if from_default { construct_default(kind) } else { construct(kind, &model) }) {
        Ok(o) => {
            rep.check("C18.ctor.accepts_valid", &ctor_regime, true, || json!(null));
            o
        }
        Err(msg) => {
            rep.check("C18.ctor.accepts_valid", &ctor_regime, false, || json!({"distribution": name, "history": hist, "parameters": jf(&model), "panic": msg}));
            return;
        }
    };
    if !from_default && (!cfg.miri() || rng.chance(0.3)) {
        for i in 0..kind.nparams() {
            if let Some(bad) = invalid_target(rng, kind, i, &model) {
                let mut p = model.clone();
                p[i] = bad;
                let r = guard(|| construct(kind, &p));
                rep.check("C18.ctor.rejects_invalid", &format!("{}:ctor:{}", name, &kind.setters()[i][4..]), r.is_err(), || json!({"distribution": name, "parameters": jf(&p), "expected": "panic", "observed": "object constructed"}));
                break;
            }
        }
    }
    {
        let twin = construct(kind, &model);
        let cx = Ctx { kind, history: &hist, n_draws: draws_for(&model) };
        compare(rep, &cx, &ctor_regime, &model, &obj, &twin, rng.u64() | 1);
    }
    if from_default {
        // a rejected mutation first: the object the caller still holds must still be the default law
        // (pdf/mean/var AND the seeded stream — `C18.rejected.unchanged` in the step loop below looks at
        // the closed forms only and then continues from a rebuilt object)
        let i = rng.usize(0, kind.nparams() - 1);
        let cand = (0..kind.nparams()).map(|j| (i + j) % kind.nparams()).find_map(|j| invalid_target(rng, kind, j, &model).map(|v| (j, v)));
        if let Some((j, v)) = cand {
            let regime = format!("{}:default:after-rejected", name);
            rep.case(&regime);
            let via_update = rng.bool();
            let mut p = model.clone();
            p[j] = v;
            if kind.two_sided() && via_update {
                // lower > upper as a pair
                p = vec![model[1] + 1.0 + rng.int(0, 50) as f64, model[1]];
            }
            hist.push(if via_update { format!("update({:?}) [invalid]", p) } else { format!("{}({:?}) [invalid]", kind.setters()[j], v) });
            hash = hash.s("rejected").fs(&p);
            let mut o2 = obj;
            let r = guard(|| if via_update { o2.update(&p) } else { o2.set(j, v) });
            if r.is_err() {
                // every position of `p` other than the invalid one holds the current value, so there is no
                // valid prefix that could legitimately have been applied: the object must be unchanged
                let twin = construct(kind, &model);
                let cx = Ctx { kind, history: &hist, n_draws: draws_for(&model) };
                compare(rep, &cx, &regime, &model, &o2, &twin, rng.u64() | 1);
            }
            // (an accepted invalid value is reported by the step loop's own checks on other histories)
        }
    }

    let steps = if cfg.miri() { rng.usize(2, 3) } else { rng.usize(1, 20) };
    for _ in 0..steps {
        let seed = rng.u64() | 1;
        let use_update = rng.chance(0.35);
        let want_invalid = rng.chance(0.3);
        if !use_update {
            // ---------------- single setter
            let i = rng.usize(0, kind.nparams() - 1);
            let setter = kind.setters()[i];
            let mut regime = format!("{}:{}", name, setter);
            let bad = if want_invalid { invalid_target(rng, kind, i, &model) } else { None };
            // structured valid targets (35 % of the valid setter steps) get their own regime
            let structured = if structured_on && bad.is_none() && rng.chance(0.35) { structured_value(rng, kind, i, &model) } else { None };
            if let Some((_, tag)) = structured {
                regime = format!("{}:{}:{}", name, setter, tag);
            }
            rep.case(&regime);
            if let Some(v) = bad {
                hist.push(format!("{}({:?}) [invalid]", setter, v));
                hash = hash.s(setter).f(v);
                let before = observe(kind, &model, &obj);
                let mut o2 = obj;
                let r = guard(|| o2.set(i, v));
                let rejected = r.is_err();
                rep.check("C18.setter.rejects_invalid", &regime, rejected, || json!({"distribution": name, "history": hist, "expected": "panic", "observed": "value accepted"}));
                if rejected {
                    // the object the caller still holds after the unwinding panic: `o2`
                    let after = observe(kind, &model, &o2);
                    rep.check("C18.rejected.unchanged", &regime, obs_eq(&before, &after), || json!({"distribution": name, "history": hist, "parameters_expected_current": jf(&model), "observed": "object changed by a rejected call"}));
                }
                // continue from a clean object either way
                obj = construct(kind, &model);
            } else {
                let v = match structured {
                    Some((v, _)) => v,
                    None => {
                        let (v, side) = valid_target(rng, kind, i, &model);
                        rep.seen(&format!("cover:{}:{}", regime, side), 1);
                        v
                    }
                };
                hist.push(format!("{}({:?})", setter, v));
                hash = hash.s(setter).f(v);
                let mut next = model.clone();
                next[i] = v;
                debug_assert!(vector_ok(kind, &next));
                let mut o2 = obj;
                match guard(|| o2.set(i, v)) {
                    Err(msg) => {
                        rep.check("C18.setter.accepts_valid", &regime, false, || json!({"distribution": name, "history": hist, "parameters_before": jf(&model), "panic": msg, "expected": "accepted: the resulting parameters are valid"}));
                        obj = construct(kind, &model);
                    }
                    Ok(()) => {
                        rep.check("C18.setter.accepts_valid", &regime, true, || json!(null));
                        changed |= v != model[i];
                        model = next;
                        obj = o2;
                        let twin = construct(kind, &model);
                        let cx = Ctx { kind, history: &hist, n_draws: draws_for(&model) };
                        if !compare(rep, &cx, &regime, &model, &obj, &twin, seed) {
                            obj = twin; // resynchronise so that one stale step is reported once, under its own regime
                        }
                    }
                }
            }
        } else {
            // ---------------- bulk update
            let np = kind.nparams();
            if want_invalid {
                // choose the first invalid position; positions before it get valid targets
                let candidates: Vec<usize> = (0..np).filter(|&i| invalid_target(&mut rng.clone(), kind, i, &model).is_some()).collect();
                if candidates.is_empty() {
                    continue;
                }
                let bad_at = *rng.choose(&candidates);
                let mut p = model.clone();
                if kind.two_sided() {
                    // lower > upper: either lower beyond the old upper bound (rejected at once) or inside the
                    // old interval with the new upper below it (lower is applied before the upper is rejected)
                    if bad_at == 0 {
                        p[0] = model[1] + 1.0 + rng.int(0, 50) as f64;
                        p[1] = p[0] - 1.0 - rng.int(0, 5) as f64;
                    } else {
                        let (lo, hi) = (model[0], model[1]);
                        p[0] = if kind.integer(0) { rng.int(lo as i64, hi as i64) as f64 } else { rng.range(lo, hi) };
                        p[1] = p[0] - 1.0 - rng.int(0, 50) as f64;
                    }
                    // between huge bounds the offsets are absorbed (or hi - lo overflows): not an invalid vector
                    if !(p[0] > p[1] && p[0].is_finite() && p[1].is_finite()) {
                        continue;
                    }
                } else {
                    for i in 0..np {
                        if i == bad_at {
                            p[i] = invalid_target(rng, kind, i, &model).unwrap();
                        } else {
                            p[i] = valid_target(rng, kind, i, &model).0;
                        }
                    }
                }
                let regime = format!("{}:update:{}", name, if bad_at == 0 { "first-invalid" } else { "valid-prefix" });
                rep.case(&regime);
                hist.push(format!("update({:?}) [invalid]", p));
                hash = hash.s("update").fs(&p);
                let before = observe(kind, &model, &obj);
                let mut o2 = obj;
                let r = guard(|| o2.update(&p));
                let rejected = r.is_err();
                rep.check("C18.update.rejects_invalid", &regime, rejected, || json!({"distribution": name, "history": hist, "expected": "panic", "observed": "vector accepted"}));
                if rejected {
                    let after = observe(kind, &model, &o2);
                    if obs_eq(&before, &after) {
                        rep.check("C18.rejected.unchanged", &regime, true, || json!(null));
                    } else {
                        // the valid prefix may have been applied: the object must then be exactly the twin of those parameters
                        let mut pre = model.clone();
                        pre[..bad_at].copy_from_slice(&p[..bad_at]);
                        let pre_ok = valid(kind, &pre) && obs_eq(&observe(kind, &model, &construct(kind, &pre)), &after);
                        rep.note_add("rejected_update.valid_prefix_applied", 1.0);
                        rep.check("C18.rejected.unchanged", &regime, pre_ok && !STRICT_ATOMIC_UPDATE, || {
                            json!({"distribution": name, "history": hist, "parameters_before": jf(&model), "prefix_applied_would_be": jf(&pre),
                                   "observed": if pre_ok { "the valid prefix of the rejected vector was applied" } else { "object is neither unchanged nor the twin of the valid prefix" }})
                        });
                    }
                }
                obj = construct(kind, &model);
            } else {
                // valid target vector
                let mut p = model.clone();
                let mut tag = String::from("update");
                if kind.two_sided() {
                    let (lo, hi) = (model[0], model[1]);
                    let w = if kind.integer(0) { rng.int(1, 40) as f64 } else { rng.log_range(1e-3, 100.0) };
                    let gap = if kind.integer(0) { rng.int(1, 40) as f64 } else { rng.log_range(1e-3, 100.0) };
                    match rng.usize(0, 3) {
                        0 => {
                            p[0] = hi + gap;
                            p[1] = p[0] + w;
                            tag = "target-above-old-interval".into();
                        }
                        1 => {
                            p[1] = lo - gap;
                            p[0] = p[1] - w;
                            tag = "target-below-old-interval".into();
                        }
                        2 => {
                            p[0] = lo - gap;
                            p[1] = hi + w;
                            tag = "target-contains-old-interval".into();
                        }
                        _ => {
                            let mid = if kind.integer(0) { ((lo + hi) / 2.0).floor() } else { 0.5 * (lo + hi) };
                            p[0] = mid;
                            p[1] = hi + if rng.bool() { w } else { 0.0 };
                            tag = "target-overlaps-old-interval".into();
                        }
                    }
                } else {
                    for i in 0..np {
                        let (v, side) = valid_target(rng, kind, i, &model);
                        p[i] = v;
                        rep.seen(&format!("cover:{}:update:{}:{}", name, &kind.setters()[i][4..], side), 1);
                    }
                }
                let mut regime = if kind.two_sided() { format!("{}:{}", name, tag) } else { format!("{}:update", name) };
                // structured target vectors: half of the valid updates
                if structured_on && rng.chance(0.5) {
                    if let Some(q) = structured_update(rng, kind, &model) {
                        p = q;
                    }
                }
                if !vector_ok(kind, &p) {
                    p = model.clone(); // an overflow between huge bounds: fall back to the no-change target
                }
                if let Some(class) = classify_update(kind, &model, &p) {
                    regime = format!("{}:update:{}", name, class);
                }
                rep.case(&regime);
                hist.push(format!("update({:?})", p));
                hash = hash.s("update").fs(&p);
                let mut o2 = obj;
                match guard(|| o2.update(&p)) {
                    Err(msg) => {
                        rep.check("C18.update.accepts_valid", &regime, false, || json!({"distribution": name, "history": hist, "parameters_before": jf(&model), "target": jf(&p), "panic": msg, "expected": "accepted: the target vector is valid"}));
                        obj = construct(kind, &model);
                    }
                    Ok(()) => {
                        rep.check("C18.update.accepts_valid", &regime, true, || json!(null));
                        changed |= p != model;
                        model = p;
                        obj = o2;
                        let twin = construct(kind, &model);
                        let cx = Ctx { kind, history: &hist, n_draws: draws_for(&model) };
                        if !compare(rep, &cx, &regime, &model, &obj, &twin, seed) {
                            obj = twin;
                        }
                    }
                }
            }
        }
    }
    rep.distinct(hash.finish(), changed);
    rep.sample(|| json!({"distribution": name, "history": hist, "final_parameters": jf(&model)}));
}

// ---------------------------------------------------------------------------------------------
// non-finite candidates: NaN (several signs / payloads), +inf, -inf offered to every parameter of every
// distribution through the constructor, the setter and every position of the bulk-update vector
//
// "invalid values are rejected by a panic in constructors, setters and bulk updates alike, so that no
// object ever holds an out-of-domain parameter". Whether +inf is a valid scale (or NaN a parameter at
// all) the statement does not say, so ACCEPTANCE of a non-finite value is recorded, not judged — except
// that the three routes must agree: a value the constructor rejects must be rejected by the setter and
// by the bulk update too. What IS judged is the object after a call that panicked: the caller catches
// the panic and still holds the object, which must be observationally (every method, seeded streams
// included) the twin of the last accepted parameters — or, after a bulk update, of those parameters
// with a prefix of the offered vector applied, if the constructor accepts that vector.
// Hazards of the unchanged library that the family stays clear of: an object that ACCEPTED a
// non-finite value is never observed (a NaN shape makes Gamma's sampler spin, erf(NaN) recurses without
// end); twins of constructor-accepted prefixes are observed under the iteration budget of `draws`, and
// `Normal::cdf` only where `cdf_evaluable`.

fn value_kind(v: f64) -> &'static str {
    if v.is_nan() {
        "NaN"
    } else if v > 0.0 {
        "+inf"
    } else {
        "-inf"
    }
}

fn show(v: f64) -> String {
    if v.is_nan() {
        format!("NaN[{:#018x}]", v.to_bits())
    } else {
        format!("{:?}", v)
    }
}

fn nonfinite_values(cfg: &Cfg, rng: &mut Rng) -> Vec<f64> {
    let payload = (rng.u64() % ((1u64 << 52) - 1)) + 1;
    let sign = rng.u64() & (1u64 << 63);
    let random_nan = f64::from_bits(sign | 0x7ff0_0000_0000_0000 | payload);
    if cfg.miri() {
        return vec![random_nan, f64::INFINITY]; // a panic costs 0.1 s there
    }
    // negative quiet NaN, signalling patterns of both signs, all-ones payload
    let patterned = f64::from_bits(*rng.choose(&[0xfff8_0000_0000_0000u64, 0x7ff0_0000_0000_0001, 0xfff0_0000_0000_0001, 0x7fff_ffff_ffff_ffff]));
    vec![f64::NAN, patterned, random_nan, f64::INFINITY, f64::NEG_INFINITY]
}

/// The object `o2` after a call that panicked.
fn after_rejection(rep: &mut Report, kind: Kind, regime: &str, hist: &[String], model: &[f64], offered: Option<&[f64]>, o2: &Obj, n_draws: usize, seed: u64) {
    let after = observe(kind, model, o2);
    let same = |a: &[f64], b: &[f64]| a.iter().zip(b).all(|(x, y)| x.to_bits() == y.to_bits());
    let mut cands: Vec<Vec<f64>> = vec![model.to_vec()];
    if let Some(p) = offered {
        for j in 1..p.len() {
            let mut c = model.to_vec();
            c[..j].copy_from_slice(&p[..j]);
            if !same(&c, model) {
                cands.push(c);
            }
        }
    }
    let mut found = None;
    for (ci, c) in cands.iter().enumerate() {
        if let Ok(t) = guard(|| construct(kind, c)) {
            if obs_eq(&observe(kind, model, &t), &after) {
                found = Some((ci, t));
                break;
            }
        }
    }
    rep.check("C18.rejected.unchanged", regime, found.is_some(), || {
        json!({"distribution": kind.name(), "history": hist, "parameters_last_accepted": jf(model),
               "observed": "after the call panicked the object is neither the twin of the last accepted parameters nor that of a constructor-accepted prefix of the offered vector",
               "mean_after": jval(&after.mean), "var_after": jval(&after.var), "density_after_at": after.at.first(), "density_after": after.density.first().map(jval)})
    });
    if let Some((ci, twin)) = found {
        if ci > 0 {
            rep.note_add("rejected_update.valid_prefix_applied", 1.0);
        }
        let cx = Ctx { kind, history: hist, n_draws };
        compare(rep, &cx, regime, model, o2, &twin, seed);
    }
}

fn nonfinite_case(cfg: &Cfg, rep: &mut Report, rng: &mut Rng, kind: Kind) {
    let name = kind.name();
    let np = kind.nparams();
    let model = initial(rng, kind);
    let start = format!("new({:?})", model);
    let obj = match guard(|| construct(kind, &model)) {
        Ok(o) => o,
        Err(msg) => {
            rep.check("C18.ctor.accepts_valid", &format!("{}:ctor", name), false, || json!({"distribution": name, "parameters": jf(&model), "panic": msg}));
            return;
        }
    };
    let n_draws = if cfg.miri() { 8 } else { 32 };
    let values = nonfinite_values(cfg, rng);
    rep.distinct(Hasher::new().s("nonfinite").s(name).fs(&model).fs(&values).finish(), true);
    let accepted = |rep: &mut Report, param: &str, vk: &str, route: &str| rep.note_add(&format!("nonfinite.ACCEPTED.{}.{}={}.via-{}", name, param, vk, route), 1.0);
    for i in 0..np {
        let param = &kind.setters()[i][4..];
        for &v in &values {
            let vk = value_kind(v);
            let mut p = model.clone();
            p[i] = v;
            // the constructor is offered every vector that a setter or an update is offered
            let ctor_rejects = |q: &[f64]| guard(|| construct(kind, q)).is_err();
            if !kind.integer(i) {
                // ---- constructor (integer-typed parameters cannot be offered a non-finite value there)
                let regime = format!("{}:nonfinite:ctor", name);
                rep.case(&regime);
                rep.seen(&format!("cover:nonfinite:{}:{}:{}:ctor", name, param, vk), 1);
                let rejected = ctor_rejects(&p);
                if rejected {
                    rep.note_add("nonfinite.rejected(total)", 1.0);
                } else {
                    accepted(rep, param, vk, "ctor");
                }
                // ---- setter
                let regime = format!("{}:nonfinite:setter", name);
                rep.case(&regime);
                rep.seen(&format!("cover:nonfinite:{}:{}:{}:setter", name, param, vk), 1);
                let hist = vec![start.clone(), format!("{}({}) [non-finite]", kind.setters()[i], show(v))];
                let mut o2 = obj;
                match guard(|| o2.set(i, v)) {
                    Err(_) => {
                        rep.note_add("nonfinite.rejected(total)", 1.0);
                        rep.check("C18.nonfinite.routes_agree", &regime, true, || json!(null));
                        after_rejection(rep, kind, &regime, &hist, &model, None, &o2, n_draws, rng.u64() | 1);
                    }
                    Ok(()) => {
                        accepted(rep, param, vk, "setter");
                        rep.check("C18.nonfinite.routes_agree", &regime, !rejected, || {
                            json!({"distribution": name, "history": hist, "parameter": param, "value": vk, "constructor": "panics on these parameters", "setter": "accepts the value",
                                   "expected": "rejected in constructors, setters and bulk updates alike"})
                        });
                    }
                }
            }
            // ---- bulk update: the value in position i next to the current values, next to new valid
            // values, and next to another non-finite value
            let mut vectors = vec![p.clone()];
            if np == 2 && !cfg.miri() {
                let mut q = p.clone();
                q[1 - i] = valid_target(rng, kind, 1 - i, &model).0;
                vectors.push(q);
                let mut q = p.clone();
                q[1 - i] = *rng.choose(&values);
                vectors.push(q);
            }
            for q in vectors {
                let regime = format!("{}:nonfinite:update", name);
                rep.case(&regime);
                rep.seen(&format!("cover:nonfinite:{}:{}:{}:update", name, param, vk), 1);
                rep.seen(&format!("cover:nonfinite:update-position-{}", i), 1);
                let hist = vec![start.clone(), format!("update([{}]) [non-finite]", q.iter().map(|x| show(*x)).collect::<Vec<_>>().join(", "))];
                let rejected_by_ctor = ctor_rejects(&q);
                let mut o2 = obj;
                match guard(|| o2.update(&q)) {
                    Err(_) => {
                        rep.note_add("nonfinite.rejected(total)", 1.0);
                        rep.check("C18.nonfinite.routes_agree", &regime, true, || json!(null));
                        after_rejection(rep, kind, &regime, &hist, &model, Some(&q), &o2, n_draws, rng.u64() | 1);
                    }
                    Ok(()) => {
                        accepted(rep, param, vk, "update");
                        rep.check("C18.nonfinite.routes_agree", &regime, !rejected_by_ctor, || {
                            json!({"distribution": name, "history": hist, "parameter": param, "value": vk, "constructor": "panics on this vector", "update": "accepts the vector",
                                   "expected": "rejected in constructors, setters and bulk updates alike"})
                        });
                    }
                }
            }
        }
    }
}

fn nonfinite_family(cfg: &Cfg, rep: &mut Report) {
    let n = cfg.pick(13 * 6, 13 * 40, 2);
    par_cases(cfg, rep, 6, n, |i, rng, rep| {
        nonfinite_case(cfg, rep, rng, KINDS[i % 13]);
    });
    if !cfg.lite {
        for k in KINDS {
            rep.require(&format!("{}:nonfinite:update", k.name()), 1);
            for i in 0..k.nparams() {
                let param = &k.setters()[i][4..];
                for vk in ["NaN", "+inf", "-inf"] {
                    rep.require(&format!("cover:nonfinite:{}:{}:{}:update", k.name(), param, vk), 1);
                    if !k.integer(i) {
                        rep.require(&format!("cover:nonfinite:{}:{}:{}:ctor", k.name(), param, vk), 1);
                        rep.require(&format!("cover:nonfinite:{}:{}:{}:setter", k.name(), param, vk), 1);
                    }
                }
            }
            if (0..k.nparams()).any(|i| !k.integer(i)) {
                rep.require(&format!("{}:nonfinite:ctor", k.name()), 1);
                rep.require(&format!("{}:nonfinite:setter", k.name()), 1);
            }
        }
        rep.require("cover:nonfinite:update-position-0", 1);
        rep.require("cover:nonfinite:update-position-1", 1);
    }
}

// ---------------------------------------------------------------------------------------------
// f64 candidates for integer-typed parameters through `update` (stream 7)
//
// `Distribution1D::update` takes `&[f64]` for every law, also where the parameter is an integer (Binomial n:
// u64, ChiSquared dof: usize, DiscreteUniform bounds: i64; Poisson's lambda and T's dof are f64-typed in this
// library). A fitted, averaged or interpolated value arrives there with a fractional part; a count computed
// in floating point arrives above 2^53; a difference arrives negative. The statement does not say whether
// such a vector is accepted (by truncating, rounding, ...) or rejected. It does say what holds AFTERWARDS:
// the object "is observationally identical to one freshly constructed with the final parameters". An
// integer-typed parameter can only hold an integer, so after an accepted call there must be ONE integer
// reading of the offered value — floor, round, ceil, truncation, or the saturating `as` cast — such that
// the twin built by the CONSTRUCTOR from that integer (and the other offered values) equals the object in
// every observable at once: pmf/pdf, ln_pdf, mean, var AND the seeded sample(), sample_n, sample_matrix
// streams. An object whose closed forms are those of one integer and whose stream is that of another value
// is the twin of nothing. After a rejected call the object must be the twin of the last accepted parameters
// (or of a prefix of the offered vector under one of those readings, see STRICT_ATOMIC_UPDATE).
// Case: random valid start, then 4 updates in a row (the model follows the reading that matched). Step t of
// case c offers class (c + t) mod 4 of
//   fractional         k + {0.5, 1e-9, 1 - 1e-9, 0.25, 0.75, 0.4999999999, 0.5000000001, uniform(0.01, 0.99)}, k a valid integer target
//   above-2^53         2^53 + 2, 2^53 + 4, 2^54 + 4, 2^60, log-uniform 2^53..2^60 (negated half of the time for i64 bounds)
//   negative-fraction  -{0.5, 1e-9, 1 - 1e-9, uniform(0.01, 0.99), k + 0.5}
//   in-(0,1)           {0.5, 1e-9, 1 - 1e-9, MIN_POSITIVE, uniform(0, 1)}
// to one integer-typed position (cycling), the other position holding its current value, a new valid value,
// or (DiscreteUniform) another candidate of the same class.

const INT_CLASSES: [&str; 4] = ["fractional", "above-2^53", "negative-fraction", "in-(0,1)"];
const INT_KINDS: [Kind; 3] = [K::Binomial, K::ChiSquared, K::DiscreteUniform];

fn int_candidate(rng: &mut Rng, kind: Kind, i: usize, model: &[f64], class: &str) -> f64 {
    let k = valid_target(rng, kind, i, model).0.clamp(-1e6, 1e6).round();
    let frac = |rng: &mut Rng| match rng.usize(0, 7) {
        0 => 0.5,
        1 => 1e-9,
        2 => 1.0 - 1e-9,
        3 => 0.25,
        4 => 0.75,
        5 => 0.4999999999,
        6 => 0.5000000001,
        _ => rng.range(0.01, 0.99),
    };
    match class {
        "fractional" => k + frac(rng),
        "above-2^53" => {
            let two53 = 9007199254740992.0;
            let m = match rng.usize(0, 5) {
                0 => two53 + 2.0,
                1 => two53 + 4.0,
                2 => 2.0 * two53 + 4.0,
                3 => 1152921504606846976.0, // 2^60
                _ => rng.log_range(two53, 1152921504606846976.0).floor(),
            };
            if dom(kind, i) == Dom::Int && rng.bool() {
                -m
            } else {
                m
            }
        }
        "negative-fraction" => -match rng.usize(0, 4) {
            0 => 0.5,
            1 => 1e-9,
            2 => 1.0 - 1e-9,
            3 => rng.range(0.01, 0.99),
            _ => k.abs() + 0.5,
        },
        _ => match rng.usize(0, 4) {
            0 => 0.5,
            1 => 1e-9,
            2 => 1.0 - 1e-9,
            3 => f64::MIN_POSITIVE,
            _ => rng.range(0.0, 1.0).max(5e-324),
        },
    }
}

/// The integers an integer-typed parameter may hold after it was offered `v`: (reading, integer as f64).
fn int_readings(kind: Kind, i: usize, v: f64) -> Vec<(&'static str, f64)> {
    let sat = match dom(kind, i) {
        Dom::Int => (v as i64) as f64,
        _ => (v as u64) as f64,
    };
    let mut out: Vec<(&'static str, f64)> = Vec::new();
    for (tag, c) in [("truncation", v.trunc()), ("floor", v.floor()), ("round", v.round()), ("ceil", v.ceil()), ("saturating-cast", sat)] {
        let c = c + 0.0; // -0.0 is the integer 0
        let in_type = match dom(kind, i) {
            Dom::Int => c.abs() <= 9.2e18,
            _ => c >= 0.0 && c <= 1.8e19,
        };
        if c.is_finite() && in_type && !out.iter().any(|(_, d)| d.to_bits() == c.to_bits()) {
            out.push((tag, c));
        }
    }
    out
}

/// All parameter vectors the object may stand for once the first `upto` positions of the offered vector
/// `p` have been applied to `model`, every integer-typed position under each of its readings.
fn reading_vectors(kind: Kind, model: &[f64], p: &[f64], upto: usize) -> Vec<(String, Vec<f64>)> {
    let mut acc: Vec<(String, Vec<f64>)> = vec![(String::new(), model.to_vec())];
    for j in 0..upto {
        let opts: Vec<(&'static str, f64)> = if kind.integer(j) && p[j].fract() != 0.0 { int_readings(kind, j, p[j]) } else if kind.integer(j) { vec![("integer-valued", p[j] + 0.0)] } else { vec![("as-offered", p[j])] };
        let mut next = Vec::new();
        for (tags, v) in &acc {
            for (tag, c) in &opts {
                let mut w = v.clone();
                w[j] = *c;
                next.push((if tags.is_empty() { tag.to_string() } else { format!("{},{}", tags, tag) }, w));
            }
        }
        acc = next;
    }
    acc
}

/// Seeded streams of object and twin through sample(), sample_n and sample_matrix, compared silently.
fn streams_equal(rep: &mut Report, obj: &Obj, twin: &Obj, seed: u64, n_draws: usize) -> bool {
    if !stream_eq(&draws(rep, obj, seed, n_draws), &draws(rep, twin, seed, n_draws)) {
        return false;
    }
    let nb = (n_draws / 5).max(4);
    for shape in [Ok(nb), Err((2, nb / 2))] {
        if !stream_eq(&bulk_draws(rep, obj, seed, shape), &bulk_draws(rep, twin, seed, shape)) {
            return false;
        }
    }
    true
}

struct Match {
    tags: String,
    params: Vec<f64>,
    twin: Obj,
    /// the streams agree too (otherwise only pmf/pdf, ln_pdf, mean, var do)
    full: bool,
}

/// The first candidate whose constructor twin equals the object in every observable; failing that, the first
/// whose twin equals it in the closed forms.
fn find_twin(rep: &mut Report, kind: Kind, cands: &[(String, Vec<f64>)], obj: &Obj, seed: u64, n_draws: usize) -> Option<Match> {
    let mut closed_only: Option<Match> = None;
    for (tags, c) in cands {
        let twin = match guard(|| construct(kind, c)) {
            Ok(t) => t,
            Err(_) => continue,
        };
        if !obs_eq(&observe(kind, c, obj), &observe(kind, c, &twin)) {
            continue;
        }
        if streams_equal(rep, obj, &twin, seed, n_draws) {
            return Some(Match { tags: tags.clone(), params: c.clone(), twin, full: true });
        }
        if closed_only.is_none() {
            closed_only = Some(Match { tags: tags.clone(), params: c.clone(), twin, full: false });
        }
    }
    closed_only
}

fn intparam_case(cfg: &Cfg, rep: &mut Report, rng: &mut Rng, kind: Kind, idx: usize) {
    let name = kind.name();
    let np = kind.nparams();
    let int_pos: Vec<usize> = (0..np).filter(|&i| kind.integer(i)).collect();
    let mut model = initial(rng, kind);
    let mut hist = vec![format!("new({:?})", model)];
    let mut obj = match guard(|| construct(kind, &model)) {
        Ok(o) => o,
        Err(msg) => {
            rep.check("C18.ctor.accepts_valid", &format!("{}:ctor", name), false, || json!({"distribution": name, "parameters": jf(&model), "panic": msg}));
            return;
        }
    };
    let steps = if cfg.miri() { 1 } else { 4 };
    let mut hash = Hasher::new().s("intparam").s(name).fs(&model);
    for t in 0..steps {
        let class = INT_CLASSES[(idx + t) % 4];
        let i = int_pos[(idx / 4 + t) % int_pos.len()];
        let param = &kind.setters()[i][4..];
        let v = int_candidate(rng, kind, i, &model, class);
        let mut p = model.clone();
        p[i] = v;
        if np == 2 {
            match rng.usize(0, 2) {
                0 => {}
                1 => p[1 - i] = valid_target(rng, kind, 1 - i, &model).0,
                _ => {
                    if kind.integer(1 - i) {
                        p[1 - i] = int_candidate(rng, kind, 1 - i, &model, class);
                    } else {
                        p[1 - i] = valid_target(rng, kind, 1 - i, &model).0;
                    }
                }
            }
        }
        let regime = format!("{}:update:intparam:{}", name, class);
        rep.case(&regime);
        rep.seen(&format!("cover:intparam:{}:{}:{}", name, param, class), 1);
        rep.seen(&format!("cover:intparam:update-position-{}", i), 1);
        hist.push(format!("update({:?}) [f64 offered to an integer-typed parameter]", p));
        hash = hash.fs(&p);
        let seed = rng.u64() | 1;
        let n_draws = if cfg.miri() { 8 } else if p.iter().chain(model.iter()).any(|x| x.abs() > 1e6) { 16 } else { 32 };
        let mut o2 = obj;
        let outcome = guard(|| o2.update(&p));
        let accepted = outcome.is_ok();
        rep.note_add(&format!("intparam.{}.{}.{}.{}", name, param, class, if accepted { "ACCEPTED" } else { "rejected" }), 1.0);
        if accepted {
            let cands = reading_vectors(kind, &model, &p, np);
            let found = find_twin(rep, kind, &cands, &o2, seed, n_draws);
            rep.check("C18.intparam.holds_an_integer", &regime, found.is_some(), || {
                json!({"distribution": name, "history": hist, "offered": jf(&p), "parameter": param,
                       "integer_readings_tried": cands.iter().map(|(t, c)| json!({"reading": t, "parameters": jf(c)})).collect::<Vec<_>>(),
                       "observed": "update accepted the vector, but in pmf/pdf, mean and var the object is not the constructor twin of any integer reading of the offered value",
                       "mean_after": jval(&guard(|| o2.mean())), "var_after": jval(&guard(|| o2.var()))})
            });
            match found {
                Some(m) => {
                    rep.note_add(&format!("intparam.accepted_as.{}", m.tags), 1.0);
                    if !m.full {
                        rep.seen("intparam:closed-forms-and-streams-disagree", 1);
                    }
                    // the complete twin comparison, reported under this regime (a twin that matched only in the
                    // closed forms fails here on its streams)
                    hist.push(format!("[the object reports the parameters {:?}: {}]", m.params, m.tags));
                    let cx = Ctx { kind, history: &hist, n_draws };
                    compare(rep, &cx, &regime, &m.params, &o2, &m.twin, seed);
                    hist.pop();
                    model = m.params;
                    obj = m.twin; // continue from the object the constructor builds
                }
                None => {
                    obj = construct(kind, &model);
                }
            }
        } else {
            // the caller catches the panic and still holds `o2`
            let mut cands: Vec<(String, Vec<f64>)> = vec![("unchanged".to_string(), model.clone())];
            for j in 1..np {
                for (tags, c) in reading_vectors(kind, &model, &p, j) {
                    if !c.iter().zip(&model).all(|(a, b)| a.to_bits() == b.to_bits()) {
                        cands.push((format!("prefix-applied:{}", tags), c));
                    }
                }
            }
            let found = find_twin(rep, kind, &cands, &o2, seed, n_draws);
            let ok = matches!(&found, Some(m) if m.tags == "unchanged" || !STRICT_ATOMIC_UPDATE);
            rep.check("C18.rejected.unchanged", &regime, ok, || {
                json!({"distribution": name, "history": hist, "parameters_last_accepted": jf(&model), "offered": jf(&p),
                       "observed": "after update panicked the object is neither the twin of the last accepted parameters nor that of an applied prefix of the offered vector",
                       "mean_after": jval(&guard(|| o2.mean())), "var_after": jval(&guard(|| o2.var()))})
            });
            if let Some(m) = found {
                if m.tags != "unchanged" {
                    rep.note_add("rejected_update.valid_prefix_applied", 1.0);
                }
                let cx = Ctx { kind, history: &hist, n_draws };
                compare(rep, &cx, &regime, &m.params, &o2, &m.twin, seed);
            }
            obj = construct(kind, &model);
        }
    }
    rep.distinct(hash.finish(), true);
}

fn intparam_family(cfg: &Cfg, rep: &mut Report) {
    let n = cfg.pick(3 * 48, 3 * 480, 3);
    par_cases(cfg, rep, 7, n, |i, rng, rep| {
        intparam_case(cfg, rep, rng, INT_KINDS[i % 3], i / 3);
    });
    for k in INT_KINDS {
        rep.require(&format!("{}:update:intparam:fractional", k.name()), 1);
    }
    if !cfg.lite {
        for k in INT_KINDS {
            for i in 0..k.nparams() {
                if k.integer(i) {
                    for c in INT_CLASSES {
                        rep.require(&format!("cover:intparam:{}:{}:{}", k.name(), &k.setters()[i][4..], c), 1);
                    }
                }
            }
            for c in INT_CLASSES {
                rep.require(&format!("{}:update:intparam:{}", k.name(), c), 1);
            }
        }
        rep.require("cover:intparam:update-position-0", 1);
        rep.require("cover:intparam:update-position-1", 1);
    }
}

// ---------------------------------------------------------------------------------------------
// isolation: other live objects, other threads

fn isolation_objects(cfg: &Cfg, rep: &mut Report, rng: &mut Rng, kind: Kind) {
    let n = if cfg.miri() { 8 } else { 64 };
    let p = initial(rng, kind);
    let seed = rng.u64() | 1;
    let obj = construct(kind, &p);
    let base = draws(rep, &obj, seed, n);
    let again = draws(rep, &obj, seed, n);
    let regime = format!("{}:k=0", kind.name());
    rep.case(&regime);
    rep.check("C18.reproducible", &regime, stream_eq(&base, &again), || json!({"distribution": kind.name(), "parameters": jf(&p), "seed": seed, "first": jstream(&base), "second": jstream(&again)}));
    for &k in if cfg.miri() { &[1usize][..] } else { &[1usize, 50][..] } {
        // k other live objects, created and sampled before the seed is set; they stay alive during the draw
        let others: Vec<Obj> = (0..k)
            .map(|j| {
                let kk = KINDS[(j + rng.usize(0, 12)) % 13];
                construct(kk, &initial(rng, kk))
            })
            .collect();
        for o in &others {
            let _ = guard(|| o.sample());
        }
        let fresh = construct(kind, &p);
        let s1 = draws(rep, &obj, seed, n);
        let s2 = draws(rep, &fresh, seed, n);
        let regime = format!("{}:k={}", kind.name(), k);
        rep.case(&regime);
        rep.check("C18.isolation.objects", &regime, stream_eq(&base, &s1) && stream_eq(&base, &s2), || json!({"distribution": kind.name(), "parameters": jf(&p), "seed": seed, "alone": jstream(&base), "with_others_old_object": jstream(&s1), "with_others_new_object": jstream(&s2)}));
        std::hint::black_box(&others);
    }
}

fn isolation_threads(cfg: &Cfg, rep: &mut Report, rng: &mut Rng) {
    let n = if cfg.miri() { 6 } else { 256 };
    // cheap samplers under Miri
    let pool: &[Kind] = if cfg.miri() { &[K::Normal, K::Uniform, K::Exponential, K::Bernoulli, K::Gumbel, K::Pareto, K::DiscreteUniform, K::Normal] } else { &KINDS };
    let jobs: Vec<(Kind, Vec<f64>, u64)> = (0..8)
        .map(|t| {
            let k = pool[(t + rng.usize(0, pool.len() - 1)) % pool.len()];
            (k, initial(rng, k), rng.u64() | 1)
        })
        .collect();
    // single-thread reference streams
    let reference: Vec<Stream> = jobs.iter().map(|(k, p, s)| draws(rep, &construct(*k, p), *s, n)).collect();
    let barrier = std::sync::Barrier::new(8);
    let got: Vec<Stream> = std::thread::scope(|sc| {
        let hs: Vec<_> = jobs
            .iter()
            .map(|(k, p, s)| {
                let barrier = &barrier;
                sc.spawn(move || {
                    crate::report::install_panic_hook();
                    let o = construct(*k, p);
                    barrier.wait();
                    alea::set_seed(*s);
                    guard(|| {
                        (0..n)
                            .map(|j| {
                                if j % 2 == 0 {
                                    std::thread::yield_now();
                                }
                                o.sample()
                            })
                            .collect::<Vec<f64>>()
                    })
                })
            })
            .collect();
        hs.into_iter().map(|h| h.join().expect("sampling thread")).collect()
    });
    for t in 0..8 {
        let regime = "threads=8";
        rep.case(regime);
        rep.check("C18.isolation.threads", regime, stream_eq(&reference[t], &got[t]), || json!({"distribution": jobs[t].0.name(), "parameters": jf(&jobs[t].1), "seed": jobs[t].2, "single_thread": jstream(&reference[t]), "concurrent": jstream(&got[t])}));
    }
}

// ---------------------------------------------------------------------------------------------
// long bulk draws

/// Divisor of `n` closest to sqrt(n) from below (1 for a prime).
fn near_square_divisor(n: usize) -> usize {
    let mut r = (n as f64).sqrt() as usize;
    while r > 1 && n % r != 0 {
        r -= 1;
    }
    r.max(1)
}

/// Stream lengths: at and around the powers of two (where chunked / vectorised / parallel bulk paths
/// switch), a few round numbers, and random lengths; `top` = log2 of the largest.
fn bulk_lengths(cfg: &Cfg, rng: &mut Rng) -> Vec<usize> {
    if cfg.miri() {
        return vec![5];
    }
    let top = if cfg.thorough() { 20 } else { 17 };
    let mut v = vec![1usize, 2, 3, 100, 1000, 70_000, 100_000];
    for k in [4usize, 8, 10, 12, 14, 15, 16, 17, 18, 19, 20] {
        if k <= top {
            v.push((1 << k) - 1);
            v.push(1 << k);
            if k < top {
                v.push((1 << k) + 1);
            }
        }
    }
    for _ in 0..4 {
        v.push(rng.usize(2, 1 << top));
        v.push(rng.log_range(2.0, (1u64 << top) as f64) as usize);
    }
    v
}

fn bulk_regime(kind: Kind, n: usize) -> String {
    format!("bulk:{}:{}", kind.name(), if n <= 4096 { "len<=4096" } else { "len>4096" })
}

/// One (distribution, parameters, seed, length) point of the bulk family.
fn bulk_case(rep: &mut Report, rng: &mut Rng, kind: Kind, n: usize) {
    const TAIL: usize = 4;
    let regime = bulk_regime(kind, n);
    rep.case(&regime);
    let p = initial(rng, kind);
    let seed = rng.u64() | 1;
    rep.distinct(Hasher::new().s("bulk").s(kind.name()).fs(&p).u(seed).u(n as u64).finish(), true);
    let obj = construct(kind, &p);
    let d = obj.dist();
    let (r, c) = {
        let a = near_square_divisor(n);
        if rng.bool() {
            (a, n / a)
        } else {
            (n / a, a)
        }
    };
    let head = |what: Value| json!({"distribution": kind.name(), "parameters": jf(&p), "alea_seed": seed, "n": n, "matrix_shape": [r, c], "difference": what});
    // moderate parameters (shape >= 0.4): a draw needs a handful of loop iterations; the budget only
    // bounds the damage of a sampler that never returns
    rep.absorb_hooks();
    compute::verif_hooks::set_budget(1_000_000 + 1_000 * n as u64);
    let run = |f: &dyn Fn() -> Vec<f64>| -> Stream {
        alea::set_seed(seed);
        let r = guard(|| {
            let mut v = f();
            // the draws that FOLLOW the call under test
            for _ in 0..TAIL {
                v.push(d.sample());
            }
            v
        });
        compute::verif_hooks::reset();
        r
    };
    let singles = run(&|| (0..n).map(|_| d.sample()).collect());
    let bulk1 = run(&|| d.sample_n(n).v);
    let bulk2 = run(&|| d.sample_n(n).v);
    let shape = std::cell::Cell::new((0usize, 0usize));
    let mat1 = run(&|| {
        let m = d.sample_matrix(r, c);
        shape.set((m.nrows, m.ncols));
        m.data.v
    });
    let mat2 = run(&|| d.sample_matrix(r, c).data.v);
    compute::verif_hooks::set_budget(u64::MAX);
    let all = [&singles, &bulk1, &bulk2, &mat1, &mat2];
    if let Some(e) = all.iter().find_map(|s| s.as_ref().err()) {
        rep.check("C18.bulk.no_panic", &regime, false, || head(json!({"panic": e, "expected": "valid parameters: every form of sampling returns"})));
        return;
    }
    rep.check("C18.bulk.no_panic", &regime, true, || json!(null));
    let (singles, bulk1, bulk2, mat1, mat2) = (singles.unwrap(), bulk1.unwrap(), bulk2.unwrap(), mat1.unwrap(), mat2.unwrap());
    let first_diff = |a: &[f64], b: &[f64]| (0..a.len().min(b.len())).find(|&i| !same_bits(a[i], b[i]));
    let around = |a: &[f64], i: usize| jf(&a[i.min(a.len())..(i + 4).min(a.len())]);
    for (api, one, two) in [("sample_n", &bulk1, &bulk2), ("sample_matrix", &mat1, &mat2)] {
        // count / shape
        let len_ok = one.len() == n + TAIL && (api == "sample_n" || shape.get() == (r, c));
        rep.check(&format!("C18.bulk.{}.count", api), &regime, len_ok, || head(json!({"returned_len": one.len() - TAIL.min(one.len()), "returned_shape": [shape.get().0, shape.get().1]})));
        if !len_ok {
            continue;
        }
        // "sampling with a fixed seed is reproducible"
        let dd = first_diff(one, two);
        rep.check(&format!("C18.bulk.{}.reproducible", api), &regime, dd.is_none() && one.len() == two.len(), || {
            let i = dd.unwrap_or(0);
            head(json!({"what": "two identical calls from the same seed", "first_differing_index": dd, "first_call_there": around(one, i), "second_call_there": around(two, i)}))
        });
        // Whether the bulk call is the stream of n successive sample() calls, and whether it leaves the
        // generator where they leave it, is recorded as evidence only: the property promises the same
        // stream from the same seed for the same calls, not across call shapes.
        let ds = first_diff(&one[..n], &singles[..n]);
        rep.note_add(&format!("bulk.{}.cases_equal_to_single_draws", api), if ds.is_none() { 1.0 } else { 0.0 });
        let dt = first_diff(&one[n..], &singles[n..]);
        rep.note_add(&format!("bulk.{}.cases_stream_continues", api), if dt.is_none() { 1.0 } else { 0.0 });
        let _ = &around;
    }
}

fn bulk_family(cfg: &Cfg, rep: &mut Report) {
    let lens = bulk_lengths(cfg, &mut Rng::new(crate::report::case_seed(cfg.seed, 5, u64::MAX)));
    // memcheck / ASan: a fifth of the points; Miri: 4 distributions x one short length (180 draws)
    let stride = if cfg.miri() {
        4
    } else if cfg.lite {
        5
    } else {
        1
    };
    let points: Vec<(Kind, usize)> = KINDS.iter().flat_map(|&k| lens.iter().map(move |&n| (k, n))).step_by(stride).collect();
    // longest first, so that the workers finish together
    let mut order: Vec<usize> = (0..points.len()).collect();
    order.sort_by_key(|&i| std::cmp::Reverse(points[i].1));
    par_cases(cfg, rep, 5, points.len(), |i, rng, rep| {
        let (k, n) = points[order[i]];
        bulk_case(rep, rng, k, n);
    });
    if !cfg.lite {
        for k in KINDS {
            rep.require(&format!("bulk:{}:len<=4096", k.name()), 1);
            rep.require(&format!("bulk:{}:len>4096", k.name()), 1);
        }
    }
}

pub fn run(cfg: &Cfg, rep: &mut Report) {
    rep.rule = "random histories: constructor + 1..20 mutations (65% single setter, 35% update; 30% of the steps carry an invalid value; valid targets on a random side of the current value; two-sided bounds: targets above / below / containing / overlapping the old interval), 13 distributions round-robin. Structured valid targets: 35% of the valid setter steps take the current value of the same parameter (same), the current value of the other parameter (cross) or an edge of the documented domain (tiny: 5e-324, MIN_POSITIVE, EPSILON/2, log-uniform 1e-300..1e-15 and 1e-15..moderate range; huge: log-uniform moderate range..1e15 and 1e15..1e300, f64::MAX; probabilities up to 1-2^-53; integer parameters up to 1e18, DiscreteUniform bounds up to +-1e15); 50% of the valid updates are structured vectors labelled by class: same / equal (both targets bit-equal: a new value or a current one) / swap / cross (a target equals the current value of the other parameter) / one-changes / extreme; 20% of the histories start from equal parameters or from an edge of the domain. After every accepted step the object is compared with a fresh twin through every method of the distribution traits (pdf/pmf at 16 probe points; ln_pdf of the 9 continuous laws and Normal::cdf at those and 10 far-tail points; mean; var; 64 seeded sample() draws, 16 while a parameter is outside the moderate range; sample_n(12) and sample_matrix(2x6 / 6x2) from the same seed); non-finite family (6 (40) cases per distribution): from random valid parameters, NaN x3 / +inf / -inf offered to each parameter via constructor, setter, and update (next to the current values, to new valid values, to another non-finite value), the object observed after every call that panicked; intparam family (48 (480) cases for each of Binomial, ChiSquared, DiscreteUniform): from random valid parameters 4 updates in a row, each offering to one integer-typed position a fractional value (k + 0.5, k + 1e-9, k + 1 - 1e-9, ...), a value above 2^53, a negative fraction or a value in (0,1), next to the current / a new valid / another such value in the other position; the object is matched against the constructor twins of every integer reading (truncation, floor, round, ceil, saturating cast) in all observables; then isolation cases (k = 0, 1, 50 other live objects; 8 concurrent threads). non-trivial = at least one accepted mutation changed a parameter; distinct by (distribution, sequence of calls and values). Default-start histories (20 per distribution quick, 200 thorough): Default::default() compared with new(default parameters), once more after a rejected setter/update, then mutated as above. Bulk family: per distribution, stream lengths 1, 2, 3, 100, 1000, 7e4, 1e5, 2^k-1 / 2^k / 2^k+1 for k in {4,8,10,12,14..17 (thorough ..20)} and 8 random lengths; random moderate parameters and seed per point; singles / sample_n twice / sample_matrix(r,c) twice with r*c = n, each followed by 4 single draws".into();
    rep.assume("random histories do not use NaN as an invalid probe. The non-finite family offers NaN (both signs, quiet and signalling patterns, random payloads), +inf and -inf to every parameter through the constructor, the setter and every position of the update vector (integer-typed parameters: through update only, which casts). Acceptance is recorded (notes nonfinite.ACCEPTED.<distribution>.<parameter>=<value>.via-<route>), not judged: the statement does not say whether +inf is a valid scale. Judged: a value the constructor rejects is rejected by setter and update too (routes_agree), and after a call that panicked the object is observationally the twin of the last accepted parameters (or of a constructor-accepted prefix of the offered vector), every method and the seeded streams included. Objects that accepted a non-finite value are not observed (NaN-shape sampler loops, erf(NaN) recursion on the unchanged tree)");
    rep.assume("integer-typed parameters (Binomial n, ChiSquared dof, DiscreteUniform bounds) are mutated with integer values in the random histories; update() receives them there as integer-valued f64. The intparam family offers them fractional values, values above 2^53, negative fractions and values in (0,1) through update: acceptance or rejection is recorded (notes intparam.<distribution>.<parameter>.<class>.ACCEPTED/rejected, intparam.accepted_as.<reading>), not judged; judged is that an object which accepted is, in every observable at once (closed forms and seeded streams), the constructor twin of ONE integer reading of the offered value (truncation, floor, round, ceil or the saturating cast), and that an object which rejected is unchanged (or the twin of an applied prefix)");
    rep.assume("ordinary targets keep shape parameters >= 0.4 (T: dof >= 0.7); structured targets visit the whole documented domain. No verdict depends on what a sampler returns there (C03): object and twin run the same code from the same seed under an iteration budget of 1e5 per stream, and a stream cut by the budget on BOTH sides is equal behaviour");
    rep.assume("validity table = the constructors' documented domains restricted to finite values (x > 0, sigma >= 0, 0 <= p <= 1, dof >= 1, lower <= upper); +-inf and NaN are not presented as valid parameters; integer parameters stay <= 1e18 (DiscreteUniform bounds within +-1e15) where update()'s f64 -> integer cast is exact and upper - lower + 1 cannot overflow");
    rep.assume("'the same stream of samples from the same RNG seed' is read per seed, not per call shape: sample_n(n) and sample_matrix(r, c) must return the n = r*c values that n successive sample() calls return from that seed, and draws after the bulk call continue that stream; 'reproducible' (two identical seeded bulk calls agree) is asserted separately under its own id");
    rep.assume("default parameters (harness table): Bernoulli 0.5, Beta(1,1), Binomial(1,0.5), ChiSquared 1, DiscreteUniform(0,1), Exponential 1, Gamma(1,1), Gumbel(0,1), Normal(0,1), Pareto(1,1), Poisson 1, T 1, Uniform(0,1)");
    rep.assume("'observationally identical' covers every public method of the distribution traits (Distribution::sample, Distribution1D::sample_n / sample_matrix, Continuous::pdf / ln_pdf, Discrete::pmf, Mean::mean, Variance::var) and the inherent Normal::cdf; the discrete laws have no log-mass method. The Debug representation is compared as evidence only (notes.twin.debug_repr_differs_while_all_methods_agree)");
    rep.assume("Normal::cdf is compared only where the object's own mean(), var() and pdf(x) show a non-degenerate standardised argument: with sigma = 0 and x = mu the unchanged library calls erf(NaN), which recurses until the stack overflows (process abort, not a panic) on object and twin alike");
    rep.assume("Binomial pmf is probed inside 0..=n only (outside it panics on any object, C02)");
    rep.assume("a rejected bulk update may have applied its valid prefix (recorded in notes.rejected_update.valid_prefix_applied); demanded is that the object then equals the twin of exactly those parameters — the property forbids out-of-domain parameters, not non-atomic rejection");
    let n_hist = cfg.pick(13 * 500, 13 * 5000, 13);
    par_cases(cfg, rep, 1, n_hist, |i, rng, rep| {
        history(cfg, rep, rng, KINDS[i % 13], false);
    });
    // histories that start from Default::default()
    let n_def = cfg.pick(13 * 20, 13 * 200, 13);
    par_cases(cfg, rep, 4, n_def, |i, rng, rep| {
        history(cfg, rep, rng, KINDS[i % 13], true);
    });
    bulk_family(cfg, rep);
    nonfinite_family(cfg, rep);
    intparam_family(cfg, rep);
    let n_iso = cfg.pick(13 * 4, 13 * 40, 3);
    par_cases(cfg, rep, 2, n_iso, |i, rng, rep| {
        isolation_objects(cfg, rep, rng, KINDS[(i * 5) % 13]);
    });
    let n_thr = cfg.pick(16, 200, 1);
    // sequential: each case spawns its own 8 sampling threads
    let one = Cfg { threads: 1, ..cfg.clone() };
    par_cases(&one, rep, 3, n_thr, |_i, rng, rep| {
        isolation_threads(cfg, rep, rng);
    });
    rep.require("threads=8", 8);
    for k in KINDS {
        if !k.discrete() {
            rep.require(&format!("cover:{}:ln_pdf", k.name()), 1);
        }
    }
    rep.require("cover:normal:cdf", 1);
    for k in KINDS {
        rep.require(&format!("{}:default", k.name()), 1);
        // every distribution has a parameter with an invalid finite value: a rejected call on the default object
        rep.require(&format!("{}:default:after-rejected", k.name()), 1);
    }
    if !cfg.lite {
        for k in KINDS {
            rep.require(&format!("{}:ctor", k.name()), 1);
            rep.require(&format!("{}:k=50", k.name()), 1);
            for s in k.setters() {
                rep.require(&format!("{}:{}", k.name(), s), 1);
                rep.require(&format!("cover:{}:{}:up", k.name(), s), 1);
                rep.require(&format!("cover:{}:{}:down", k.name(), s), 1);
            }
            // structured targets (exact coincidences, edges of the documented domains)
            for s in k.setters() {
                for t in ["same", "tiny", "huge"] {
                    rep.require(&format!("{}:{}:{}", k.name(), s, t), 1);
                }
                // Binomial: n and p only coincide at 0 and 1
                if k.nparams() == 2 && k != K::Binomial {
                    rep.require(&format!("{}:{}:cross", k.name(), s), 1);
                }
            }
            rep.require(&format!("{}:ctor:extreme", k.name()), 1);
            rep.require(&format!("{}:update:same", k.name()), 1);
            rep.require(&format!("{}:update:extreme", k.name()), 1);
            if k.nparams() == 2 {
                rep.require(&format!("{}:update:one-changes", k.name()), 1);
                if k != K::Binomial {
                    rep.require(&format!("{}:update:equal", k.name()), 1);
                    rep.require(&format!("{}:update:cross", k.name()), 1);
                }
                // a swap is valid for a two-sided law only when the bounds coincide (then nothing changes)
                if k != K::Binomial && !k.two_sided() {
                    rep.require(&format!("{}:update:swap", k.name()), 1);
                }
            }
            if k.two_sided() {
                for t in ["target-above-old-interval", "target-below-old-interval", "target-contains-old-interval", "target-overlaps-old-interval"] {
                    rep.require(&format!("{}:{}", k.name(), t), 1);
                }
            } else {
                rep.require(&format!("{}:update", k.name()), 1);
            }
        }
    }
}
