//! C18 — distributions are a pure function of current parameters and the RNG seed (DESIGN §3 C18).
//!
//! Events: every constructor / setter / `update` call (value or panic) in a random mutation history,
//! and after every step the observable behaviour (pdf/pmf at 16 probe points, mean, var, a seeded
//! stream of draws) of the mutated object next to a freshly constructed twin.
//! Oracle: the harness keeps its own model of the parameters that should be current (last accepted
//! values) and a validity table taken from the constructors' documented domains; twin comparison is
//! bitwise (NaN = NaN). A rejected call is compared object-before vs object-after.
//! No FFI is used here: the lite workload runs under Miri (data-race detector on the thread part).
use crate::gen::Rng;
use crate::report::{guard, is_budget_panic, jf, par_cases, same_bits, Cfg, Hasher, Report};
use compute::distributions::*;
use serde_json::{json, Value};

/// `true` would demand that a rejected bulk update leaves *every* parameter untouched. The property
/// text only demands that no object ever holds an out-of-domain parameter and that the object is a
/// pure function of its current parameters, so a bulk update that applied its valid prefix before
/// panicking is recorded as evidence (`notes.rejected_update.valid_prefix_applied`) but not as a violation.
const STRICT_ATOMIC_UPDATE: bool = false;

const BUDGET: u64 = 100_000;

#[derive(Clone, Copy, PartialEq, Eq, Debug)]
enum Kind {
    Bernoulli,
    Beta,
    Binomial,
    ChiSquared,
    DiscreteUniform,
    Exponential,
    Gamma,
    Gumbel,
    Normal,
    Pareto,
    Poisson,
    T,
    Uniform,
}
use Kind as K;

const KINDS: [Kind; 13] = [K::Bernoulli, K::Beta, K::Binomial, K::ChiSquared, K::DiscreteUniform, K::Exponential, K::Gamma, K::Gumbel, K::Normal, K::Pareto, K::Poisson, K::T, K::Uniform];

#[derive(Clone, Copy)]
enum Obj {
    Bernoulli(Bernoulli),
    Beta(Beta),
    Binomial(Binomial),
    ChiSquared(ChiSquared),
    DiscreteUniform(DiscreteUniform),
    Exponential(Exponential),
    Gamma(Gamma),
    Gumbel(Gumbel),
    Normal(Normal),
    Pareto(Pareto),
    Poisson(Poisson),
    T(T),
    Uniform(Uniform),
}

impl Kind {
    fn name(self) -> &'static str {
        match self {
            K::Bernoulli => "bernoulli",
            K::Beta => "beta",
            K::Binomial => "binomial",
            K::ChiSquared => "chi2",
            K::DiscreteUniform => "discrete_uniform",
            K::Exponential => "exponential",
            K::Gamma => "gamma",
            K::Gumbel => "gumbel",
            K::Normal => "normal",
            K::Pareto => "pareto",
            K::Poisson => "poisson",
            K::T => "t",
            K::Uniform => "uniform",
        }
    }
    fn setters(self) -> &'static [&'static str] {
        match self {
            K::Bernoulli => &["set_p"],
            K::Beta => &["set_alpha", "set_beta"],
            K::Binomial => &["set_n", "set_p"],
            K::ChiSquared => &["set_dof"],
            K::DiscreteUniform => &["set_lower", "set_upper"],
            K::Exponential => &["set_lambda"],
            K::Gamma => &["set_alpha", "set_beta"],
            K::Gumbel => &["set_mu", "set_beta"],
            K::Normal => &["set_mu", "set_sigma"],
            K::Pareto => &["set_alpha", "set_minval"],
            K::Poisson => &["set_lambda"],
            K::T => &["set_dof"],
            K::Uniform => &["set_lower", "set_upper"],
        }
    }
    fn nparams(self) -> usize {
        self.setters().len()
    }
    fn two_sided(self) -> bool {
        matches!(self, K::Uniform | K::DiscreteUniform)
    }
    fn discrete(self) -> bool {
        matches!(self, K::Bernoulli | K::Binomial | K::DiscreteUniform | K::Poisson)
    }
    /// integer-typed parameter (setter takes u64 / usize / i64, `update` casts from f64)
    fn integer(self, i: usize) -> bool {
        matches!((self, i), (K::Binomial, 0) | (K::ChiSquared, 0) | (K::DiscreteUniform, _))
    }
}

/// Validity table: the constructors' documented domains.
fn valid(kind: Kind, p: &[f64]) -> bool {
    match kind {
        K::Bernoulli => (0.0..=1.0).contains(&p[0]),
        K::Beta | K::Gamma | K::Pareto => p[0] > 0.0 && p[1] > 0.0,
        K::Binomial => p[0] >= 0.0 && (0.0..=1.0).contains(&p[1]),
        K::ChiSquared => p[0] >= 1.0,
        K::DiscreteUniform | K::Uniform => p[0] <= p[1],
        K::Exponential | K::Poisson | K::T => p[0] > 0.0,
        K::Gumbel => p[1] > 0.0,
        K::Normal => p[1] >= 0.0,
    }
}

fn construct(kind: Kind, p: &[f64]) -> Obj {
    match kind {
        K::Bernoulli => Obj::Bernoulli(Bernoulli::new(p[0])),
        K::Beta => Obj::Beta(Beta::new(p[0], p[1])),
        K::Binomial => Obj::Binomial(Binomial::new(p[0] as u64, p[1])),
        K::ChiSquared => Obj::ChiSquared(ChiSquared::new(p[0] as usize)),
        K::DiscreteUniform => Obj::DiscreteUniform(DiscreteUniform::new(p[0] as i64, p[1] as i64)),
        K::Exponential => Obj::Exponential(Exponential::new(p[0])),
        K::Gamma => Obj::Gamma(Gamma::new(p[0], p[1])),
        K::Gumbel => Obj::Gumbel(Gumbel::new(p[0], p[1])),
        K::Normal => Obj::Normal(Normal::new(p[0], p[1])),
        K::Pareto => Obj::Pareto(Pareto::new(p[0], p[1])),
        K::Poisson => Obj::Poisson(Poisson::new(p[0])),
        K::T => Obj::T(T::new(p[0])),
        K::Uniform => Obj::Uniform(Uniform::new(p[0], p[1])),
    }
}

impl Obj {
    fn set(&mut self, i: usize, v: f64) {
        match (self, i) {
            (Obj::Bernoulli(d), _) => {
                d.set_p(v);
            }
            (Obj::Beta(d), 0) => {
                d.set_alpha(v);
            }
            (Obj::Beta(d), _) => {
                d.set_beta(v);
            }
            (Obj::Binomial(d), 0) => {
                d.set_n(v as u64);
            }
            (Obj::Binomial(d), _) => {
                d.set_p(v);
            }
            (Obj::ChiSquared(d), _) => {
                d.set_dof(v as usize);
            }
            (Obj::DiscreteUniform(d), 0) => {
                d.set_lower(v as i64);
            }
            (Obj::DiscreteUniform(d), _) => {
                d.set_upper(v as i64);
            }
            (Obj::Exponential(d), _) => {
                d.set_lambda(v);
            }
            (Obj::Gamma(d), 0) => {
                d.set_alpha(v);
            }
            (Obj::Gamma(d), _) => {
                d.set_beta(v);
            }
            (Obj::Gumbel(d), 0) => {
                d.set_mu(v);
            }
            (Obj::Gumbel(d), _) => {
                d.set_beta(v);
            }
            (Obj::Normal(d), 0) => {
                d.set_mu(v);
            }
            (Obj::Normal(d), _) => {
                d.set_sigma(v);
            }
            (Obj::Pareto(d), 0) => {
                d.set_alpha(v);
            }
            (Obj::Pareto(d), _) => {
                d.set_minval(v);
            }
            (Obj::Poisson(d), _) => {
                d.set_lambda(v);
            }
            (Obj::T(d), _) => {
                d.set_dof(v);
            }
            (Obj::Uniform(d), 0) => {
                d.set_lower(v);
            }
            (Obj::Uniform(d), _) => {
                d.set_upper(v);
            }
        }
    }
    fn update(&mut self, p: &[f64]) {
        match self {
            Obj::Bernoulli(d) => d.update(p),
            Obj::Beta(d) => d.update(p),
            Obj::Binomial(d) => d.update(p),
            Obj::ChiSquared(d) => d.update(p),
            Obj::DiscreteUniform(d) => d.update(p),
            Obj::Exponential(d) => d.update(p),
            Obj::Gamma(d) => d.update(p),
            Obj::Gumbel(d) => d.update(p),
            Obj::Normal(d) => d.update(p),
            Obj::Pareto(d) => d.update(p),
            Obj::Poisson(d) => d.update(p),
            Obj::T(d) => d.update(p),
            Obj::Uniform(d) => d.update(p),
        }
    }
    fn density(&self, x: f64) -> f64 {
        match self {
            Obj::Bernoulli(d) => d.pmf(x as i64),
            Obj::Beta(d) => d.pdf(x),
            Obj::Binomial(d) => d.pmf(x as i64),
            Obj::ChiSquared(d) => d.pdf(x),
            Obj::DiscreteUniform(d) => d.pmf(x as i64),
            Obj::Exponential(d) => d.pdf(x),
            Obj::Gamma(d) => d.pdf(x),
            Obj::Gumbel(d) => d.pdf(x),
            Obj::Normal(d) => d.pdf(x),
            Obj::Pareto(d) => d.pdf(x),
            Obj::Poisson(d) => d.pmf(x as i64),
            Obj::T(d) => d.pdf(x),
            Obj::Uniform(d) => d.pdf(x),
        }
    }
    fn mean(&self) -> f64 {
        match self {
            Obj::Bernoulli(d) => d.mean(),
            Obj::Beta(d) => d.mean(),
            Obj::Binomial(d) => d.mean(),
            Obj::ChiSquared(d) => d.mean(),
            Obj::DiscreteUniform(d) => d.mean(),
            Obj::Exponential(d) => d.mean(),
            Obj::Gamma(d) => d.mean(),
            Obj::Gumbel(d) => d.mean(),
            Obj::Normal(d) => d.mean(),
            Obj::Pareto(d) => d.mean(),
            Obj::Poisson(d) => d.mean(),
            Obj::T(d) => d.mean(),
            Obj::Uniform(d) => d.mean(),
        }
    }
    fn var(&self) -> f64 {
        match self {
            Obj::Bernoulli(d) => d.var(),
            Obj::Beta(d) => d.var(),
            Obj::Binomial(d) => d.var(),
            Obj::ChiSquared(d) => d.var(),
            Obj::DiscreteUniform(d) => d.var(),
            Obj::Exponential(d) => d.var(),
            Obj::Gamma(d) => d.var(),
            Obj::Gumbel(d) => d.var(),
            Obj::Normal(d) => d.var(),
            Obj::Pareto(d) => d.var(),
            Obj::Poisson(d) => d.var(),
            Obj::T(d) => d.var(),
            Obj::Uniform(d) => d.var(),
        }
    }
    fn sample(&self) -> f64 {
        match self {
            Obj::Bernoulli(d) => d.sample(),
            Obj::Beta(d) => d.sample(),
            Obj::Binomial(d) => d.sample(),
            Obj::ChiSquared(d) => d.sample(),
            Obj::DiscreteUniform(d) => d.sample(),
            Obj::Exponential(d) => d.sample(),
            Obj::Gamma(d) => d.sample(),
            Obj::Gumbel(d) => d.sample(),
            Obj::Normal(d) => d.sample(),
            Obj::Pareto(d) => d.sample(),
            Obj::Poisson(d) => d.sample(),
            Obj::T(d) => d.sample(),
            Obj::Uniform(d) => d.sample(),
        }
    }
}

// ---------------------------------------------------------------------------------------------
// observation

type Val = Result<f64, String>;

#[derive(Clone)]
struct Obs {
    at: Vec<f64>,
    density: Vec<Val>,
    mean: Val,
    var: Val,
}

fn val_eq(a: &Val, b: &Val) -> bool {
    match (a, b) {
        (Ok(x), Ok(y)) => same_bits(*x, *y),
        (Err(x), Err(y)) => x == y || (is_budget_panic(x) && is_budget_panic(y)),
        _ => false,
    }
}
fn jval(v: &Val) -> Value {
    match v {
        Ok(x) => crate::report::jnum(*x),
        Err(e) => json!({"panic": e}),
    }
}

/// 16 probe points derived from the model parameters (the same points for object and twin).
fn probes(kind: Kind, p: &[f64]) -> Vec<f64> {
    let a = p[0];
    let b = *p.last().unwrap();
    if kind == K::Binomial {
        // inside the support only: pmf outside 0..=n panics on the unchanged tree (C02's business)
        let n = a as u64;
        let ks = [0u64, 1, 2, 3, 5, 8, 13, 21, 34, 55, n, n / 2, n / 3, n.saturating_sub(1), n / 2 + 1, 2 * n / 3];
        return ks.iter().map(|&k| (k % (n + 1)) as f64).collect();
    }
    if kind.discrete() {
        let mid = ((a + b) / 2.0).floor();
        return vec![-1.0, 0.0, 1.0, 2.0, 3.0, 5.0, 8.0, 13.0, 21.0, 50.0, a.floor(), b.floor(), mid, a.floor() - 1.0, b.floor() + 1.0, (a + 2.0 * b).floor()];
    }
    vec![-3.0, -1.0, -0.25, 0.0, 0.1, 0.5, 0.9, 1.0, 1.5, 2.5, 7.0, 30.0, a, b, 0.5 * (a + b), a + 2.0 * b]
}

fn observe(kind: Kind, p: &[f64], o: &Obj) -> Obs {
    let at = probes(kind, p);
    Obs { density: at.iter().map(|&x| guard(|| o.density(x))).collect(), at, mean: guard(|| o.mean()), var: guard(|| o.var()) }
}

type Stream = Result<Vec<f64>, String>;

fn draws(rep: &mut Report, o: &Obj, seed: u64, n: usize) -> Stream {
    rep.absorb_hooks(); // per-site counters restart, so the budget is per stream
    compute::verif_hooks::set_budget(BUDGET);
    alea::set_seed(seed);
    let r = guard(|| (0..n).map(|_| o.sample()).collect::<Vec<f64>>());
    compute::verif_hooks::set_budget(u64::MAX);
    rep.absorb_hooks();
    r
}

fn stream_eq(a: &Stream, b: &Stream) -> bool {
    match (a, b) {
        (Ok(x), Ok(y)) => crate::report::same_bits_slice(x, y),
        (Err(x), Err(y)) => x == y || (is_budget_panic(x) && is_budget_panic(y)),
        _ => false,
    }
}
fn jstream(s: &Stream) -> Value {
    match s {
        Ok(v) => jf(&v[..v.len().min(8)]),
        Err(e) => json!({"panic": e}),
    }
}

struct Ctx<'a> {
    kind: Kind,
    history: &'a [String],
    n_draws: usize,
}

/// Compare object and twin; returns true if every observable agreed.
fn compare(rep: &mut Report, cx: &Ctx, regime: &str, model: &[f64], obj: &Obj, twin: &Obj, seed: u64) -> bool {
    let (a, b) = (observe(cx.kind, model, obj), observe(cx.kind, model, twin));
    let head = |what: Value| json!({"distribution": cx.kind.name(), "history": cx.history, "parameters_expected_current": jf(model), "difference": what});
    let mut all = true;
    let bad = (0..a.at.len()).find(|&i| !val_eq(&a.density[i], &b.density[i]));
    all &= rep.check("C18.twin.density", regime, bad.is_none(), || {
        let i = bad.unwrap();
        head(json!({"at": a.at[i], "mutated_object": jval(&a.density[i]), "fresh_twin": jval(&b.density[i])}))
    });
    all &= rep.check("C18.twin.mean", regime, val_eq(&a.mean, &b.mean), || head(json!({"mutated_object": jval(&a.mean), "fresh_twin": jval(&b.mean)})));
    all &= rep.check("C18.twin.var", regime, val_eq(&a.var, &b.var), || head(json!({"mutated_object": jval(&a.var), "fresh_twin": jval(&b.var)})));
    let sa = draws(rep, obj, seed, cx.n_draws);
    let sb = draws(rep, twin, seed, cx.n_draws);
    if matches!(&sa, Err(e) if is_budget_panic(e)) {
        rep.note_add("streams_cut_by_iteration_budget(both sides compared as equal behaviour)", 1.0);
    }
    all &= rep.check("C18.twin.samples", regime, stream_eq(&sa, &sb), || head(json!({"seed": seed, "draws": cx.n_draws, "mutated_object_first": jstream(&sa), "fresh_twin_first": jstream(&sb),
        "mean_of_stream": [sa.as_ref().ok().map(|v| v.iter().sum::<f64>() / v.len() as f64), sb.as_ref().ok().map(|v| v.iter().sum::<f64>() / v.len() as f64)]})));
    all
}

fn obs_eq(a: &Obs, b: &Obs) -> bool {
    a.density.iter().zip(&b.density).all(|(x, y)| val_eq(x, y)) && val_eq(&a.mean, &b.mean) && val_eq(&a.var, &b.var)
}

// ---------------------------------------------------------------------------------------------
// generators

/// (low, high, log-scale?) of the valid range used for parameter `i`. Shape parameters stay >= 0.4
/// (T: dof/2 >= 0.35) so that no verdict depends on the gamma sampler's behaviour below shape 1/3 (C03).
fn range(kind: Kind, i: usize) -> (f64, f64, bool) {
    match (kind, i) {
        (K::Bernoulli, _) | (K::Binomial, 1) => (0.0, 1.0, false),
        (K::Beta, _) => (0.4, 50.0, true),
        (K::Binomial, _) => (0.0, 2000.0, false),
        (K::ChiSquared, _) => (1.0, 200.0, false),
        (K::DiscreteUniform, _) | (K::Uniform, _) => (-1000.0, 1000.0, false),
        (K::Exponential, _) => (1e-3, 1e3, true),
        (K::Gamma, 0) => (0.4, 100.0, true),
        (K::Gamma, _) => (1e-3, 1e3, true),
        (K::Gumbel, 0) | (K::Normal, 0) => (-100.0, 100.0, false),
        (K::Gumbel, _) => (1e-3, 1e3, true),
        (K::Normal, _) => (0.0, 1e3, false),
        (K::Pareto, 0) => (0.1, 50.0, true),
        (K::Pareto, _) => (1e-3, 1e3, true),
        (K::Poisson, _) => (1e-2, 500.0, true),
        (K::T, _) => (0.7, 200.0, true),
    }
}

fn draw_in(rng: &mut Rng, kind: Kind, i: usize, lo: f64, hi: f64) -> f64 {
    let (_, _, log) = range(kind, i);
    let v = if kind.integer(i) {
        rng.int(lo.ceil() as i64, hi.floor() as i64) as f64
    } else if log && lo > 0.0 {
        rng.log_range(lo, hi)
    } else {
        rng.range(lo, hi)
    };
    // boundary values of closed domains now and then
    if !kind.integer(i) && rng.chance(0.06) {
        if lo == range(kind, i).0 && matches!((kind, i), (K::Bernoulli, _) | (K::Binomial, 1) | (K::Normal, 1)) {
            return lo;
        }
        if hi == 1.0 && matches!((kind, i), (K::Bernoulli, _) | (K::Binomial, 1)) {
            return 1.0;
        }
    }
    v
}

fn initial(rng: &mut Rng, kind: Kind) -> Vec<f64> {
    let mut p: Vec<f64> = (0..kind.nparams())
        .map(|i| {
            let (lo, hi, _) = range(kind, i);
            draw_in(rng, kind, i, lo, hi)
        })
        .collect();
    if kind.two_sided() && p[0] > p[1] {
        p.swap(0, 1);
    }
    if kind.two_sided() && p[0] == p[1] {
        p[1] += 1.0;
    }
    p
}

/// A valid new value for parameter `i` given the rest of the model, on the requested side of the
/// current value when that side is non-empty. Returns (value, "up" | "down" | "same").
fn valid_target(rng: &mut Rng, kind: Kind, i: usize, model: &[f64]) -> (f64, &'static str) {
    let up = rng.bool();
    let (mut lo, mut hi, _) = range(kind, i);
    if kind.two_sided() {
        if i == 0 {
            hi = model[1]; // lower <= upper
        } else {
            lo = model[0];
        }
    }
    let cur = model[i];
    let step = if kind.integer(i) { 1.0 } else { 0.0 };
    let (a, b) = if up { (cur + step, hi) } else { (lo, cur - step) };
    let (a, b) = if a > b || (a == b && !kind.integer(i) && a == cur) { if up { (lo, cur - step) } else { (cur + step, hi) } } else { (a, b) };
    if a > b {
        return (cur, "same");
    }
    let v = draw_in(rng, kind, i, a, b);
    (v, if v > cur { "up" } else if v < cur { "down" } else { "same" })
}

/// An invalid value for parameter `i` (None if the parameter has no invalid non-NaN value).
fn invalid_target(rng: &mut Rng, kind: Kind, i: usize, model: &[f64]) -> Option<f64> {
    let pick = |rng: &mut Rng, xs: &[f64]| *rng.choose(xs);
    match (kind, i) {
        (K::Bernoulli, _) | (K::Binomial, 1) => Some(if rng.bool() { pick(rng, &[-0.1, -1.0, -5e-324, -1e300, f64::NEG_INFINITY]) } else { pick(rng, &[1.1, 1.0 + f64::EPSILON, 2.0, 1e300, f64::INFINITY]) }),
        (K::Binomial, _) | (K::Gumbel, 0) | (K::Normal, 0) => None,
        (K::ChiSquared, _) => Some(0.0),
        (K::Normal, _) => Some(pick(rng, &[-1.0, -1e-3, -5e-324, -1e300, f64::NEG_INFINITY])),
        (K::DiscreteUniform, 0) => Some(model[1] + rng.int(1, 50) as f64),
        (K::DiscreteUniform, _) => Some(model[0] - rng.int(1, 50) as f64),
        (K::Uniform, 0) => Some(model[1] + rng.log_range(1e-6, 1e3)),
        (K::Uniform, _) => Some(model[0] - rng.log_range(1e-6, 1e3)),
        _ => Some(pick(rng, &[0.0, -0.0, -1.0, -1e-3, -5e-324, -1e300, f64::NEG_INFINITY])),
    }
}

// ---------------------------------------------------------------------------------------------
// one history

fn history(cfg: &Cfg, rep: &mut Report, rng: &mut Rng, kind: Kind) {
    let name = kind.name();
    let n_draws = if cfg.miri() { 8 } else { 64 };
    let mut hist: Vec<String> = Vec::new();
    let mut hash = Hasher::new().s(name);
    let mut changed = false;

    // constructor, valid and invalid
    let mut model = initial(rng, kind);
    hist.push(format!("new({:?})", model));
    let ctor_regime = format!("{}:ctor", name);
    rep.case(&ctor_regime);
    let mut obj = match guard(|| construct(kind, &model)) {
        Ok(o) => {
            rep.check("C18.ctor.accepts_valid", &ctor_regime, true, || json!(null));
            o
        }
        Err(msg) => {
            rep.check("C18.ctor.accepts_valid", &ctor_regime, false, || json!({"distribution": name, "parameters": jf(&model), "panic": msg}));
            return;
        }
    };
    if !cfg.miri() || rng.chance(0.3) {
        for i in 0..kind.nparams() {
            if let Some(bad) = invalid_target(rng, kind, i, &model) {
                let mut p = model.clone();
                p[i] = bad;
                let r = guard(|| construct(kind, &p));
                rep.check("C18.ctor.rejects_invalid", &format!("{}:ctor:{}", name, &kind.setters()[i][4..]), r.is_err(), || json!({"distribution": name, "parameters": jf(&p), "expected": "panic", "observed": "object constructed"}));
                break;
            }
        }
    }
    {
        let twin = construct(kind, &model);
        let cx = Ctx { kind, history: &hist, n_draws };
        compare(rep, &cx, &ctor_regime, &model, &obj, &twin, rng.u64() | 1);
    }

    let steps = if cfg.miri() { rng.usize(2, 3) } else { rng.usize(1, 20) };
    for _ in 0..steps {
        let seed = rng.u64() | 1;
        let use_update = rng.chance(0.35);
        let want_invalid = rng.chance(0.3);
        if !use_update {
            // ---------------- single setter
            let i = rng.usize(0, kind.nparams() - 1);
            let setter = kind.setters()[i];
            let regime = format!("{}:{}", name, setter);
            let bad = if want_invalid { invalid_target(rng, kind, i, &model) } else { None };
            rep.case(&regime);
            if let Some(v) = bad {
                hist.push(format!("{}({:?}) [invalid]", setter, v));
                hash = hash.s(setter).f(v);
                let before = observe(kind, &model, &obj);
                let mut o2 = obj;
                let r = guard(|| o2.set(i, v));
                let rejected = r.is_err();
                rep.check("C18.setter.rejects_invalid", &regime, rejected, || json!({"distribution": name, "history": hist, "expected": "panic", "observed": "value accepted"}));
                if rejected {
                    // the object the caller still holds after the unwinding panic: `o2`
                    let after = observe(kind, &model, &o2);
                    rep.check("C18.rejected.unchanged", &regime, obs_eq(&before, &after), || json!({"distribution": name, "history": hist, "parameters_expected_current": jf(&model), "observed": "object changed by a rejected call"}));
                }
                // continue from a clean object either way
                obj = construct(kind, &model);
            } else {
                let (v, side) = valid_target(rng, kind, i, &model);
                hist.push(format!("{}({:?})", setter, v));
                hash = hash.s(setter).f(v);
                rep.seen(&format!("cover:{}:{}", regime, side), 1);
                let mut next = model.clone();
                next[i] = v;
                debug_assert!(valid(kind, &next));
                let mut o2 = obj;
                match guard(|| o2.set(i, v)) {
                    Err(msg) => {
                        rep.check("C18.setter.accepts_valid", &regime, false, || json!({"distribution": name, "history": hist, "parameters_before": jf(&model), "panic": msg, "expected": "accepted: the resulting parameters are valid"}));
                        obj = construct(kind, &model);
                    }
                    Ok(()) => {
                        rep.check("C18.setter.accepts_valid", &regime, true, || json!(null));
                        changed |= v != model[i];
                        model = next;
                        obj = o2;
                        let twin = construct(kind, &model);
                        let cx = Ctx { kind, history: &hist, n_draws };
                        if !compare(rep, &cx, &regime, &model, &obj, &twin, seed) {
                            obj = twin; // resynchronise so that one stale step is reported once, under its own regime
                        }
                    }
                }
            }
        } else {
            // ---------------- bulk update
            let np = kind.nparams();
            if want_invalid {
                // choose the first invalid position; positions before it get valid targets
                let candidates: Vec<usize> = (0..np).filter(|&i| invalid_target(&mut rng.clone(), kind, i, &model).is_some()).collect();
                if candidates.is_empty() {
                    continue;
                }
                let bad_at = *rng.choose(&candidates);
                let mut p = model.clone();
                if kind.two_sided() {
                    // lower > upper: either lower beyond the old upper bound (rejected at once) or inside the
                    // old interval with the new upper below it (lower is applied before the upper is rejected)
                    if bad_at == 0 {
                        p[0] = model[1] + 1.0 + rng.int(0, 50) as f64;
                        p[1] = p[0] - 1.0 - rng.int(0, 5) as f64;
                    } else {
                        let (lo, hi) = (model[0], model[1]);
                        p[0] = if kind.integer(0) { rng.int(lo as i64, hi as i64) as f64 } else { rng.range(lo, hi) };
                        p[1] = p[0] - 1.0 - rng.int(0, 50) as f64;
                    }
                } else {
                    for i in 0..np {
                        if i == bad_at {
                            p[i] = invalid_target(rng, kind, i, &model).unwrap();
                        } else {
                            p[i] = valid_target(rng, kind, i, &model).0;
                        }
                    }
                }
                let regime = format!("{}:update:{}", name, if bad_at == 0 { "first-invalid" } else { "valid-prefix" });
                rep.case(&regime);
                hist.push(format!("update({:?}) [invalid]", p));
                hash = hash.s("update").fs(&p);
                let before = observe(kind, &model, &obj);
                let mut o2 = obj;
                let r = guard(|| o2.update(&p));
                let rejected = r.is_err();
                rep.check("C18.update.rejects_invalid", &regime, rejected, || json!({"distribution": name, "history": hist, "expected": "panic", "observed": "vector accepted"}));
                if rejected {
                    let after = observe(kind, &model, &o2);
                    if obs_eq(&before, &after) {
                        rep.check("C18.rejected.unchanged", &regime, true, || json!(null));
                    } else {
                        // the valid prefix may have been applied: the object must then be exactly the twin of those parameters
                        let mut pre = model.clone();
                        pre[..bad_at].copy_from_slice(&p[..bad_at]);
                        let pre_ok = valid(kind, &pre) && obs_eq(&observe(kind, &model, &construct(kind, &pre)), &after);
                        rep.note_add("rejected_update.valid_prefix_applied", 1.0);
                        rep.check("C18.rejected.unchanged", &regime, pre_ok && !STRICT_ATOMIC_UPDATE, || {
                            json!({"distribution": name, "history": hist, "parameters_before": jf(&model), "prefix_applied_would_be": jf(&pre),
                                   "observed": if pre_ok { "the valid prefix of the rejected vector was applied" } else { "object is neither unchanged nor the twin of the valid prefix" }})
                        });
                    }
                }
                obj = construct(kind, &model);
            } else {
                // valid target vector
                let mut p = model.clone();
                let mut tag = String::from("update");
                if kind.two_sided() {
                    let (lo, hi) = (model[0], model[1]);
                    let w = if kind.integer(0) { rng.int(1, 40) as f64 } else { rng.log_range(1e-3, 100.0) };
                    let gap = if kind.integer(0) { rng.int(1, 40) as f64 } else { rng.log_range(1e-3, 100.0) };
                    match rng.usize(0, 3) {
                        0 => {
                            p[0] = hi + gap;
                            p[1] = p[0] + w;
                            tag = "target-above-old-interval".into();
                        }
                        1 => {
                            p[1] = lo - gap;
                            p[0] = p[1] - w;
                            tag = "target-below-old-interval".into();
                        }
                        2 => {
                            p[0] = lo - gap;
                            p[1] = hi + w;
                            tag = "target-contains-old-interval".into();
                        }
                        _ => {
                            let mid = if kind.integer(0) { ((lo + hi) / 2.0).floor() } else { 0.5 * (lo + hi) };
                            p[0] = mid;
                            p[1] = hi + if rng.bool() { w } else { 0.0 };
                            tag = "target-overlaps-old-interval".into();
                        }
                    }
                } else {
                    for i in 0..np {
                        let (v, side) = valid_target(rng, kind, i, &model);
                        p[i] = v;
                        rep.seen(&format!("cover:{}:update:{}:{}", name, &kind.setters()[i][4..], side), 1);
                    }
                }
                let regime = if kind.two_sided() { format!("{}:{}", name, tag) } else { format!("{}:update", name) };
                rep.case(&regime);
                hist.push(format!("update({:?})", p));
                hash = hash.s("update").fs(&p);
                debug_assert!(valid(kind, &p));
                let mut o2 = obj;
                match guard(|| o2.update(&p)) {
                    Err(msg) => {
                        rep.check("C18.update.accepts_valid", &regime, false, || json!({"distribution": name, "history": hist, "parameters_before": jf(&model), "target": jf(&p), "panic": msg, "expected": "accepted: the target vector is valid"}));
                        obj = construct(kind, &model);
                    }
                    Ok(()) => {
                        rep.check("C18.update.accepts_valid", &regime, true, || json!(null));
                        changed |= p != model;
                        model = p;
                        obj = o2;
                        let twin = construct(kind, &model);
                        let cx = Ctx { kind, history: &hist, n_draws };
                        if !compare(rep, &cx, &regime, &model, &obj, &twin, seed) {
                            obj = twin;
                        }
                    }
                }
            }
        }
    }
    rep.distinct(hash.finish(), changed);
    rep.sample(|| json!({"distribution": name, "history": hist, "final_parameters": jf(&model)}));
}

// ---------------------------------------------------------------------------------------------
// isolation: other live objects, other threads

fn isolation_objects(cfg: &Cfg, rep: &mut Report, rng: &mut Rng, kind: Kind) {
    let n = if cfg.miri() { 8 } else { 64 };
    let p = initial(rng, kind);
    let seed = rng.u64() | 1;
    let obj = construct(kind, &p);
    let base = draws(rep, &obj, seed, n);
    let again = draws(rep, &obj, seed, n);
    let regime = format!("{}:k=0", kind.name());
    rep.case(&regime);
    rep.check("C18.reproducible", &regime, stream_eq(&base, &again), || json!({"distribution": kind.name(), "parameters": jf(&p), "seed": seed, "first": jstream(&base), "second": jstream(&again)}));
    for &k in if cfg.miri() { &[1usize][..] } else { &[1usize, 50][..] } {
        // k other live objects, created and sampled before the seed is set; they stay alive during the draw
        let others: Vec<Obj> = (0..k)
            .map(|j| {
                let kk = KINDS[(j + rng.usize(0, 12)) % 13];
                construct(kk, &initial(rng, kk))
            })
            .collect();
        for o in &others {
            let _ = guard(|| o.sample());
        }
        let fresh = construct(kind, &p);
        let s1 = draws(rep, &obj, seed, n);
        let s2 = draws(rep, &fresh, seed, n);
        let regime = format!("{}:k={}", kind.name(), k);
        rep.case(&regime);
        rep.check("C18.isolation.objects", &regime, stream_eq(&base, &s1) && stream_eq(&base, &s2), || json!({"distribution": kind.name(), "parameters": jf(&p), "seed": seed, "alone": jstream(&base), "with_others_old_object": jstream(&s1), "with_others_new_object": jstream(&s2)}));
        std::hint::black_box(&others);
    }
}

fn isolation_threads(cfg: &Cfg, rep: &mut Report, rng: &mut Rng) {
    let n = if cfg.miri() { 6 } else { 256 };
    // cheap samplers under Miri
    let pool: &[Kind] = if cfg.miri() { &[K::Normal, K::Uniform, K::Exponential, K::Bernoulli, K::Gumbel, K::Pareto, K::DiscreteUniform, K::Normal] } else { &KINDS };
    let jobs: Vec<(Kind, Vec<f64>, u64)> = (0..8)
        .map(|t| {
            let k = pool[(t + rng.usize(0, pool.len() - 1)) % pool.len()];
            (k, initial(rng, k), rng.u64() | 1)
        })
        .collect();
    // single-thread reference streams
    let reference: Vec<Stream> = jobs.iter().map(|(k, p, s)| draws(rep, &construct(*k, p), *s, n)).collect();
    let barrier = std::sync::Barrier::new(8);
    let got: Vec<Stream> = std::thread::scope(|sc| {
        let hs: Vec<_> = jobs
            .iter()
            .map(|(k, p, s)| {
                let barrier = &barrier;
                sc.spawn(move || {
                    crate::report::install_panic_hook();
                    let o = construct(*k, p);
                    barrier.wait();
                    alea::set_seed(*s);
                    guard(|| {
                        (0..n)
                            .map(|j| {
                                if j % 2 == 0 {
                                    std::thread::yield_now();
                                }
                                o.sample()
                            })
                            .collect::<Vec<f64>>()
                    })
                })
            })
            .collect();
        hs.into_iter().map(|h| h.join().expect("sampling thread")).collect()
    });
    for t in 0..8 {
        let regime = "threads=8";
        rep.case(regime);
        rep.check("C18.isolation.threads", regime, stream_eq(&reference[t], &got[t]), || json!({"distribution": jobs[t].0.name(), "parameters": jf(&jobs[t].1), "seed": jobs[t].2, "single_thread": jstream(&reference[t]), "concurrent": jstream(&got[t])}));
    }
}

pub fn run(cfg: &Cfg, rep: &mut Report) {
    rep.rule = "random histories: constructor + 1..20 mutations (65% single setter, 35% update; 30% of the steps carry an invalid value; valid targets on a random side of the current value; two-sided bounds: targets above / below / containing / overlapping the old interval), 13 distributions round-robin; after every accepted step the object is compared with a fresh twin (16 probe points, mean, var, 64 seeded draws); then isolation cases (k = 0, 1, 50 other live objects; 8 concurrent threads). non-trivial = at least one accepted mutation changed a parameter; distinct by (distribution, sequence of calls and values)".into();
    rep.assume("NaN is not used as an invalid probe: constructors and setters agree in accepting it");
    rep.assume("integer-typed parameters (Binomial n, ChiSquared dof, DiscreteUniform bounds) are mutated with integer values only; update() receives them as integer-valued f64 (its f64→integer cast cannot express other invalid values than the typed setter)");
    rep.assume("shape parameters are kept >= 0.4 (T: dof >= 0.7) so that verdicts do not depend on the gamma sampler below shape 1/3 (C03); a stream cut by the iteration budget on BOTH object and twin is equal behaviour");
    rep.assume("Binomial pmf is probed inside 0..=n only (outside it panics on any object, C02)");
    rep.assume("a rejected bulk update may have applied its valid prefix (recorded in notes.rejected_update.valid_prefix_applied); demanded is that the object then equals the twin of exactly those parameters — the property forbids out-of-domain parameters, not non-atomic rejection");
    let n_hist = cfg.pick(13 * 200, 13 * 3000, 13);
    par_cases(cfg, rep, 1, n_hist, |i, rng, rep| {
        history(cfg, rep, rng, KINDS[i % 13]);
    });
    let n_iso = cfg.pick(13 * 4, 13 * 40, 3);
    par_cases(cfg, rep, 2, n_iso, |i, rng, rep| {
        isolation_objects(cfg, rep, rng, KINDS[(i * 5) % 13]);
    });
    let n_thr = cfg.pick(16, 200, 1);
    // sequential: each case spawns its own 8 sampling threads
    let one = Cfg { threads: 1, ..cfg.clone() };
    par_cases(&one, rep, 3, n_thr, |_i, rng, rep| {
        isolation_threads(cfg, rep, rng);
    });
    rep.require("threads=8", 8);
    if !cfg.lite {
        for k in KINDS {
            rep.require(&format!("{}:ctor", k.name()), 1);
            rep.require(&format!("{}:k=50", k.name()), 1);
            for s in k.setters() {
                rep.require(&format!("{}:{}", k.name(), s), 1);
                rep.require(&format!("cover:{}:{}:up", k.name(), s), 1);
                rep.require(&format!("cover:{}:{}:down", k.name(), s), 1);
            }
            if k.two_sided() {
                for t in ["target-above-old-interval", "target-below-old-interval", "target-contains-old-interval", "target-overlaps-old-interval"] {
                    rep.require(&format!("{}:{}", k.name(), t), 1);
                }
            } else {
                rep.require(&format!("{}:update", k.name()), 1);
            }
        }
    }
}
