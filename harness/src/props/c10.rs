//! C10 — optimizers follow their published update rules; Levenberg–Marquardt descends (DESIGN §3 C10).
//!
//! Events: every `Optimizer::optimize` call (value or panic) of `Adam`, `SGD` and `LM`, together
//! with the number of steps the call really executed (step hooks).
//!
//! Adam / SGD: the internal state is not observable, so the trajectory is reconstructed by calling
//! `optimize` with `maxsteps = 0, 1, …, K` on one (reused) optimizer object. The result of a call
//! that executed `j` steps must equal iterate `j` of the reference recurrence written here
//! (Kingma & Ba Alg. 1 with bias correction; classical momentum; Nesterov with the gradient at
//! the look-ahead point), whose gradients are hand-derived formulas cross-checked against
//! `reverse`. The comparison tolerance is self-calibrated: the reference is run a second time with
//! a perturbation of 4ε injected into every evaluation point, gradient and update;
//! `tol_k = 1e3·(running max divergence of the two runs) + 1e-13·(1+‖x_k‖∞)`.
//! A call that executed `j < maxsteps` steps stopped early: then the library's own iterates `j`
//! and `j−1` must agree to 4 ulp in every coordinate *with the same sign*.
//!
//! LM: RSS(returned) ≤ RSS(start) for every step budget 0..200, the least-squares solution is
//! reached on models linear in the parameters (`LM::new(1e-14, 1e-14, τ)`), covariance =
//! `RSS/(n−p)·(JᵀJ)⁻¹` with an analytic Jacobian at the returned point. The same three clauses at absolute
//! scales far from 1 (`lm-scaled:*`: basis functions multiplied by 1e-12..1e12, tolerances adapted to the scale
//! and default tolerances; `lm-plateau:*`: exponential / logistic fits started where the model is flat), the
//! covariance judged scale-free against the unit-diagonal form of JᵀJ — see `mod lm`.
use crate::gen::Rng;
use crate::oracle::dd::Dd;
use crate::oracle::linref;
use crate::report::{case_seed, guard, jf, jnum, par_cases, same_bits_slice, Cfg, Hasher, Report};
use compute::optimize::{Adam, Optimizer, LM, SGD};
use compute::verif_hooks::{count, Site};
use reverse::{Gradient, Tape, Var};
use serde_json::{json, Value};

const EPS: f64 = f64::EPSILON;

// ---------------------------------------------------------------------------------------------
// objective family: `reverse` expressions and hand-derived gradients

mod obj {
    use super::*;

    #[derive(Clone, Copy, PartialEq, Debug)]
    pub enum Kind {
        Quad,
        Rosen,
        LsExp,
        LsSin,
        LsRat,
    }

    pub struct Problem {
        pub kind: Kind,
        pub label: &'static str,
        pub data: Vec<Vec<f64>>,
        pub dim: usize,
    }

    /// ½ xᵀA x − bᵀx, A symmetric (d[0], row-major), b = d[1]
    pub fn f_quad<'a>(p: &[Var<'a>], d: &[&[f64]]) -> Var<'a> {
        let n = p.len();
        let (a, b) = (d[0], d[1]);
        let mut terms: Vec<Var<'a>> = Vec::with_capacity(n * n + n);
        for i in 0..n {
            for j in 0..n {
                if a[i * n + j] != 0.0 {
                    terms.push(p[i] * p[j] * (0.5 * a[i * n + j]));
                }
            }
            terms.push(p[i] * (-b[i]));
        }
        terms.into_iter().sum()
    }
    /// chained Rosenbrock Σ (a − x_i)² + b (x_{i+1} − x_i²)², d[0] = [a, b]
    pub fn f_rosen<'a>(p: &[Var<'a>], d: &[&[f64]]) -> Var<'a> {
        let (a, b) = (d[0][0], d[0][1]);
        (0..p.len() - 1).map(|i| (a - p[i]).powi(2) + b * (p[i + 1] - p[i].powi(2)).powi(2)).sum()
    }
    /// mean squared error of p0·exp(p1 t) [+ p2]
    pub fn f_lsexp<'a>(p: &[Var<'a>], d: &[&[f64]]) -> Var<'a> {
        let (t, y) = (d[0], d[1]);
        let s: Var<'a> = t
            .iter()
            .zip(y)
            .map(|(&t, &y)| {
                let m = p[0] * (p[1] * t).exp();
                let m = if p.len() > 2 { m + p[2] } else { m };
                (m - y).powi(2)
            })
            .sum();
        s / t.len() as f64
    }
    /// mean squared error of p0·sin(p1 t + p2)
    pub fn f_lssin<'a>(p: &[Var<'a>], d: &[&[f64]]) -> Var<'a> {
        let (t, y) = (d[0], d[1]);
        let s: Var<'a> = t.iter().zip(y).map(|(&t, &y)| (p[0] * (p[1] * t + p[2]).sin() - y).powi(2)).sum();
        s / t.len() as f64
    }
    /// mean squared error of (p0 + p1 t) / (1 + (p2 t)²): division and powi nodes
    pub fn f_lsrat<'a>(p: &[Var<'a>], d: &[&[f64]]) -> Var<'a> {
        let (t, y) = (d[0], d[1]);
        let s: Var<'a> = t.iter().zip(y).map(|(&t, &y)| ((p[0] + p[1] * t) / ((p[2] * t).powi(2) + 1.0) - y).powi(2)).sum();
        s / t.len() as f64
    }

    impl Problem {
        pub fn slices(&self) -> Vec<&[f64]> {
            self.data.iter().map(|v| v.as_slice()).collect()
        }
        pub fn call<O: Optimizer<Output = compute::linalg::Vector>>(&self, o: &O, x0: &[f64], k: usize) -> Vec<f64> {
            let d = self.slices();
            let v = match self.kind {
                Kind::Quad => o.optimize(f_quad, x0, &d, k),
                Kind::Rosen => o.optimize(f_rosen, x0, &d, k),
                Kind::LsExp => o.optimize(f_lsexp, x0, &d, k),
                Kind::LsSin => o.optimize(f_lssin, x0, &d, k),
                Kind::LsRat => o.optimize(f_lsrat, x0, &d, k),
            };
            v.v
        }
        /// gradient through `reverse` (cross-check of the hand-derived formulas)
        pub fn ad_grad(&self, x: &[f64]) -> Vec<f64> {
            let tape = Tape::new();
            let p = tape.add_vars(x);
            let d = self.slices();
            let r = match self.kind {
                Kind::Quad => f_quad(&p, &d),
                Kind::Rosen => f_rosen(&p, &d),
                Kind::LsExp => f_lsexp(&p, &d),
                Kind::LsSin => f_lssin(&p, &d),
                Kind::LsRat => f_lsrat(&p, &d),
            };
            r.grad().wrt(&p)
        }
        /// hand-derived gradient and, per component, the sum of the magnitudes of its terms
        pub fn grad(&self, x: &[f64]) -> (Vec<f64>, Vec<f64>) {
            let n = x.len();
            let mut g = vec![0.0; n];
            let mut sc = vec![0.0; n];
            let mut add = |i: usize, v: f64| {
                g[i] += v;
                sc[i] += v.abs();
            };
            match self.kind {
                Kind::Quad => {
                    let (a, b) = (&self.data[0], &self.data[1]);
                    for i in 0..n {
                        for j in 0..n {
                            add(i, a[i * n + j] * x[j]);
                        }
                        add(i, -b[i]);
                    }
                }
                Kind::Rosen => {
                    let (a, b) = (self.data[0][0], self.data[0][1]);
                    for i in 0..n - 1 {
                        let w = x[i + 1] - x[i] * x[i];
                        add(i, -2.0 * (a - x[i]));
                        add(i, -4.0 * b * x[i] * w);
                        add(i + 1, 2.0 * b * w);
                    }
                }
                Kind::LsExp => {
                    let (t, y) = (&self.data[0], &self.data[1]);
                    let c = 2.0 / t.len() as f64;
                    for k in 0..t.len() {
                        let e = (x[1] * t[k]).exp();
                        let m = x[0] * e + if n > 2 { x[2] } else { 0.0 };
                        let r = m - y[k];
                        add(0, c * r * e);
                        add(1, c * r * x[0] * t[k] * e);
                        if n > 2 {
                            add(2, c * r);
                        }
                    }
                }
                Kind::LsSin => {
                    let (t, y) = (&self.data[0], &self.data[1]);
                    let c = 2.0 / t.len() as f64;
                    for k in 0..t.len() {
                        let u = x[1] * t[k] + x[2];
                        let r = x[0] * u.sin() - y[k];
                        add(0, c * r * u.sin());
                        add(1, c * r * x[0] * t[k] * u.cos());
                        add(2, c * r * x[0] * u.cos());
                    }
                }
                Kind::LsRat => {
                    let (t, y) = (&self.data[0], &self.data[1]);
                    let c = 2.0 / t.len() as f64;
                    for k in 0..t.len() {
                        let den = 1.0 + (x[2] * t[k]) * (x[2] * t[k]);
                        let num = x[0] + x[1] * t[k];
                        let r = num / den - y[k];
                        add(0, c * r / den);
                        add(1, c * r * t[k] / den);
                        add(2, -c * r * num * 2.0 * x[2] * t[k] * t[k] / (den * den));
                    }
                }
            }
            (g, sc)
        }
    }

    fn random_orthogonal(rng: &mut Rng, n: usize) -> Vec<f64> {
        let mut q = vec![0.0; n * n];
        for i in 0..n {
            loop {
                let mut v: Vec<f64> = rng.normals(n);
                for r in 0..i {
                    let d: f64 = (0..n).map(|k| v[k] * q[r * n + k]).sum();
                    for k in 0..n {
                        v[k] -= d * q[r * n + k];
                    }
                }
                let nr = v.iter().map(|a| a * a).sum::<f64>().sqrt();
                if nr > 1e-3 {
                    for k in 0..n {
                        q[i * n + k] = v[k] / nr;
                    }
                    break;
                }
            }
        }
        q
    }

    pub fn quadratic(rng: &mut Rng, convex: bool) -> (Problem, Vec<f64>) {
        let n = rng.usize(1, 8);
        let q = random_orthogonal(rng, n);
        let mut lam: Vec<f64> = (0..n).map(|_| rng.log_range(0.05, 4.0)).collect();
        if !convex {
            let neg = rng.usize(1, n.div_ceil(2));
            for l in lam.iter_mut().take(neg) {
                *l = -rng.log_range(0.05, 1.0);
            }
        }
        let mut a = vec![0.0; n * n];
        for i in 0..n {
            for j in 0..=i {
                let s: f64 = (0..n).map(|k| q[k * n + i] * lam[k] * q[k * n + j]).sum();
                a[i * n + j] = s;
                a[j * n + i] = s;
            }
        }
        let xs: Vec<f64> = rng.vec(n, -3.0, 3.0);
        let b: Vec<f64> = (0..n).map(|i| (0..n).map(|j| a[i * n + j] * xs[j]).sum()).collect();
        let x0: Vec<f64> = xs.iter().map(|v| v + rng.range(-2.0, 2.0)).collect();
        (Problem { kind: Kind::Quad, label: if convex { "quad-convex" } else { "quad-nonconvex" }, data: vec![a, b], dim: n }, x0)
    }
    /// Separable convex quadratic ½ Σ a_i (x_i − c_i)² whose solution components c_i differ by up to 1e12
    /// in size (parameters in different units). `rates[i]` = stepsize·a_i is what plain gradient descent
    /// contracts coordinate i by (|1 − rate|): 1 lands exactly, 0.5 / 0.75 / 1.5 stop changing within ~60
    /// steps, 0.05 / 0.1 keep moving for hundreds of steps. "Stopped changing" is a statement about every
    /// parameter, the tiny ones included.
    pub fn quadratic_mixed_scale(rng: &mut Rng, lr: f64) -> (Problem, Vec<f64>) {
        let n = rng.usize(2, 6);
        let span = *rng.choose(&[3i64, 6, 6]);
        let mut c: Vec<f64> = (0..n).map(|_| rng.range(1.0, 9.0) * (10.0f64).powi(rng.int(-span, span) as i32) * if rng.bool() { 1.0 } else { -1.0 }).collect();
        // the extremes of the span are always present
        c[0] = rng.range(1.0, 9.0) * (10.0f64).powi(span as i32);
        c[1] = rng.range(1.0, 9.0) * (10.0f64).powi(-span as i32);
        let slow = rng.chance(0.4);
        let rates: Vec<f64> = (0..n).map(|i| if slow && i == 1 { *rng.choose(&[0.05, 0.1]) } else { *rng.choose(&[1.0, 0.5, 0.75, 1.5, 0.25]) }).collect();
        let mut a = vec![0.0; n * n];
        let mut b = vec![0.0; n];
        for i in 0..n {
            a[i * n + i] = rates[i] / lr;
            b[i] = a[i * n + i] * c[i];
        }
        let x0: Vec<f64> = (0..n).map(|i| if rng.chance(0.15) { 0.0 } else { c[i] * rng.range(-1.0, 3.0) }).collect();
        (Problem { kind: Kind::Quad, label: "quad-mixed-scale", data: vec![a, b], dim: n }, x0)
    }
    pub fn rosenbrock(rng: &mut Rng) -> (Problem, Vec<f64>) {
        let n = *rng.choose(&[2usize, 2, 2, 3, 4]);
        let b = *rng.choose(&[100.0, 100.0, 10.0, 1.0]);
        let x0: Vec<f64> = match rng.usize(0, 3) {
            0 => vec![0.0; n],
            1 => (0..n).map(|i| if i % 2 == 0 { -1.2 } else { 1.0 }).collect(),
            _ => rng.vec(n, -1.5, 1.5),
        };
        (Problem { kind: Kind::Rosen, label: "rosenbrock", data: vec![vec![1.0, b]], dim: n }, x0)
    }
    pub fn least_squares(rng: &mut Rng, which: usize) -> (Problem, Vec<f64>) {
        let m = rng.usize(5, 30);
        match which {
            0 => {
                let dim = if rng.bool() { 2 } else { 3 };
                let t: Vec<f64> = (0..m).map(|_| rng.range(0.0, 1.0)).collect();
                let tr = [rng.range(0.5, 2.0), rng.range(-2.0, 1.0), rng.range(-1.0, 1.0)];
                let y: Vec<f64> = t.iter().map(|&t| tr[0] * (tr[1] * t).exp() + if dim > 2 { tr[2] } else { 0.0 } + 0.05 * rng.normal()).collect();
                let x0: Vec<f64> = (0..dim).map(|i| tr[i] + rng.range(-0.7, 0.7)).collect();
                (Problem { kind: Kind::LsExp, label: "ls-exp", data: vec![t, y], dim }, x0)
            }
            1 => {
                let t: Vec<f64> = (0..m).map(|_| rng.range(0.0, 3.0)).collect();
                let tr = [rng.range(0.5, 2.0), rng.range(1.0, 3.0), rng.range(-1.0, 1.0)];
                let y: Vec<f64> = t.iter().map(|&t| tr[0] * (tr[1] * t + tr[2]).sin() + 0.05 * rng.normal()).collect();
                let x0: Vec<f64> = (0..3).map(|i| tr[i] + rng.range(-0.5, 0.5)).collect();
                (Problem { kind: Kind::LsSin, label: "ls-sin", data: vec![t, y], dim: 3 }, x0)
            }
            _ => {
                let t: Vec<f64> = (0..m).map(|_| rng.range(-2.0, 2.0)).collect();
                let tr = [rng.range(-1.0, 2.0), rng.range(-1.0, 1.0), rng.range(0.3, 2.0)];
                let y: Vec<f64> = t.iter().map(|&t| (tr[0] + tr[1] * t) / (1.0 + (tr[2] * t).powi(2)) + 0.05 * rng.normal()).collect();
                let x0: Vec<f64> = (0..3).map(|i| tr[i] + rng.range(-0.5, 0.5)).collect();
                (Problem { kind: Kind::LsRat, label: "ls-rational", data: vec![t, y], dim: 3 }, x0)
            }
        }
    }
}
use obj::Problem;

// ---------------------------------------------------------------------------------------------
// reference recurrences

#[derive(Clone, Copy, Debug)]
enum Opt {
    Adam { lr: f64, b1: f64, b2: f64, eps: f64 },
    Sgd { lr: f64, mom: f64, nesterov: bool },
}

impl Opt {
    fn name(&self) -> &'static str {
        match self {
            Opt::Adam { .. } => "adam",
            Opt::Sgd { mom, nesterov, .. } => {
                if *nesterov {
                    "nesterov"
                } else if *mom != 0.0 {
                    "momentum"
                } else {
                    "sgd"
                }
            }
        }
    }
    fn site(&self) -> Site {
        match self {
            Opt::Adam { .. } => Site::AdamStep,
            Opt::Sgd { .. } => Site::SgdStep,
        }
    }
    fn json(&self) -> Value {
        match *self {
            Opt::Adam { lr, b1, b2, eps } => json!({"optimizer": "Adam", "stepsize": lr, "beta1": b1, "beta2": b2, "epsilon": eps}),
            Opt::Sgd { lr, mom, nesterov } => json!({"optimizer": "SGD", "stepsize": lr, "momentum": mom, "nesterov": nesterov}),
        }
    }
}

enum LibOpt {
    A(Adam),
    S(SGD),
}
impl LibOpt {
    fn new(o: &Opt) -> LibOpt {
        match *o {
            Opt::Adam { lr, b1, b2, eps } => LibOpt::A(Adam::new(lr, b1, b2, eps)),
            Opt::Sgd { lr, mom, nesterov } => LibOpt::S(SGD::new(lr, mom, nesterov)),
        }
    }
    fn call(&self, pr: &Problem, x0: &[f64], k: usize) -> Vec<f64> {
        match self {
            LibOpt::A(a) => pr.call(a, x0, k),
            LibOpt::S(s) => pr.call(s, x0, k),
        }
    }
}

/// Iterates 0..=k of the published recurrence. With `pert`, every evaluation point, gradient
/// component and updated parameter is perturbed by 4ε (random sign): the calibration run.
fn reference(pr: &Problem, o: &Opt, x0: &[f64], k: usize, mut pert: Option<&mut Rng>) -> Vec<Vec<f64>> {
    let n = x0.len();
    let mut x = x0.to_vec();
    let mut out = Vec::with_capacity(k + 1);
    out.push(x.clone());
    let mut m = vec![0.0; n];
    let mut v = vec![0.0; n];
    let mut u = vec![0.0; n];
    let sgn = |p: &mut Option<&mut Rng>| -> f64 {
        match p {
            Some(r) => 4.0 * EPS * if r.bool() { 1.0 } else { -1.0 },
            None => 0.0,
        }
    };
    for t in 1..=k {
        let mut at: Vec<f64> = match *o {
            Opt::Sgd { mom, nesterov: true, .. } => (0..n).map(|i| x[i] - mom * u[i]).collect(),
            _ => x.clone(),
        };
        if pert.is_some() {
            for a in at.iter_mut() {
                *a *= 1.0 + sgn(&mut pert);
            }
        }
        let (mut g, sc) = pr.grad(&at);
        if pert.is_some() {
            for i in 0..n {
                g[i] += sgn(&mut pert) * sc[i];
            }
        }
        match *o {
            Opt::Adam { lr, b1, b2, eps } => {
                for p in 0..n {
                    m[p] = b1 * m[p] + (1. - b1) * g[p];
                    v[p] = b2 * v[p] + (1. - b2) * g[p] * g[p];
                    let mhat = m[p] / (1. - b1.powi(t as i32));
                    let vhat = v[p] / (1. - b2.powi(t as i32));
                    x[p] = x[p] - lr * mhat / (vhat.sqrt() + eps);
                }
            }
            Opt::Sgd { lr, mom, .. } => {
                for p in 0..n {
                    u[p] = mom * u[p] + lr * g[p];
                    x[p] = x[p] - u[p];
                }
            }
        }
        if pert.is_some() {
            for a in x.iter_mut() {
                *a *= 1.0 + sgn(&mut pert);
            }
        }
        out.push(x.clone());
    }
    out
}

// ---------------------------------------------------------------------------------------------
// every route to an optimizer with a given hyper-parameter setting
//
// "For every ... hyper-parameter setting": the setting is a property of the object that runs, however the
// object came to have it. The public API of src/optimize/{adam,sgd,lm}.rs offers
//   Adam: new(stepsize, beta1, beta2, epsilon) · Default (1e-3, 0.9, 0.999, 1e-8) · with_stepsize(s) · set_stepsize(s) · Clone
//   SGD:  new(stepsize, momentum, nesterov)    · Default (1e-5, 0.9, true)         ·                  set_stepsize(s) · Clone
//   LM:   new(eps1, eps2, tau)                 · Default (1e-6, 1e-6, 1e-2) · public fields eps1, eps2, tau          · Clone
// Routes: `new` (every other workload), new with another stepsize + set_stepsize, Default + set_stepsize and
// Adam::with_stepsize (hyper-parameters at their defaults), clone() of a configured object, clone then set, set
// then clone, a clone of an object that has already been used (its tape is not empty), a clone used while the
// original is used too (the original runs a few steps between any two calls of the clone). The object a route
// produces gets the whole trajectory oracle (reference recurrence at every budget, early-stop rule), is compared
// bit for bit with an object made by `new` (`C10.deterministic.fresh_vs_reused`) and, for the clone routes, with
// the original it was cloned from, brought to the same setting (`C10.deterministic.clone_vs_original`).

const ROUTES_ADAM: [&str; 8] = ["new+set_stepsize", "default+set_stepsize", "with_stepsize", "clone", "clone-then-set", "set-then-clone", "clone-of-used", "clone-interleaved"];
const ROUTES_SGD: [&str; 7] = ["new+set_stepsize", "default+set_stepsize", "clone", "clone-then-set", "set-then-clone", "clone-of-used", "clone-interleaved"];
/// routes that need the hyper-parameters other than the stepsize at their defaults
fn route_needs_defaults(route: &str) -> bool {
    route == "default+set_stepsize" || route == "with_stepsize"
}

/// the monitored object, the original a clone was taken from (same setting), and whether the original keeps
/// being used between the calls of the monitored object
struct Routed {
    obj: LibOpt,
    original: Option<LibOpt>,
    interleave: bool,
}

impl LibOpt {
    fn set_stepsize(&mut self, lr: f64) {
        match self {
            LibOpt::A(a) => a.set_stepsize(lr),
            LibOpt::S(s) => s.set_stepsize(lr),
        }
    }
    fn dup(&self) -> LibOpt {
        match self {
            LibOpt::A(a) => LibOpt::A(a.clone()),
            LibOpt::S(s) => LibOpt::S(s.clone()),
        }
    }
    fn with_lr(o: &Opt, lr: f64) -> LibOpt {
        match *o {
            Opt::Adam { b1, b2, eps, .. } => LibOpt::A(Adam::new(lr, b1, b2, eps)),
            Opt::Sgd { mom, nesterov, .. } => LibOpt::S(SGD::new(lr, mom, nesterov)),
        }
    }
}

fn opt_lr(o: &Opt) -> f64 {
    match *o {
        Opt::Adam { lr, .. } | Opt::Sgd { lr, .. } => lr,
    }
}

/// build the optimizer for `o` along `route` (`other_lr`: the stepsize an object holds before it is set; `warm`:
/// a use of the original before it is cloned)
fn build_route(o: &Opt, route: &str, other_lr: f64, warm: &dyn Fn(&LibOpt)) -> Routed {
    let lr = opt_lr(o);
    let plain = |obj: LibOpt| Routed { obj, original: None, interleave: false };
    match route {
        "new+set_stepsize" => {
            let mut a = LibOpt::with_lr(o, other_lr);
            a.set_stepsize(lr);
            plain(a)
        }
        "default+set_stepsize" => {
            let mut a = match o {
                Opt::Adam { .. } => LibOpt::A(Adam::default()),
                Opt::Sgd { .. } => LibOpt::S(SGD::default()),
            };
            a.set_stepsize(lr);
            plain(a)
        }
        "with_stepsize" => plain(LibOpt::A(Adam::with_stepsize(lr))),
        "clone" => {
            let a = LibOpt::new(o);
            Routed { obj: a.dup(), original: Some(a), interleave: false }
        }
        "clone-then-set" => {
            let mut a = LibOpt::with_lr(o, other_lr);
            let mut c = a.dup();
            c.set_stepsize(lr);
            a.set_stepsize(lr);
            Routed { obj: c, original: Some(a), interleave: false }
        }
        "set-then-clone" => {
            let mut a = LibOpt::with_lr(o, other_lr);
            a.set_stepsize(lr);
            Routed { obj: a.dup(), original: Some(a), interleave: false }
        }
        "clone-of-used" => {
            let a = LibOpt::new(o);
            warm(&a);
            Routed { obj: a.dup(), original: Some(a), interleave: false }
        }
        "clone-interleaved" => {
            let a = LibOpt::new(o);
            Routed { obj: a.dup(), original: Some(a), interleave: true }
        }
        _ => plain(LibOpt::new(o)),
    }
}

fn inf_norm(x: &[f64]) -> f64 {
    x.iter().fold(0.0f64, |m, v| if v.is_nan() { f64::INFINITY } else { m.max(v.abs()) })
}

/// distance in units in the last place between two magnitudes
fn ulp_dist_abs(a: f64, b: f64) -> u64 {
    if !a.is_finite() || !b.is_finite() {
        return if a.to_bits() == b.to_bits() { 0 } else { u64::MAX };
    }
    let (x, y) = (a.abs().to_bits(), b.abs().to_bits());
    x.abs_diff(y)
}

struct CaseSpec<'a> {
    pr: &'a Problem,
    opt: Opt,
    x0: Vec<f64>,
    kmax: usize,
    /// budgets to call (ascending, contains every value 0..=min(kmax, dense))
    budgets: Vec<usize>,
    regime: String,
    /// regime used for the early-stop assertions (directed cases name the mechanism)
    stop_regime: String,
    /// how the optimizer object is made (`new` unless the case is one of the route family)
    route: &'static str,
}

/// Trajectory reconstruction and all Adam/SGD assertions for one case.
fn monitor_case(rep: &mut Report, cs: &CaseSpec, rng: &mut Rng) {
    let (pr, o, x0) = (cs.pr, &cs.opt, &cs.x0);
    let regime = cs.regime.as_str();
    let n = x0.len();
    rep.case(regime);
    rep.distinct(Hasher::new().s(regime).s(&o.json().to_string()).fs(x0).u(pr.dim as u64).u(cs.kmax as u64).fs(&pr.data[0][..pr.data[0].len().min(8)]).finish(), true);
    let detail0 = |extra: Value| json!({"objective": pr.label, "data": pr.data.iter().map(|d| jf(d)).collect::<Vec<_>>(), "start": jf(x0), "hyper": o.json(), "route": cs.route, "detail": extra});

    // oracle self-check: hand-derived gradient vs reverse at the start point
    let exact = reference(pr, o, x0, cs.kmax, None);
    for probe in [0usize, cs.kmax / 2] {
        let at = &exact[probe];
        if at.iter().all(|v| v.is_finite() && v.abs() < 1e6) {
            let (g, sc) = pr.grad(at);
            let ad = pr.ad_grad(at);
            for i in 0..n {
                let e = (g[i] - ad[i]).abs();
                if !(e <= 1e-12 * sc[i] + 1e-300) && g[i].is_finite() && ad[i].is_finite() {
                    rep.inconclusive(format!("analytic gradient of {} disagrees with reverse: {} vs {} at {:?}", pr.label, g[i], ad[i], at));
                    return;
                }
                if sc[i] > 0.0 {
                    rep.note_max("worst_ratio.gradient_crosscheck(1e-12*scale)", e / (1e-12 * sc[i]));
                }
            }
        }
    }
    let perturbed = reference(pr, o, x0, cs.kmax, Some(rng));
    let mut tol = Vec::with_capacity(cs.kmax + 1);
    let mut comparable = Vec::with_capacity(cs.kmax + 1);
    let mut run = 0.0f64;
    let mut dead = false;
    for k in 0..=cs.kmax {
        let mut d = 0.0f64;
        for i in 0..n {
            let e = (exact[k][i] - perturbed[k][i]).abs();
            d = if e.is_nan() { f64::INFINITY } else { d.max(e) };
        }
        run = run.max(d);
        let xn = inf_norm(&exact[k]);
        if !xn.is_finite() || xn > 1e150 {
            dead = true; // overflowed: nothing after this point is compared
        }
        let t = 1e3 * run + 1e-13 * (1.0 + xn);
        tol.push(t);
        comparable.push(!dead && t <= 1e-6 * (1.0 + xn));
    }

    // (drawn for the route family only, so that every other workload keeps its random stream)
    let other_lr = if cs.route == "new" { opt_lr(o) } else { opt_lr(o) * *rng.choose(&[0.1, 0.5, 2.0, 7.0]) };
    let built = guard(|| build_route(o, cs.route, other_lr, &|a: &LibOpt| { let _ = a.call(pr, x0, 3); }));
    let routed = match built {
        Ok(r) => r,
        Err(msg) => {
            rep.check("C10.optimize.no_panic", regime, false, || detail0(json!({"route": cs.route, "panic": msg, "note": "while constructing the optimizer"})));
            return;
        }
    };
    let lib = &routed.obj;
    let site = o.site();
    // traj[j] = library result of a call that executed exactly j steps with budget j
    let mut traj: Vec<Option<Vec<f64>>> = vec![None; cs.kmax + 1];
    let mut stop_at: Option<usize> = None;
    let mut low_power = 0u64;
    let mut worst = 0.0f64;
    for &k in &cs.budgets {
        if let (true, Some(orig)) = (routed.interleave, routed.original.as_ref()) {
            // the original keeps working while its clone is monitored
            let _ = guard(|| orig.call(pr, x0, 1 + k % 5));
        }
        let c0 = count(site);
        let r = guard(|| lib.call(pr, x0, k));
        let j = (count(site) - c0) as usize;
        rep.note_add("calls.optimize(adam,sgd)", 1.0);
        if k >= 1 && j == 0 && r.is_ok() {
            // every call with a budget executes at least one step: no tick means the step hook is not in the
            // loop any more (instrumentation removed by a rewrite), and the trajectory cannot be reconstructed
            rep.inconclusive(format!("{}: optimize ran with maxsteps {} but the step hook never ticked", regime, k));
            return;
        }
        let got = match r {
            Ok(v) => {
                rep.check("C10.optimize.no_panic", regime, true, || json!(null));
                v
            }
            Err(msg) => {
                rep.check("C10.optimize.no_panic", regime, false, || detail0(json!({"maxsteps": k, "panic": msg})));
                return;
            }
        };
        if !rep.check("C10.optimize.shape", regime, got.len() == n && j <= k, || detail0(json!({"maxsteps": k, "steps_executed": j, "returned_len": got.len()}))) {
            return;
        }
        // the j-th iterate of the published recurrence
        if comparable[j] {
            let mut w = 0.0f64;
            let mut ident = true;
            for i in 0..n {
                let e = (got[i] - exact[j][i]).abs();
                if got[i].to_bits() != exact[j][i].to_bits() {
                    ident = false;
                }
                let r = if e.is_nan() { f64::INFINITY } else { e / tol[j] };
                w = w.max(r);
                let rel = e / (1.0 + exact[j][i].abs());
                if rel.is_finite() {
                    rep.note_max("worst.rel_diff_library_vs_reference", rel);
                }
            }
            worst = worst.max(w);
            if j > 1024 {
                rep.seen(&format!("{}:compared:k>1024", regime), 1);
            }
            rep.note_add("iterates.compared", 1.0);
            if ident {
                rep.note_add("iterates.bit_identical", 1.0);
            }
            rep.check("C10.iterate.matches_reference", regime, w <= 1.0, || detail0(json!({"maxsteps": k, "steps_executed": j, "observed": jf(&got), "expected": jf(&exact[j]), "tolerance": tol[j]})));
        } else {
            low_power += 1;
        }
        if j == k {
            if traj[j].is_none() {
                traj[j] = Some(got.clone());
            }
        } else {
            // early stop
            rep.seen(&format!("early-stop:{}", o.name()), 1);
            let sreg = cs.stop_regime.as_str();
            match stop_at {
                None => stop_at = Some(j),
                Some(s) => {
                    rep.check("C10.early_stop.consistent", sreg, s == j, || detail0(json!({"maxsteps": k, "steps_executed": j, "earlier_stop_at": s})));
                }
            }
            if j >= 1 {
                // sparse budgets: reconstruct the library's iterates j-1 and j on the spot
                for jj in [j - 1, j] {
                    if traj[jj].is_none() {
                        let c0 = count(site);
                        if let Ok(v) = guard(|| lib.call(pr, x0, jj)) {
                            if (count(site) - c0) as usize == jj {
                                traj[jj] = Some(v);
                            }
                        }
                    }
                }
                if let (Some(xj), Some(xp)) = (traj[j].as_ref(), traj[j - 1].as_ref()) {
                    rep.check("C10.early_stop.same_as_budget_j", sreg, same_bits_slice(&got, xj), || detail0(json!({"maxsteps": k, "steps_executed": j, "observed": jf(&got), "result_with_maxsteps_j": jf(xj)})));
                    let mut mag_ok = true;
                    let mut sign_ok = true;
                    let mut wd = 0u64;
                    for i in 0..n {
                        let d = ulp_dist_abs(xj[i], xp[i]);
                        wd = wd.max(d);
                        if d > 4 {
                            mag_ok = false;
                        } else if xj[i] != 0.0 && xp[i] != 0.0 && (xj[i] > 0.0) != (xp[i] > 0.0) {
                            sign_ok = false;
                        }
                    }
                    if mag_ok {
                        rep.note_max("worst.early_stop_ulps", wd as f64);
                    }
                    let d = || detail0(json!({"maxsteps": k, "steps_executed": j, "library_iterate_j": jf(xj), "library_iterate_j_minus_1": jf(xp), "reference_iterate_j_plus_1": jf(&exact[(j + 1).min(cs.kmax)]), "returned": jf(&got)}));
                    rep.check("C10.early_stop.magnitude", sreg, mag_ok, d);
                    rep.check("C10.early_stop.sign", sreg, sign_ok, d);
                } else {
                    // calls with maxsteps j / j-1 did not execute j / j-1 steps: contradiction
                    rep.check("C10.early_stop.consistent", sreg, false, || detail0(json!({"maxsteps": k, "steps_executed": j, "what": "calls with maxsteps j and j-1 executed fewer steps"})));
                }
            }
        }
    }
    rep.note_max("worst_ratio.iterate_vs_tolerance", worst);
    if low_power > 0 {
        rep.seen(&format!("{}:low-power", regime), low_power);
    }
    // determinism: repeated call on the reused object, and a fresh object
    let mut ks = vec![cs.kmax, cs.kmax / 2 + 1, rng.usize(1, cs.kmax)];
    ks.dedup();
    for k in ks {
        let a = guard(|| lib.call(pr, x0, k));
        let b = guard(|| lib.call(pr, x0, k));
        let fresh = LibOpt::new(o);
        let c = guard(|| fresh.call(pr, x0, k));
        if let (Ok(a), Ok(b), Ok(c)) = (a, b, c) {
            rep.check("C10.deterministic.repeat", regime, same_bits_slice(&a, &b), || detail0(json!({"maxsteps": k, "first": jf(&a), "second": jf(&b)})));
            rep.check("C10.deterministic.fresh_vs_reused", regime, same_bits_slice(&a, &c), || detail0(json!({"maxsteps": k, "route": cs.route, "reused": jf(&a), "fresh": jf(&c)})));
            if let Some(orig) = routed.original.as_ref() {
                if let Ok(d) = guard(|| orig.call(pr, x0, k)) {
                    rep.check("C10.deterministic.clone_vs_original", regime, same_bits_slice(&a, &d), || detail0(json!({"maxsteps": k, "route": cs.route, "clone": jf(&a), "original": jf(&d)})));
                }
            }
        }
    }
    rep.sample(|| json!({"regime": regime, "hyper": o.json(), "start": jf(x0), "kmax": cs.kmax, "stopped_early_at": stop_at, "final": jf(&exact[cs.kmax]), "worst_ratio": worst}));
}

// ---------------------------------------------------------------------------------------------
// chained calls on one optimizer object
//
// "For every ... start point": the start point of a call is whatever the caller passes, in particular a point an
// earlier call of the same object returned (`p = opt.optimize(f, &p, data, k)` in a checkpoint / progress /
// mini-batch loop). Nothing in the published recurrences carries over from one run to the next: every call starts
// with zero moments / zero velocity and step count 0. Each link of a chain is therefore judged as a run of its own:
// against the reference recurrence started fresh from the link's start point (same self-calibrated tolerance as
// every other trajectory) and bit for bit against a fresh object run from the same start (determinism).
//   same-object          link 2 starts from the Vec link 1 returned
//   bit-copy             link 2 starts from a bit-for-bit copy of it
//   other-object-result  link 2 starts from what ANOTHER object's identical first run returned
//   three-links          three links in a row on the same objective
//   other-objective      link 2 runs a different objective (random quadratic of the same dimension) from link 1's
//                        result, link 3 goes back to the first objective
const CHAIN_KINDS: [&str; 5] = ["same-object", "bit-copy", "other-object-result", "three-links", "other-objective"];

/// One call `lib.optimize(pr, start, k)` judged as a fresh run of `k` steps from `start`.
#[allow(clippy::too_many_arguments)]
fn judge_link(rep: &mut Report, regime: &str, pr: &Problem, o: &Opt, lib: &LibOpt, start: &[f64], k: usize, link: usize, rng: &mut Rng, chain: &Value) -> Option<Vec<f64>> {
    let n = start.len();
    let site = o.site();
    let detail0 = |extra: Value| json!({"objective": pr.label, "data": pr.data.iter().map(|d| jf(d)).collect::<Vec<_>>(), "start": jf(start), "hyper": o.json(), "link": link, "maxsteps": k, "chain": chain, "detail": extra});
    let c0 = count(site);
    let r = guard(|| lib.call(pr, start, k));
    let j = (count(site) - c0) as usize;
    rep.note_add("calls.optimize(adam,sgd)", 1.0);
    let got = match r {
        Ok(v) => {
            rep.check("C10.optimize.no_panic", regime, true, || json!(null));
            v
        }
        Err(msg) => {
            rep.check("C10.optimize.no_panic", regime, false, || detail0(json!({"panic": msg})));
            return None;
        }
    };
    if k >= 1 && j == 0 {
        rep.inconclusive(format!("{}: optimize ran with maxsteps {} but the step hook never ticked", regime, k));
        return None;
    }
    if !rep.check("C10.optimize.shape", regime, got.len() == n && j <= k, || detail0(json!({"steps_executed": j, "returned_len": got.len()}))) {
        return None;
    }
    let exact = reference(pr, o, start, k, None);
    let perturbed = reference(pr, o, start, k, Some(rng));
    let mut run = 0.0f64;
    let mut dead = false;
    for kk in 0..=j {
        let mut d = 0.0f64;
        for i in 0..n {
            let e = (exact[kk][i] - perturbed[kk][i]).abs();
            d = if e.is_nan() { f64::INFINITY } else { d.max(e) };
        }
        run = run.max(d);
        let xn = inf_norm(&exact[kk]);
        if !xn.is_finite() || xn > 1e150 {
            dead = true;
        }
    }
    let xn = inf_norm(&exact[j]);
    let tol = 1e3 * run + 1e-13 * (1.0 + xn);
    if !dead && tol <= 1e-6 * (1.0 + xn) {
        let mut w = 0.0f64;
        for i in 0..n {
            let e = (got[i] - exact[j][i]).abs();
            w = w.max(if e.is_nan() { f64::INFINITY } else { e / tol });
        }
        rep.note_max("worst_ratio.chain_link_vs_tolerance", w);
        rep.note_add("iterates.compared", 1.0);
        rep.seen(&format!("chain:compared:{}:link{}", o.name(), link.min(2)), 1);
        rep.check("C10.iterate.matches_reference", regime, w <= 1.0, || detail0(json!({"steps_executed": j, "observed": jf(&got), "expected(fresh run from this start)": jf(&exact[j]), "tolerance": tol})));
    } else {
        rep.seen(&format!("{}:low-power", regime), 1);
    }
    // the same call on an object that has never run anything
    let fresh = LibOpt::new(o);
    if let Ok(c) = guard(|| fresh.call(pr, start, k)) {
        rep.check("C10.deterministic.fresh_vs_reused", regime, same_bits_slice(&got, &c), || detail0(json!({"steps_executed": j, "reused": jf(&got), "fresh": jf(&c)})));
    }
    Some(got)
}

fn chain_case(rep: &mut Report, pr: &Problem, o: &Opt, x0: &[f64], kind: &'static str, ks: [usize; 3], rng: &mut Rng) {
    let regime = format!("chain:{}:{}", o.name(), kind);
    let regime = regime.as_str();
    rep.case(regime);
    rep.distinct(Hasher::new().s(regime).s(&o.json().to_string()).fs(x0).u(pr.dim as u64).u(ks[0] as u64).u(ks[1] as u64).fs(&pr.data[0][..pr.data[0].len().min(8)]).finish(), true);
    let chain = json!({"kind": kind, "first_start": jf(x0), "budgets": [ks[0], ks[1], ks[2]], "first_objective": pr.label});
    let lib = LibOpt::new(o);
    let Some(p1) = judge_link(rep, regime, pr, o, &lib, x0, ks[0], 1, rng, &chain) else { return };
    if !same_bits_slice(&p1, x0) {
        rep.seen(&format!("chain:first-link-moved:{}", o.name()), 1);
    }
    let start2: Vec<f64> = match kind {
        "bit-copy" => p1.iter().map(|v| f64::from_bits(v.to_bits())).collect(),
        "other-object-result" => {
            let other = LibOpt::new(o);
            match guard(|| other.call(pr, x0, ks[0])) {
                Ok(q) => {
                    rep.check("C10.deterministic.fresh_vs_reused", regime, same_bits_slice(&p1, &q), || json!({"chain": chain, "hyper": o.json(), "link": 1, "this_object": jf(&p1), "other_object": jf(&q)}));
                    q
                }
                Err(_) => return,
            }
        }
        _ => p1.clone(),
    };
    // a different objective of the same dimension for the second link
    let mut other_pr: Option<Problem> = None;
    if kind == "other-objective" {
        for _ in 0..400 {
            let convex = rng.bool();
            let (q, _) = obj::quadratic(rng, convex);
            if q.dim == pr.dim {
                other_pr = Some(q);
                break;
            }
        }
        if other_pr.is_none() {
            rep.seen("chain:other-objective:none-of-this-dimension", 1);
        }
    }
    let pr2 = other_pr.as_ref().unwrap_or(pr);
    let Some(p2) = judge_link(rep, regime, pr2, o, &lib, &start2, ks[1], 2, rng, &chain) else { return };
    if kind == "same-object" {
        // the second link once more, from the same point: same call, same answer
        if let Ok(again) = guard(|| lib.call(pr2, &start2, ks[1])) {
            rep.check("C10.deterministic.repeat", regime, same_bits_slice(&p2, &again), || json!({"chain": chain, "hyper": o.json(), "link": 2, "start": jf(&start2), "first": jf(&p2), "second": jf(&again)}));
        }
    }
    if kind == "three-links" || kind == "other-objective" {
        let _ = judge_link(rep, regime, pr, o, &lib, &p2, ks[2], 3, rng, &chain);
    }
}

fn random_opt(rng: &mut Rng, which: usize, rosen: bool) -> Opt {
    let lr = if rosen && which != 0 && rng.chance(0.8) { rng.log_range(1e-4, 2e-3) } else { rng.log_range(1e-4, 0.5) };
    match which {
        0 => {
            let b1 = if rng.chance(0.4) { 0.9 } else { rng.range(0.01, 0.99) };
            let b2 = if rng.chance(0.4) { 0.999 } else { rng.range(0.01, 0.9999) };
            Opt::Adam { lr, b1, b2, eps: 1e-8 }
        }
        1 => Opt::Sgd { lr, mom: 0.0, nesterov: false },
        2 => Opt::Sgd { lr, mom: if rng.chance(0.3) { 0.9 } else { rng.range(0.0, 0.99) }, nesterov: false },
        _ => Opt::Sgd { lr, mom: if rng.chance(0.3) { 0.9 } else { rng.range(0.0, 0.99) }, nesterov: true },
    }
}

fn budgets(kmax: usize, dense: usize, extra: usize, rng: &mut Rng) -> Vec<usize> {
    let mut b: Vec<usize> = (0..=kmax.min(dense)).collect();
    if kmax > dense {
        let mut more: Vec<usize> = (0..extra).map(|_| rng.usize(dense + 1, kmax)).collect();
        more.push(kmax);
        more.sort();
        more.dedup();
        // keep j and j-1 reconstructable around every sparse budget
        for m in more {
            if m - 1 > *b.last().unwrap() {
                b.push(m - 1);
            }
            if m > *b.last().unwrap() {
                b.push(m);
            }
        }
    }
    b
}

// ---------------------------------------------------------------------------------------------
// Levenberg–Marquardt

mod lm {
    use super::*;

    #[derive(Clone, Copy, PartialEq, Debug)]
    pub enum Model {
        Poly,
        Trig,
        Exp,
        Logistic,
        /// Σ p_i·(c_i·x^i): polynomial basis, every basis function multiplied by its own constant `Fit::scale[i]`
        ScaledPoly,
        /// Σ p_i·(c_i·trig_i(x))
        ScaledTrig,
    }

    /// pins a closure to the higher-ranked signature `Optimizer::optimize` asks for
    fn hr<F>(f: F) -> F
    where
        F: for<'a> Fn(&[Var<'a>], &[&[f64]]) -> Var<'a>,
    {
        f
    }

    pub fn m_poly<'a>(p: &[Var<'a>], d: &[&[f64]]) -> Var<'a> {
        let x = d[0][0];
        p.iter().enumerate().map(|(i, &v)| v * x.powi(i as i32)).sum()
    }
    pub fn trig_basis(x: f64, i: usize) -> f64 {
        match i {
            0 => 1.0,
            1 => x.sin(),
            2 => x.cos(),
            3 => (2.0 * x).sin(),
            _ => (2.0 * x).cos(),
        }
    }
    pub fn m_trig<'a>(p: &[Var<'a>], d: &[&[f64]]) -> Var<'a> {
        let x = d[0][0];
        p.iter().enumerate().map(|(i, &v)| v * trig_basis(x, i)).sum()
    }
    pub fn m_exp<'a>(p: &[Var<'a>], d: &[&[f64]]) -> Var<'a> {
        let x = d[0][0];
        let m = p[0] * (p[1] * x).exp();
        if p.len() > 2 {
            m + p[2]
        } else {
            m
        }
    }
    pub fn m_logistic<'a>(p: &[Var<'a>], d: &[&[f64]]) -> Var<'a> {
        let x = d[0][0];
        p[0] / ((p[1] * (x - p[2]) * -1.0).exp() + 1.0)
    }

    pub struct Fit {
        pub model: Model,
        pub xs: Vec<f64>,
        pub ys: Vec<f64>,
        pub start: Vec<f64>,
        /// per-parameter factor of the basis functions (`ScaledPoly` / `ScaledTrig` only)
        pub scale: Vec<f64>,
        /// how the LM object is made (`new` unless the fit belongs to the route family)
        pub route: &'static str,
    }

    /// routes to an LM with tolerances (eps1, eps2, tau): see "every route to an optimizer" above
    pub const ROUTES_LM: [&str; 6] = ["default+fields", "clone", "clone-then-fields", "fields-then-clone", "clone-of-used", "clone-interleaved"];

    impl Fit {
        pub fn label(&self) -> &'static str {
            match self.route {
                "new" => {}
                "default+fields" => return "lm-route:default+fields",
                "clone" => return "lm-route:clone",
                "clone-then-fields" => return "lm-route:clone-then-fields",
                "fields-then-clone" => return "lm-route:fields-then-clone",
                "clone-of-used" => return "lm-route:clone-of-used",
                _ => return "lm-route:clone-interleaved",
            }
            match self.model {
                Model::Poly => "lm:linear-poly",
                Model::Trig => "lm:linear-trig",
                Model::Exp => "lm:exp",
                Model::Logistic => "lm:logistic",
                Model::ScaledPoly | Model::ScaledTrig => "lm-scaled",
            }
        }
        /// the LM object with tolerances (e1, e2, tau) made along this fit's route, and the original it was cloned
        /// from (with the same tolerances) where there is one
        pub fn make(&self, e1: f64, e2: f64, tau: f64) -> (LM, Option<LM>) {
            match self.route {
                "default+fields" => {
                    let mut o = LM::default();
                    o.eps1 = e1;
                    o.eps2 = e2;
                    o.tau = tau;
                    (o, None)
                }
                "clone" | "clone-interleaved" => {
                    let a = LM::new(e1, e2, tau);
                    (a.clone(), Some(a))
                }
                "clone-then-fields" => {
                    let mut a = LM::new(e1 * 1e3, e2 * 1e-3, tau * 10.0);
                    let mut c = a.clone();
                    for o in [&mut c, &mut a] {
                        o.eps1 = e1;
                        o.eps2 = e2;
                        o.tau = tau;
                    }
                    (c, Some(a))
                }
                "fields-then-clone" => {
                    let mut a = LM::default();
                    a.eps1 = e1;
                    a.eps2 = e2;
                    a.tau = tau;
                    (a.clone(), Some(a))
                }
                "clone-of-used" => {
                    let a = LM::new(e1, e2, tau);
                    let _ = self.call(&a, 3);
                    (a.clone(), Some(a))
                }
                _ => (LM::new(e1, e2, tau), None),
            }
        }
        pub fn linear(&self) -> bool {
            matches!(self.model, Model::Poly | Model::Trig)
        }
        pub fn call(&self, o: &LM, k: usize) -> (Vec<f64>, Vec<f64>, usize, usize) {
            let d: [&[f64]; 2] = [&self.xs, &self.ys];
            let (p, c) = match self.model {
                Model::Poly => o.optimize(m_poly, &self.start, &d, k),
                Model::Trig => o.optimize(m_trig, &self.start, &d, k),
                Model::Exp => o.optimize(m_exp, &self.start, &d, k),
                Model::Logistic => o.optimize(m_logistic, &self.start, &d, k),
                Model::ScaledPoly => {
                    let c = &self.scale;
                    o.optimize(hr(|p, d| { let x = d[0][0]; p.iter().enumerate().map(|(i, &v)| v * (c[i] * x.powi(i as i32))).sum() }), &self.start, &d, k)
                }
                Model::ScaledTrig => {
                    let c = &self.scale;
                    o.optimize(hr(|p, d| { let x = d[0][0]; p.iter().enumerate().map(|(i, &v)| v * (c[i] * trig_basis(x, i))).sum() }), &self.start, &d, k)
                }
            };
            (p.v, c.data.v.clone(), c.nrows, c.ncols)
        }
        pub fn value(&self, p: &[f64], x: f64) -> f64 {
            match self.model {
                Model::Poly => p.iter().enumerate().map(|(i, v)| v * x.powi(i as i32)).sum(),
                Model::Trig => p.iter().enumerate().map(|(i, v)| v * trig_basis(x, i)).sum(),
                Model::Exp => p[0] * (p[1] * x).exp() + if p.len() > 2 { p[2] } else { 0.0 },
                Model::Logistic => p[0] / (1.0 + (-(p[1] * (x - p[2]))).exp()),
                Model::ScaledPoly => p.iter().enumerate().map(|(i, v)| v * (self.scale[i] * x.powi(i as i32))).sum(),
                Model::ScaledTrig => p.iter().enumerate().map(|(i, v)| v * (self.scale[i] * trig_basis(x, i))).sum(),
            }
        }
        pub fn jac_row(&self, p: &[f64], x: f64) -> Vec<f64> {
            match self.model {
                Model::Poly => (0..p.len()).map(|i| x.powi(i as i32)).collect(),
                Model::Trig => (0..p.len()).map(|i| trig_basis(x, i)).collect(),
                Model::ScaledPoly => (0..p.len()).map(|i| self.scale[i] * x.powi(i as i32)).collect(),
                Model::ScaledTrig => (0..p.len()).map(|i| self.scale[i] * trig_basis(x, i)).collect(),
                Model::Exp => {
                    let e = (p[1] * x).exp();
                    let mut r = vec![e, p[0] * x * e];
                    if p.len() > 2 {
                        r.push(1.0);
                    }
                    r
                }
                Model::Logistic => {
                    let z = p[1] * (x - p[2]);
                    let s = 1.0 / (1.0 + (-z).exp());
                    // s(1−s) = u/(1+u)², u = exp(−|z|): no cancellation on the plateaus (1 − s loses every digit at s ≈ 1)
                    let u = (-z.abs()).exp();
                    let w = u / ((1.0 + u) * (1.0 + u));
                    vec![s, p[0] * w * (x - p[2]), -p[0] * w * p[1]]
                }
            }
        }
        pub fn rss(&self, p: &[f64]) -> f64 {
            let mut s = Dd::ZERO;
            for (x, y) in self.xs.iter().zip(&self.ys) {
                let r = y - self.value(p, *x);
                s = s + Dd::prod(r, r);
            }
            s.f()
        }
        pub fn jacobian(&self, p: &[f64]) -> Vec<f64> {
            self.xs.iter().flat_map(|&x| self.jac_row(p, x)).collect()
        }
    }

    pub fn random_fit(rng: &mut Rng, model: Model) -> Fit {
        let np = match model {
            Model::Poly | Model::Trig | Model::ScaledPoly | Model::ScaledTrig => rng.usize(1, 5),
            Model::Exp => rng.usize(2, 3),
            Model::Logistic => 3,
        };
        let n = (rng.log_range(5.0, 200.0).round() as usize).max(np + 2);
        let (lo, hi) = match model {
            Model::Poly | Model::ScaledPoly => *rng.choose(&[(-1.0, 1.0), (-1.0, 1.0), (0.0, 1.0), (0.0, 3.0), (-2.0, 5.0)]),
            Model::Trig | Model::ScaledTrig => *rng.choose(&[(0.0, 6.3), (-3.0, 3.0), (0.0, 2.0)]),
            Model::Exp => (0.0, rng.range(1.0, 3.0)),
            Model::Logistic => (-4.0, 4.0),
        };
        let mut xs: Vec<f64> = (0..n).map(|_| rng.range(lo, hi)).collect();
        xs.sort_by(|a, b| a.partial_cmp(b).unwrap());
        let truth: Vec<f64> = match model {
            Model::Poly | Model::Trig | Model::ScaledPoly | Model::ScaledTrig => rng.vec(np, -3.0, 3.0),
            Model::Exp => {
                let mut t = vec![rng.range(0.5, 3.0) * if rng.bool() { 1.0 } else { -1.0 }, rng.range(-1.5, 1.0)];
                if np > 2 {
                    t.push(rng.range(-2.0, 2.0));
                }
                t
            }
            Model::Logistic => vec![rng.range(1.0, 5.0), rng.range(0.5, 3.0), rng.range(-1.5, 1.5)],
        };
        let noise = rng.log_range(1e-3, 0.3);
        let mut f = Fit { model, xs, ys: vec![], start: vec![], scale: vec![1.0; np], route: "new" };
        f.ys = f.xs.iter().map(|&x| f.value(&truth, x) + noise * rng.normal()).collect();
        // poor starts
        f.start = match model {
            Model::Poly | Model::Trig | Model::ScaledPoly | Model::ScaledTrig => rng.vec(np, -10.0, 10.0),
            Model::Exp => {
                let mut s = vec![truth[0] * rng.log_range(0.2, 5.0), truth[1] + rng.range(-1.0, 1.0)];
                if np > 2 {
                    s.push(truth[2] + rng.range(-3.0, 3.0));
                }
                s
            }
            Model::Logistic => vec![truth[0] * rng.log_range(0.3, 3.0), truth[1] * rng.log_range(0.3, 3.0), truth[2] + rng.range(-2.0, 2.0)],
        };
        f
    }

    fn detail(f: &Fit, o: (f64, f64, f64), extra: Value) -> Value {
        json!({"model": format!("{:?}", f.model), "basis_scale": jf(&f.scale), "x": jf(&f.xs), "y": jf(&f.ys), "start": jf(&f.start), "LM": {"eps1": o.0, "eps2": o.1, "tau": o.2}, "detail": extra})
    }

    pub fn monitor(cfg: &Cfg, rep: &mut Report, f: &Fit, rng: &mut Rng, all_budgets: bool) {
        let regime = f.label();
        rep.case(regime);
        let np = f.start.len();
        let n = f.xs.len();
        rep.distinct(Hasher::new().s(regime).u(n as u64).fs(&f.start).fs(&f.xs[..n.min(8)]).fs(&f.ys[..n.min(8)]).finish(), true);
        let rss0 = f.rss(&f.start);
        if !rss0.is_finite() {
            rep.seen("lm:skipped(start RSS not finite)", 1);
            return;
        }
        let tau = *rng.choose(&[1e-2, 1e-2, 1e-3, 1e-6, 1.0]);
        // tight tolerances make every call run to its budget (cost ∝ n² per step): small problems only
        let (e1, e2) = if rng.chance(0.7) || n > 40 { (1e-6, 1e-6) } else { (1e-14, 1e-14) };
        let (o, original) = match guard(|| f.make(e1, e2, tau)) {
            Ok(v) => v,
            Err(msg) => {
                rep.check("C10.lm.no_panic", regime, false, || detail(f, (e1, e2, tau), json!({"route": f.route, "panic": msg, "note": "while constructing the optimizer"})));
                return;
            }
        };
        let oo = (e1, e2, tau);
        // RSS never above the start, for every step budget
        let kmax = 200;
        let ks: Vec<usize> = if all_budgets {
            (0..=kmax).collect()
        } else {
            // one LM step costs ~10µs·(n/10)^1.7 (a single tape holds all n points): fewer budgets for long series
            let (pre, extra) = if n > 100 { (8, 4) } else { (12, 10) };
            let mut v: Vec<usize> = (0..=pre).collect();
            v.extend((0..extra).map(|_| rng.usize(pre + 1, kmax)));
            v.push(kmax);
            v.sort();
            v.dedup();
            v
        };
        let mut last: Option<(Vec<f64>, Vec<f64>)> = None;
        for &k in &ks {
            if let (true, Some(orig)) = (f.route == "clone-interleaved", original.as_ref()) {
                // the original keeps working while its clone is monitored
                let _ = guard(|| f.call(orig, 1 + k % 5));
            }
            let s0 = count(Site::LmStep);
            let r = guard(|| f.call(&o, k));
            let steps = count(Site::LmStep) - s0;
            rep.note_add("calls.optimize(lm)", 1.0);
            match r {
                Err(msg) => {
                    rep.check("C10.lm.no_panic", regime, false, || detail(f, oo, json!({"maxsteps": k, "panic": msg})));
                    return;
                }
                Ok((p, cov, r_, c_)) => {
                    rep.check("C10.lm.no_panic", regime, true, || json!(null));
                    let shape_ok = p.len() == np && r_ == np && c_ == np && cov.len() == np * np && steps as usize <= k;
                    if !rep.check("C10.lm.shape", regime, shape_ok, || detail(f, oo, json!({"maxsteps": k, "params": jf(&p), "cov_shape": [r_, c_], "steps": steps}))) {
                        return;
                    }
                    let rss = f.rss(&p);
                    let ok = rss <= rss0 * (1.0 + 1e-12);
                    if rss0 > 0.0 && rss.is_finite() {
                        rep.note_max("worst_ratio.lm_rss_returned_over_start", rss / rss0);
                    }
                    rep.check("C10.lm.rss_not_increased", regime, ok, || detail(f, oo, json!({"maxsteps": k, "returned": jf(&p), "rss_start": jnum(rss0), "rss_returned": jnum(rss)})));
                    if k == 0 {
                        rep.check("C10.lm.budget0_returns_start", regime, same_bits_slice(&p, &f.start), || detail(f, oo, json!({"returned": jf(&p)})));
                    }
                    if k == 0 || k == kmax || k == ks[ks.len() / 2] {
                        check_cov(rep, regime, f, oo, k, &p, &cov);
                    }
                    if k == kmax {
                        last = Some((p, cov));
                    }
                }
            }
        }
        // determinism on the reused object
        if let Some((p, cov)) = &last {
            if let Ok((p2, cov2, _, _)) = guard(|| f.call(&o, kmax)) {
                rep.check("C10.deterministic.lm", regime, same_bits_slice(p, &p2) && same_bits_slice(cov, &cov2), || detail(f, oo, json!({"first": jf(p), "second": jf(&p2)})));
            }
        }
        // an object made along a route behaves bit for bit like one made by `new` with the same tolerances, and a
        // clone like the original it was taken from
        if f.route != "new" {
            if let Some((p, cov)) = &last {
                let fresh = LM::new(e1, e2, tau);
                if let Ok((p2, cov2, _, _)) = guard(|| f.call(&fresh, kmax)) {
                    rep.check("C10.deterministic.lm_route_vs_new", regime, same_bits_slice(p, &p2) && same_bits_slice(cov, &cov2), || detail(f, oo, json!({"route": f.route, "maxsteps": kmax, "route_object": jf(p), "LM::new": jf(&p2)})));
                }
                if let Some(orig) = original.as_ref() {
                    if let Ok((p3, cov3, _, _)) = guard(|| f.call(orig, kmax)) {
                        rep.check("C10.deterministic.clone_vs_original", regime, same_bits_slice(p, &p3) && same_bits_slice(cov, &cov3), || detail(f, oo, json!({"route": f.route, "maxsteps": kmax, "clone": jf(p), "original": jf(&p3)})));
                    }
                }
            }
        }
        if f.linear() {
            reach_ls(cfg, rep, f, rng);
        }
    }

    fn check_cov(rep: &mut Report, regime: &str, f: &Fit, oo: (f64, f64, f64), k: usize, p: &[f64], cov: &[f64]) {
        let np = p.len();
        let n = f.xs.len();
        let j = f.jacobian(p);
        if j.iter().any(|v| !v.is_finite()) {
            return;
        }
        let jt = linref::transpose(&j, n, np);
        let jtj = linref::matmul(&jt, &j, np, n, np);
        let Some(inv) = linref::inverse(&jtj, np) else { return };
        let kappa = linref::inf_norm(&jtj, np, np) * linref::inf_norm(&inv, np, np);
        let tol = 1000.0 * (n + np) as f64 * EPS * kappa;
        if !(tol <= 1e-3) {
            rep.seen("lm:cov:low-power(kappa)", 1);
            return;
        }
        let s2 = f.rss(p) / (n - np) as f64;
        let scale = s2 * linref::max_abs(&inv);
        let mut w = 0.0f64;
        for i in 0..np * np {
            let e = (cov[i] - s2 * inv[i]).abs();
            w = if e.is_nan() { f64::INFINITY } else { w.max(e) };
        }
        let ratio = if scale > 0.0 { w / (tol * scale) } else if w == 0.0 { 0.0 } else { f64::INFINITY };
        rep.note_max("worst_ratio.lm_covariance_vs_bound", ratio);
        rep.check("C10.lm.covariance", regime, ratio <= 1.0, || {
            detail(f, oo, json!({"maxsteps": k, "returned": jf(p), "covariance": jf(cov), "expected": jf(&inv.iter().map(|v| s2 * v).collect::<Vec<_>>()), "relative_tolerance": tol, "kappa_JtJ": jnum(kappa)}))
        });
    }


    // -----------------------------------------------------------------------------------------
    // linear models from far starts
    //
    // "reaches the least-squares solution on models linear in the parameters" from "poor starts": the
    // start is `ratio` = 1e2..1e8 solution norms away from the least-squares solution (a generic huge
    // initial guess, a guess in other units), in a direction whose components themselves differ by up to
    // 1e6 in size. Three assertions under `lm-linear:far-start`:
    //  * descent for a Fibonacci ladder of budgets 0..200;
    //  * with tolerances (eps, eps, tau), eps in {1e-6, 1e-8, 1e-10}: a call that stopped by itself before
    //    its budget is AT the solution as far as its own stop rules say. On a linear model J is constant,
    //    A = JᵀJ, D = diag A, and the step is δ = (A + μD)⁻¹Jᵀr while the distance to the solution is
    //    e = A⁻¹Jᵀr = (I + μA⁻¹D)δ. The small-step rule ‖δ‖ ≤ eps2(‖p‖ + eps2) therefore gives
    //    ‖e‖ ≤ c(‖p_ls‖ + eps2)/(1 − c), c = (1 + μ‖A⁻¹D‖)eps2, the gradient rule ‖Jᵀr‖∞ ≤ eps1 gives
    //    ‖e‖ ≤ ‖A⁻¹‖·sqrt(p)·eps1. μ is bounded by μ0 = tau·max D: the gain ratio of a linear model is 2 at
    //    every step (actual reduction δᵀAδ + 2μδᵀDδ over ½ of the predicted reduction δᵀ(μDδ + Jᵀr) =
    //    δᵀAδ + 2μδᵀDδ of the damped model that was solved), whatever the column norms, so every step
    //    is accepted and divides μ by 3; the hooks confirm that nothing was rejected. Judged only when
    //    c ≤ 0.1, no rejection, and the call stopped before its budget; 16× headroom (worst seen: 0.8 of the bare bound).
    //    (Until the repair of the gain ratio in the library — predicted reduction with μI instead of μD — this
    //    held only for min D ≥ 1 and was judged only there; fits with a column of squared norm < 1 are now judged
    //    too, under the label `lm-linear:far-start:min-diag-JtJ<1`.)
    //  * with (1e-14, 1e-14, tau) and 200 steps the solution is reached to 1e-7(1+‖p_ls‖) + floor, as in `reach_ls`.

    pub struct Far {
        pub fit: Fit,
        pub pls: Vec<f64>,
        pub ratio: f64,
    }

    /// a random linear problem (as in the main LM workload) with the start moved far away; None if the
    /// normal equations are too ill-conditioned for the 1e-7 demand (same gate as `reach_ls`)
    pub fn far_fit(rng: &mut Rng) -> Option<Far> {
        let model = if rng.chance(0.6) { Model::Poly } else { Model::Trig };
        let mut f = random_fit(rng, model);
        let np = f.start.len();
        let n = f.xs.len();
        let j = f.jacobian(&f.start);
        let pls = linref::ridge_ls(&j, &f.ys, None, &vec![0.0; np], n, np)?;
        let ratio = rng.log_range(1e2, 1e8);
        // direction: components of either sign whose sizes differ by up to 1e6
        let spread = *rng.choose(&[0i32, 0, 2, 4, 6]);
        let mut u: Vec<f64> = (0..np).map(|_| (10.0f64).powi(-rng.int(0, spread as i64) as i32) * if rng.bool() { 1.0 } else { -1.0 }).collect();
        let k = rng.usize(0, np - 1);
        u[k] = u[k].signum(); // at least one component of full size
        let un = u.iter().map(|v| v * v).sum::<f64>().sqrt();
        let pn = pls.iter().map(|v| v * v).sum::<f64>().sqrt().max(1e-3);
        f.start = (0..np).map(|i| pls[i] + ratio * pn * u[i] / un).collect();
        Some(Far { fit: f, pls, ratio })
    }

    fn norm2(v: &[f64]) -> f64 {
        v.iter().map(|a| a * a).sum::<f64>().sqrt()
    }

    pub fn far_monitor(rep: &mut Report, far: &Far, rng: &mut Rng) {
        let f = &far.fit;
        let pls = &far.pls;
        let regime = "lm-linear:far-start";
        let np = f.start.len();
        let n = f.xs.len();
        let j = f.jacobian(&f.start);
        let jt = linref::transpose(&j, n, np);
        let a = linref::matmul(&jt, &j, np, n, np);
        let kappa = linref::cond_inf(&a, np);
        if !(kappa * EPS * 1e3 <= 1e-8) {
            rep.seen("lm-linear:far-start:skipped(kappa(JtJ) > 4e4)", 1);
            return;
        }
        let Some(ainv) = linref::inverse(&a, np) else { return };
        rep.case(regime);
        rep.seen(&format!("far-start:ratio=1e{}", far.ratio.log10().floor() as i32), 1);
        rep.distinct(Hasher::new().s(regime).u(n as u64).fs(&f.start).fs(&f.xs[..n.min(8)]).fs(&f.ys[..n.min(8)]).finish(), true);
        let rss0 = f.rss(&f.start);
        if !rss0.is_finite() {
            rep.seen("lm:skipped(start RSS not finite)", 1);
            return;
        }
        let pn = norm2(pls);
        let dist = |p: &[f64]| -> f64 {
            let e = (0..np).map(|i| (p[i] - pls[i]) * (p[i] - pls[i])).sum::<f64>().sqrt();
            if e.is_nan() {
                f64::INFINITY
            } else {
                e
            }
        };
        let lmin_a = linref::jacobi_eigenvalues(&a, np)[0].max(f64::MIN_POSITIVE);
        // what no LM can resolve: rounding of the normal equations and of the gain-ratio test (see `reach_ls`)
        let floor = 1e4 * kappa * EPS * (1.0 + pn) + 16.0 * (n as f64 * EPS * f.rss(pls) / lmin_a).sqrt();
        let dmax = (0..np).map(|i| a[i * np + i]).fold(0.0f64, f64::max);
        let dmin = (0..np).map(|i| a[i * np + i]).fold(f64::INFINITY, f64::min);
        // ‖A⁻¹D‖₂ and ‖A⁻¹‖₂ through their Frobenius norms
        let g = (0..np * np).map(|k| { let v = ainv[k] * a[(k % np) * np + (k % np)]; v * v }).sum::<f64>().sqrt();
        let ainv_f = norm2(&ainv);

        // ---- (1) + (2): user tolerances
        let eps = *rng.choose(&[1e-6, 1e-6, 1e-8, 1e-10]);
        let tau = *rng.choose(&[1e-2, 1e-3, 1e-6, 1e-9]);
        let oo = (eps, eps, tau);
        let o = LM::new(eps, eps, tau);
        let kmax = 200usize;
        let mut last: Option<(Vec<f64>, Vec<f64>, u64, u64)> = None;
        for &k in &[0usize, 1, 2, 3, 5, 8, 13, 21, 34, 55, 89, 144, kmax] {
            let (s0, r0) = (count(Site::LmStep), count(Site::LmReject));
            let r = guard(|| f.call(&o, k));
            let (steps, rej) = (count(Site::LmStep) - s0, count(Site::LmReject) - r0);
            rep.note_add("calls.optimize(lm)", 1.0);
            match r {
                Err(msg) => {
                    rep.check("C10.lm.no_panic", regime, false, || detail(f, oo, json!({"maxsteps": k, "panic": msg})));
                    return;
                }
                Ok((p, cov, r_, c_)) => {
                    rep.check("C10.lm.no_panic", regime, true, || json!(null));
                    let shape_ok = p.len() == np && r_ == np && c_ == np && cov.len() == np * np && steps as usize <= k;
                    if !rep.check("C10.lm.shape", regime, shape_ok, || detail(f, oo, json!({"maxsteps": k, "params": jf(&p), "cov_shape": [r_, c_], "steps": steps}))) {
                        return;
                    }
                    let rss = f.rss(&p);
                    rep.check("C10.lm.rss_not_increased", regime, rss <= rss0 * (1.0 + 1e-12), || detail(f, oo, json!({"maxsteps": k, "returned": jf(&p), "rss_start": jnum(rss0), "rss_returned": jnum(rss)})));
                    if k == kmax {
                        last = Some((p, cov, steps, rej));
                    }
                }
            }
        }
        if let Some((p, cov, steps, rej)) = &last {
            check_cov(rep, regime, f, oo, kmax, p, cov);
            let mu0 = tau * dmax;
            let c = (1.0 + mu0 * g) * eps;
            if (*steps as usize) >= kmax {
                rep.seen("lm-linear:far-start:stop-bound:low-power(budget exhausted)", 1);
            } else if *rej > 0 {
                rep.seen("lm-linear:far-start:stop-bound:low-power(rejected steps)", 1);
            } else if !(c <= 0.1) {
                rep.seen("lm-linear:far-start:stop-bound:low-power(damping bound)", 1);
            } else {
                // judged for every column scaling; the class with a column of squared norm < 1 keeps a label of its own
                let regime = if dmin >= 1.0 { regime } else { "lm-linear:far-start:min-diag-JtJ<1" };
                rep.seen("lm-linear:far-start:stop-bound:judged", 1);
                rep.seen(if dmin >= 1.0 { "lm-linear:far-start:stop-bound:judged:min-diag>=1" } else { "lm-linear:far-start:stop-bound:judged:min-diag<1" }, 1);
                let bound = 16.0 * (c * (pn + eps) / (1.0 - c) + ainv_f * (np as f64).sqrt() * eps) + floor;
                let e = dist(p);
                rep.note_max("worst_ratio.lm_far_start_distance_over_stop_bound", e / bound);
                rep.check("C10.lm.stopped_at_least_squares", regime, e <= bound, || {
                    detail(f, oo, json!({"maxsteps": kmax, "steps_executed": steps, "rejected_steps": rej, "start_distance_over_solution_norm": far.ratio, "returned": jf(p), "least_squares": jf(pls),
                        "distance": jnum(e), "bound": bound, "small_step_term_c": c, "mu0": mu0, "norm_Ainv_D": g, "rss_returned": jnum(f.rss(p)), "rss_least_squares": jnum(f.rss(pls))}))
                });
            }
        }

        // ---- (3) tight tolerances: the solution itself
        let tau = *rng.choose(&[1e-2, 1e-3, 1e-6]);
        let o = LM::new(1e-14, 1e-14, tau);
        let (a0, r0) = (count(Site::LmAccept), count(Site::LmReject));
        match guard(|| f.call(&o, kmax)) {
            Err(msg) => {
                rep.check("C10.lm.no_panic", regime, false, || detail(f, (1e-14, 1e-14, tau), json!({"maxsteps": kmax, "panic": msg})));
            }
            Ok((p, _, _, _)) => {
                let (acc, rej) = (count(Site::LmAccept) - a0, count(Site::LmReject) - r0);
                let tol = 1e-7 * (1.0 + pn) + 16.0 * (n as f64 * EPS * f.rss(pls) / lmin_a).sqrt();
                let e = dist(&p);
                // Found on the pinned tree (since repaired in the library): when a column of J has squared norm < 1 the
                // gain ratio (computed with the predicted reduction of an un-scaled damping μI while the step is damped by
                // μ·diag JᵀJ) could stay below ½ on perfectly predicted steps, the damping doubled on every ACCEPTED step
                // and the iteration stalled a fixed fraction of the start distance away (any distance, far or near).
                // That class keeps its own regime label.
                let regime = if dmin >= 1.0 { regime } else { "lm-linear:far-start:min-diag-JtJ<1" };
                rep.seen(if dmin >= 1.0 { "lm-linear:far-start:reach:min-diag>=1" } else { "lm-linear:far-start:min-diag-JtJ<1" }, 1);
                if e <= tol {
                    rep.note_max("worst_ratio.lm_far_start_distance_to_ls(tight,passing)", e / tol);
                }
                rep.check("C10.lm.reaches_least_squares", regime, e <= tol, || {
                    detail(f, (1e-14, 1e-14, tau), json!({"maxsteps": kmax, "start_distance_over_solution_norm": far.ratio, "returned": jf(&p), "least_squares": jf(pls), "distance": jnum(e), "tolerance": tol,
                        "accepted_steps": acc, "rejected_steps": rej, "kappa_JtJ": kappa, "min_diag_JtJ": dmin, "max_diag_JtJ": dmax}))
                });
            }
        }
    }

    // -----------------------------------------------------------------------------------------
    // problems at absolute scales far from 1
    //
    // Nothing in the property depends on the units of the data or of the basis functions: a fit of concentrations
    // in mol/m³, of a late-time tail, of counts in 1e9, is a "random linear / exponential / logistic curve-fitting
    // problem" like any other. LM's own arithmetic is scale-free by construction (the damping is μ·diag JᵀJ), so the
    // absolute size of JᵀJ only matters where something compares a quantity with a CONSTANT — in the optimizer
    // (eps1 is an absolute gradient threshold, μ0 = tau·max diag JᵀJ) or in what it calls (the linear solver behind
    // the step δ and the covariance). Two families:
    //
    //  (i) `lm-scaled:*` — models linear in the parameters, Σ p_i·c_i·φ_i(x) with the polynomial / trigonometric
    //      bases of the main workload, every basis function multiplied by a power of two or ten c_i in 1e-12..1e12
    //      (all by the same factor — uniform-tiny / uniform-huge — or each by its own — mixed-tiny / mixed-huge /
    //      mixed-wide), the responses by σ. In the units p_i·c2_i/σ2 (c2, σ2 the nearest powers of two: an exact
    //      change of units) the problem is an ordinary O(1) problem (J_n, y_n), whose least-squares solution q is
    //      computed in double-double. Judged
    //        * with tolerances adapted to the scale — tau' = tau·max diag(J_nᵀJ_n)/max diag(JᵀJ) (same initial
    //          damping as tau on the O(1) problem), eps1' = 1e-14·σ2·min c2 and eps2' = 1e-14·min(min s/max s, √min s), s_i = σ2/c2_i
    //          (no looser, for any parameter, than (1e-14, 1e-14) on the O(1) problem): descent for the budgets
    //          0,1,2,3,5,..,144,200; the result of the 200-step call is the least-squares solution to
    //          1e-7(1+‖q‖) + floor in the O(1) units — the very demand of `reach_ls`, same conditioning gate;
    //          covariance at the returned point for budgets 0, 8, 200;
    //        * with the default tolerances (1e-6, 1e-6, 1e-2), which at these scales stop at once or after a few
    //          steps: descent and the covariance at whatever point is returned.
    // (ii) `lm-plateau:*` — exponential fits of late-time data started with a rate several times too fast and
    //      logistic fits started with the midpoint far outside the data: the model is flat at the start, the
    //      Jacobian tiny (exp(b·x), s(1−s) below 1e-8). Descent for the Fibonacci budgets and covariance at the
    //      returned point, with the default tolerances (stop at once: covariance at the start) and with a gradient
    //      threshold relative to the gradient at the start (1e-10·‖Jᵀr(start)‖∞, eps2 = 1e-10).
    //
    // The covariance clause is judged scale-free: with D = diag of the column norms of the analytic Jacobian at the
    // returned point and C = D⁻¹JᵀJD⁻¹ (unit diagonal), D·cov·D/s² must equal C⁻¹ (double-double) to
    // 1000(n+p)ε·κ∞(C)·max|C⁻¹|, κ∞(C) ≤ 4.5e7/(n+p) — the bound of `check_cov` on the problem in its natural units.

    pub struct Scaled {
        pub fit: Fit,
        /// nearest powers of two of the column factors and of the response factor
        pub c2: Vec<f64>,
        pub sigma2: f64,
        pub kind: &'static str,
    }

    fn pow2_near(v: f64) -> f64 {
        (2.0f64).powi(v.log2().round() as i32)
    }

    /// 10^e or the power of two closest to it
    fn scale_factor(rng: &mut Rng, lo: i64, hi: i64) -> f64 {
        let e = rng.int(lo, hi) as i32;
        let v = (10.0f64).powi(e);
        if rng.bool() {
            v
        } else {
            pow2_near(v)
        }
    }

    pub fn scaled_fit(rng: &mut Rng, k: usize) -> Scaled {
        let model = if rng.chance(0.6) { Model::ScaledPoly } else { Model::ScaledTrig };
        let mut f = random_fit(rng, model);
        // one case in five keeps whatever number of parameters was drawn (1..5), the others have at least two
        while f.start.len() < 2 && k % 5 != 4 {
            f = random_fit(rng, model);
        }
        let np = f.start.len();
        let (kind, c): (&'static str, Vec<f64>) = match k % 5 {
            0 => ("lm-scaled:uniform-tiny", vec![scale_factor(rng, -12, -8); np]),
            1 => ("lm-scaled:uniform-huge", vec![scale_factor(rng, 4, 12); np]),
            2 => ("lm-scaled:mixed-tiny", (0..np).map(|_| scale_factor(rng, -12, -8)).collect()),
            3 => ("lm-scaled:mixed-huge", (0..np).map(|_| scale_factor(rng, 3, 12)).collect()),
            _ => ("lm-scaled:mixed-wide", (0..np).map(|_| scale_factor(rng, -12, 12)).collect()),
        };
        let gm = c.iter().map(|v| v.ln()).sum::<f64>() / np as f64;
        // responses: in the units of the basis functions (parameters of order 1), unscaled, or in units of their own
        let sigma = match rng.usize(0, 9) {
            0..=3 => pow2_near(gm.exp()),
            4..=6 => 1.0,
            _ => scale_factor(rng, -12, 12),
        };
        // random_fit built y and the start for unit factors
        for y in f.ys.iter_mut() {
            *y *= sigma;
        }
        for i in 0..np {
            f.start[i] = f.start[i] * sigma / c[i];
        }
        let c2 = c.iter().map(|&v| pow2_near(v)).collect();
        f.scale = c;
        Scaled { fit: f, c2, sigma2: pow2_near(sigma), kind }
    }

    /// squared column norms of an n×np row-major matrix (double-double accumulation)
    fn col_sq(j: &[f64], n: usize, np: usize) -> Vec<f64> {
        (0..np)
            .map(|c| {
                let mut s = Dd::ZERO;
                for r in 0..n {
                    s = s + Dd::prod(j[r * np + c], j[r * np + c]);
                }
                s.f()
            })
            .collect()
    }

    /// scale-free form of the covariance clause (see above)
    fn check_cov_si(rep: &mut Report, regime: &str, fam: &str, f: &Fit, oo: (f64, f64, f64), k: usize, p: &[f64], cov: &[f64]) {
        let np = p.len();
        let n = f.xs.len();
        let j = f.jacobian(p);
        if j.iter().any(|v| !v.is_finite()) {
            rep.seen(&format!("{}:cov:skipped(non-finite Jacobian)", fam), 1);
            return;
        }
        let d: Vec<f64> = col_sq(&j, n, np).iter().map(|v| v.sqrt()).collect();
        if d.iter().any(|&v| !(v > 0.0) || !v.is_finite()) {
            rep.seen(&format!("{}:cov:skipped(zero Jacobian column)", fam), 1);
            return;
        }
        let jn: Vec<f64> = j.iter().enumerate().map(|(i, v)| v / d[i % np]).collect();
        let jt = linref::transpose(&jn, n, np);
        let c = linref::matmul(&jt, &jn, np, n, np);
        let Some(cinv) = linref::inverse(&c, np) else {
            rep.seen(&format!("{}:cov:low-power(kappa)", fam), 1);
            return;
        };
        let kappa = linref::inf_norm(&c, np, np) * linref::inf_norm(&cinv, np, np);
        let tol = 1000.0 * (n + np) as f64 * EPS * kappa;
        if !(tol <= 1e-3) {
            rep.seen(&format!("{}:cov:low-power(kappa)", fam), 1);
            return;
        }
        let s2 = f.rss(p) / (n - np) as f64;
        if !(s2 > 0.0) || !s2.is_finite() {
            rep.seen(&format!("{}:cov:skipped(s2)", fam), 1);
            return;
        }
        rep.seen(&format!("{}:cov:judged", fam), 1);
        let scale = linref::max_abs(&cinv);
        let mut w = 0.0f64;
        for a in 0..np {
            for b in 0..np {
                let e = (cov[a * np + b] / s2 * d[a] * d[b] - cinv[a * np + b]).abs();
                w = if e.is_nan() { f64::INFINITY } else { w.max(e) };
            }
        }
        let ratio = w / (tol * scale);
        rep.note_max(&format!("worst_ratio.lm_covariance_vs_bound({})", fam), ratio);
        rep.check("C10.lm.covariance", regime, ratio <= 1.0, || {
            let expected: Vec<f64> = (0..np * np).map(|i| s2 * cinv[i] / (d[i / np] * d[i % np])).collect();
            detail(f, oo, json!({"maxsteps": k, "returned": jf(p), "covariance": jf(cov), "expected": jf(&expected), "relative_tolerance": tol, "kappa_unit_diagonal_JtJ": jnum(kappa),
                "jacobian_column_norms": jf(&d), "s2": jnum(s2)}))
        });
    }

    /// One LM object, a ladder of budgets: no panic, shape, descent for every budget, covariance for the budgets in
    /// `cov_at`. Returns the result of the last budget.
    fn ladder(rep: &mut Report, regime: &str, fam: &str, f: &Fit, oo: (f64, f64, f64), ks: &[usize], cov_at: &[usize], rss0: f64) -> Option<(Vec<f64>, u64, u64)> {
        let np = f.start.len();
        let o = LM::new(oo.0, oo.1, oo.2);
        let mut last = None;
        for &k in ks {
            let (s0, a0, r0) = (count(Site::LmStep), count(Site::LmAccept), count(Site::LmReject));
            let r = guard(|| f.call(&o, k));
            let (steps, acc, rej) = (count(Site::LmStep) - s0, count(Site::LmAccept) - a0, count(Site::LmReject) - r0);
            rep.note_add("calls.optimize(lm)", 1.0);
            match r {
                Err(msg) => {
                    rep.check("C10.lm.no_panic", regime, false, || detail(f, oo, json!({"maxsteps": k, "panic": msg})));
                    return None;
                }
                Ok((p, cov, r_, c_)) => {
                    rep.check("C10.lm.no_panic", regime, true, || json!(null));
                    let shape_ok = p.len() == np && r_ == np && c_ == np && cov.len() == np * np && steps as usize <= k;
                    if !rep.check("C10.lm.shape", regime, shape_ok, || detail(f, oo, json!({"maxsteps": k, "params": jf(&p), "cov_shape": [r_, c_], "steps": steps}))) {
                        return None;
                    }
                    if steps > 0 {
                        rep.seen(&format!("{}:iterated", fam), 1);
                    }
                    let rss = f.rss(&p);
                    if rss0 > 0.0 && rss.is_finite() {
                        rep.note_max(&format!("worst_ratio.lm_rss_returned_over_start({})", fam), rss / rss0);
                    }
                    rep.check("C10.lm.rss_not_increased", regime, rss <= rss0 * (1.0 + 1e-12), || {
                        detail(f, oo, json!({"maxsteps": k, "steps_executed": steps, "accepted_steps": acc, "rejected_steps": rej, "returned": jf(&p), "rss_start": jnum(rss0), "rss_returned": jnum(rss)}))
                    });
                    if k == 0 {
                        rep.check("C10.lm.budget0_returns_start", regime, same_bits_slice(&p, &f.start), || detail(f, oo, json!({"returned": jf(&p)})));
                    }
                    if cov_at.contains(&k) {
                        check_cov_si(rep, regime, fam, f, oo, k, &p, &cov);
                    }
                    last = Some((p, acc, rej));
                }
            }
        }
        last
    }

    const FIB: [usize; 13] = [0, 1, 2, 3, 5, 8, 13, 21, 34, 55, 89, 144, 200];

    /// labels for the size of JᵀJ at the start (what the quantifier's new regimes must reach)
    fn note_jtj_size(rep: &mut Report, fam: &str, f: &Fit) -> Vec<f64> {
        let np = f.start.len();
        let n = f.xs.len();
        let dsq = col_sq(&f.jacobian(&f.start), n, np);
        let dmax = dsq.iter().fold(0.0f64, |m, &v| m.max(v));
        let dmin = dsq.iter().fold(f64::INFINITY, |m, &v| m.min(v));
        // every entry of JᵀJ is bounded by its largest diagonal entry
        if dmax < EPS {
            rep.seen(&format!("{}:max-diag-JtJ<eps", fam), 1);
            if np >= 2 {
                rep.seen(&format!("{}:max-diag-JtJ<eps:np>=2", fam), 1);
            }
        }
        if dmin > 1.0 / EPS {
            rep.seen(&format!("{}:min-diag-JtJ>1/eps", fam), 1);
        }
        if dmax >= EPS && dmin <= 1.0 / EPS && dmax / dmin > 1e16 {
            rep.seen(&format!("{}:diag-JtJ-spread>1e16", fam), 1);
        }
        dsq
    }

    pub fn scaled_monitor(rep: &mut Report, sc: &Scaled, rng: &mut Rng) {
        let f = &sc.fit;
        let regime = sc.kind;
        let fam = "lm-scaled";
        let np = f.start.len();
        let n = f.xs.len();
        rep.case(regime);
        rep.distinct(Hasher::new().s(regime).u(n as u64).fs(&f.scale).fs(&f.start).fs(&f.xs[..n.min(8)]).fs(&f.ys[..n.min(8)]).finish(), true);
        let rss0 = f.rss(&f.start);
        if !rss0.is_finite() {
            rep.seen("lm:skipped(start RSS not finite)", 1);
            return;
        }
        let dsq = note_jtj_size(rep, fam, f);
        let dmax = dsq.iter().fold(0.0f64, |m, &v| m.max(v));
        // the problem in O(1) units: exact rescaling by powers of two
        let j = f.jacobian(&f.start);
        let jn: Vec<f64> = j.iter().enumerate().map(|(i, v)| v / sc.c2[i % np]).collect();
        let yn: Vec<f64> = f.ys.iter().map(|v| v / sc.sigma2).collect();
        let jt = linref::transpose(&jn, n, np);
        let a = linref::matmul(&jt, &jn, np, n, np);
        let amax = (0..np).map(|i| a[i * np + i]).fold(0.0f64, f64::max);
        let unit: Vec<f64> = sc.c2.iter().map(|c| sc.sigma2 / c).collect();
        let smin = unit.iter().fold(f64::INFINITY, |m, &v| m.min(v));
        let smax = unit.iter().fold(0.0f64, |m, &v| m.max(v));
        let cmin = sc.c2.iter().fold(f64::INFINITY, |m, &v| m.min(v));

        // ---- tolerances adapted to the scale
        let tau_b = *rng.choose(&[1e-2, 1e-3, 1e-6]);
        // small-step rule ‖δ‖ ≤ eps2(‖p‖ + eps2): |δ_i|/s_i ≤ eps2(√p·s_max‖p‖∞ + eps2)/s_min in the O(1) units, so
        // eps2' = 1e-14·min(s_min/s_max, √s_min) is no looser for any parameter than 1e-14(‖p‖ + 1e-14) there (the
        // absolute term eps2² of the rule is what a fit with parameters of order 1e-20 has to be told about)
        let oo = (1e-14 * sc.sigma2 * cmin, 1e-14 * (smin / smax).min(smin.sqrt()), tau_b * amax / dmax);
        let kmax = 200usize;
        let last = ladder(rep, regime, fam, f, oo, &FIB, &[0, 8, kmax], rss0);
        if let Some((p, acc, rej)) = last {
            let kappa = linref::cond_inf(&a, np);
            let pls = if kappa * EPS * 1e3 <= 1e-8 { linref::ridge_ls(&jn, &yn, None, &vec![0.0; np], n, np) } else { None };
            match pls {
                None => rep.seen("lm-scaled:reach:skipped(kappa(JtJ) > 4e4 in O(1) units)", 1),
                Some(q) => {
                    rep.seen("lm-scaled:reach:judged", 1);
                    let lmin = linref::jacobi_eigenvalues(&a, np)[0].max(f64::MIN_POSITIVE);
                    let mut rss_q = Dd::ZERO;
                    for r in 0..n {
                        let m: f64 = (0..np).map(|i| jn[r * np + i] * q[i]).sum();
                        rss_q = rss_q + Dd::prod(yn[r] - m, yn[r] - m);
                    }
                    let (mut e, mut nr) = (0.0, 0.0);
                    for i in 0..np {
                        let pi = p[i] / unit[i];
                        e += (pi - q[i]) * (pi - q[i]);
                        nr += q[i] * q[i];
                    }
                    // noise floor of the gain-ratio test as in `reach_ls`, 32× instead of 16×: the worst of 12 500 scaled fits
                    // (a cubic with κ(JᵀJ) = 3.3e4, just inside the gate) sat at 2.3× the bare floor, the others below 0.7×
                    let floor = 32.0 * (n as f64 * EPS * rss_q.f() / lmin).sqrt();
                    let tol = 1e-7 * (1.0 + nr.sqrt()) + floor;
                    let ratio = e.sqrt() / tol;
                    let ratio = if ratio.is_nan() { f64::INFINITY } else { ratio };
                    if ratio <= 1.0 {
                        rep.note_max("worst_ratio.lm_scaled_distance_to_ls(passing)", ratio);
                    }
                    rep.check("C10.lm.reaches_least_squares", regime, ratio <= 1.0, || {
                        let pls: Vec<f64> = (0..np).map(|i| q[i] * unit[i]).collect();
                        detail(f, oo, json!({"maxsteps": kmax, "returned": jf(&p), "least_squares": jf(&pls), "parameter_units": jf(&unit), "distance_in_units": e.sqrt(), "tolerance_in_units": tol,
                            "accepted_steps": acc, "rejected_steps": rej, "kappa_JtJ_in_units": kappa, "rss_returned": jnum(f.rss(&p)), "rss_least_squares": jnum(f.rss(&pls))}))
                    });
                }
            }
        }

        // ---- default tolerances: descent and covariance only
        let oo = (1e-6, 1e-6, 1e-2);
        ladder(rep, regime, fam, f, oo, &[0, 1, 2, 3, 8, 34, kmax], &[0, 3, kmax], rss0);
    }

    /// exponential / logistic fits started where the model is flat
    pub fn plateau_fit(rng: &mut Rng, k: usize) -> (Fit, &'static str) {
        let n = (rng.log_range(5.0, 200.0).round() as usize).max(5);
        if k % 2 == 0 {
            // late-time data of a slow decay, rate guess several times too fast
            let np = rng.usize(2, 3);
            let lo = rng.range(15.0, 40.0);
            let span = rng.range(5.0, 25.0);
            let mut xs: Vec<f64> = (0..n).map(|_| rng.range(lo, lo + span)).collect();
            xs.sort_by(|a, b| a.partial_cmp(b).unwrap());
            let mut truth = vec![rng.range(5.0, 100.0) * if rng.bool() { 1.0 } else { -1.0 }, -rng.range(0.02, 0.15)];
            if np > 2 {
                truth.push(rng.range(-2.0, 2.0));
            }
            let mut f = Fit { model: Model::Exp, xs, ys: vec![], start: vec![], scale: vec![], route: "new" };
            let amp = (truth[0] * (truth[1] * (lo + 0.5 * span)).exp()).abs();
            let noise = rng.log_range(1e-3, 0.1) * amp;
            f.ys = f.xs.iter().map(|&x| f.value(&truth, x) + noise * rng.normal()).collect();
            // exp(b·x) <= exp(-19) = 5.6e-9 at every point
            let b = -rng.range(19.0, 60.0) / f.xs[0];
            f.start = vec![truth[0] * rng.log_range(0.05, 5.0), b];
            if np > 2 {
                f.start.push(truth[2] + rng.range(-3.0, 3.0));
            }
            (f, "lm-plateau:exp")
        } else {
            let mut xs: Vec<f64> = (0..n).map(|_| rng.range(-4.0, 4.0)).collect();
            xs.sort_by(|a, b| a.partial_cmp(b).unwrap());
            let truth = vec![rng.range(1.0, 5.0), rng.range(0.5, 3.0), rng.range(-1.5, 1.5)];
            let noise = rng.log_range(1e-3, 0.3);
            let mut f = Fit { model: Model::Logistic, xs, ys: vec![], start: vec![], scale: vec![], route: "new" };
            f.ys = f.xs.iter().map(|&x| f.value(&truth, x) + noise * rng.normal()).collect();
            let rate = truth[1] * rng.log_range(1.0, 3.0);
            let far = rng.range(19.0, 60.0) / rate;
            // midpoint guessed beyond the last point (lower plateau: all three columns tiny) or before the first one
            // (upper plateau: the model equals its asymptote, only the amplitude column is of order 1)
            let (mid, label) = if rng.chance(0.7) { (f.xs[n - 1] + far, "lm-plateau:logistic-lower") } else { (f.xs[0] - far, "lm-plateau:logistic-upper") };
            f.start = vec![truth[0] * rng.log_range(0.3, 3.0), rate, mid];
            (f, label)
        }
    }

    pub fn plateau_monitor(rep: &mut Report, f: &Fit, regime: &'static str, rng: &mut Rng) {
        let fam = "lm-plateau";
        let np = f.start.len();
        let n = f.xs.len();
        rep.case(regime);
        rep.distinct(Hasher::new().s(regime).u(n as u64).fs(&f.start).fs(&f.xs[..n.min(8)]).fs(&f.ys[..n.min(8)]).finish(), true);
        let rss0 = f.rss(&f.start);
        if !rss0.is_finite() {
            rep.seen("lm:skipped(start RSS not finite)", 1);
            return;
        }
        let dsq = note_jtj_size(rep, fam, f);
        let dmax = dsq.iter().fold(0.0f64, |m, &v| m.max(v));
        // default tolerances
        ladder(rep, regime, fam, f, (1e-6, 1e-6, 1e-2), &[0, 1, 2, 3, 8, 34, 200], &[0, 3, 200], rss0);
        // gradient threshold relative to the gradient at the start
        let j = f.jacobian(&f.start);
        let mut g = 0.0f64;
        for c in 0..np {
            let mut s = Dd::ZERO;
            for r in 0..n {
                s = s + Dd::prod(j[r * np + c], f.ys[r] - f.value(&f.start, f.xs[r]));
            }
            g = g.max(s.f().abs());
        }
        if !(g > 0.0) || !g.is_finite() || !(dmax > 0.0) {
            rep.seen("lm-plateau:skipped(no gradient at the start)", 1);
            return;
        }
        let tau = *rng.choose(&[1e-2, 1e-3, 1.0]);
        // the damping the user asked for: relative to the columns (tau) or as an absolute number (tau/max diag JᵀJ)
        let tau = if rng.bool() { tau } else { tau / dmax };
        let oo = (1e-10 * g, 1e-10, tau);
        ladder(rep, regime, fam, f, oo, &FIB, &[0, 8, 200], rss0);
    }

    /// Linear models: the least-squares solution must be reached with `LM::new(1e-14, 1e-14, τ)`.
    ///
    /// Budget: on a linear model every textbook damping rule (Marquardt ×/÷, Nielsen) shrinks μ
    /// geometrically after each successful step, so a few dozen steps suffice; 200 (quick) /
    /// 2000 (thorough) is generous. A rule whose damping never falls below a constant c (relative
    /// to diag JᵀJ) only contracts the error by c/(λ+c) per step, λ ≥ λ_min of the correlation
    /// form D^-½ JᵀJ D^-½; with c = 1/3 and λ_min ≥ 0.05 that still reaches 1e-7 within 200
    /// steps, so the two conditioning classes are separate regimes: the first must be silent for
    /// any convergent LM, the second separates "damping decreases" from "damping has a floor".
    fn reach_ls(cfg: &Cfg, rep: &mut Report, f: &Fit, rng: &mut Rng) {
        let np = f.start.len();
        let n = f.xs.len();
        let j = f.jacobian(&f.start);
        let pen = vec![0.0; np];
        let Some(pls) = linref::ridge_ls(&j, &f.ys, None, &pen, n, np) else { return };
        let jt = linref::transpose(&j, n, np);
        let jtj = linref::matmul(&jt, &j, np, n, np);
        let kappa = linref::cond_inf(&jtj, np);
        if !(kappa * EPS * 1e3 <= 1e-8) {
            rep.seen("lm-linear:skipped(kappa(JtJ) > 4e4: normal equations cannot deliver 1e-7)", 1);
            return;
        }
        let mut c = jtj.clone();
        for a in 0..np {
            for b in 0..np {
                c[a * np + b] = jtj[a * np + b] / (jtj[a * np + a].sqrt() * jtj[b * np + b].sqrt());
            }
        }
        let lmin = linref::jacobi_eigenvalues(&c, np)[0];
        let lmin_jtj = linref::jacobi_eigenvalues(&jtj, np)[0].max(f64::MIN_POSITIVE);
        let regime = if lmin >= 0.05 { "lm-linear:corr-lmin>=0.05" } else { "lm-linear:corr-lmin<0.05" };
        rep.seen(regime, 1);
        // the route family signs with its own regime (the well-conditioned class only: the other one is a known low-power class)
        let regime = if f.route == "new" {
            regime
        } else if lmin >= 0.05 {
            rep.seen("lm-route:reach-ls:judged", 1);
            f.label()
        } else {
            return;
        };
        let tau = *rng.choose(&[1e-2, 1e-3, 1e-6]);
        let budget = if cfg.thorough() && lmin < 0.05 { 2000 } else { 200 };
        let Ok((o, _)) = guard(|| f.make(1e-14, 1e-14, tau)) else { return };
        let a0 = count(Site::LmAccept);
        let r0 = count(Site::LmReject);
        match guard(|| f.call(&o, budget)) {
            Err(msg) => {
                rep.check("C10.lm.no_panic", regime, false, || detail(f, (1e-14, 1e-14, tau), json!({"maxsteps": budget, "panic": msg})));
            }
            Ok((p, _, _, _)) => {
                let (acc, rej) = (count(Site::LmAccept) - a0, count(Site::LmReject) - r0);
                let mut e = 0.0;
                let mut nr = 0.0;
                for i in 0..np {
                    e += (p[i] - pls[i]) * (p[i] - pls[i]);
                    nr += pls[i] * pls[i];
                }
                // floor: the gain-ratio test compares two sums of n squares; once the predicted
                // reduction λ_min‖e‖² drops below their rounding noise n·ε·RSS no LM can tell progress from noise
                let floor = 16.0 * (n as f64 * EPS * f.rss(&pls) / lmin_jtj).sqrt();
                let tol = 1e-7 * (1.0 + nr.sqrt()) + floor;
                let ratio = e.sqrt() / tol;
                let ratio = if ratio.is_nan() { f64::INFINITY } else { ratio };
                if lmin >= 0.05 {
                    rep.note_max("worst_ratio.lm_linear_distance_to_ls(corr-lmin>=0.05)", ratio);
                } else if ratio <= 1.0 {
                    rep.note_max("worst_ratio.lm_linear_distance_to_ls(corr-lmin<0.05,passing)", ratio);
                }
                rep.check("C10.lm.reaches_least_squares", regime, ratio <= 1.0, || {
                    detail(f, (1e-14, 1e-14, tau), json!({"maxsteps": budget, "returned": jf(&p), "least_squares": jf(&pls), "distance": e.sqrt(), "tolerance": tol,
                        "accepted_steps": acc, "rejected_steps": rej, "lambda_min_correlation_form": lmin, "kappa_JtJ": kappa, "rss_returned": jnum(f.rss(&p)), "rss_least_squares": jnum(f.rss(&pls))}))
                });
            }
        }
    }
}

// ---------------------------------------------------------------------------------------------

fn directed(rep: &mut Report, rng: &mut Rng) {
    // (1) SGD: f = ½·4·x², stepsize ½ ⇒ x ↦ x − 2x = −x exactly. The parameters never stop changing.
    for x0 in [vec![1.5], vec![-0.75, 0.0]] {
        let n = x0.len();
        let mut a = vec![0.0; n * n];
        for i in 0..n {
            a[i * n + i] = 4.0;
        }
        let pr = Problem { kind: obj::Kind::Quad, label: "quad-convex", data: vec![a, vec![0.0; n]], dim: n };
        let cs = CaseSpec { pr: &pr, opt: Opt::Sgd { lr: 0.5, mom: 0.0, nesterov: false }, x0, kmax: 12, budgets: (0..=12).collect(), regime: "directed:sign-flip:sgd".into(), stop_regime: "sign-flip".into(), route: "new" };
        monitor_case(rep, &cs, rng);
    }
    // (2) Adam: β1 = β2 = ½ make the first bias-corrected step exactly stepsize·sign(g) when g = 2^27
    //     swamps ε; start = stepsize/2 ⇒ x ↦ −x.
    {
        let pr = Problem { kind: obj::Kind::Quad, label: "quad-convex", data: vec![vec![1073741824.0], vec![0.0]], dim: 1 };
        let cs = CaseSpec { pr: &pr, opt: Opt::Adam { lr: 0.25, b1: 0.5, b2: 0.5, eps: 1e-8 }, x0: vec![0.125], kmax: 12, budgets: (0..=12).collect(), regime: "directed:sign-flip:adam".into(), stop_regime: "sign-flip".into(), route: "new" };
        monitor_case(rep, &cs, rng);
    }
    // (3) a coordinate that starts at exactly 0 on a problem of tiny scale: the first step is
    //     0 → 1e-21, an infinite relative change, and the iterates keep moving towards 1e-20.
    {
        let pr = Problem { kind: obj::Kind::Quad, label: "quad-convex", data: vec![vec![1.0], vec![1e-20]], dim: 1 };
        let cs = CaseSpec { pr: &pr, opt: Opt::Sgd { lr: 0.1, mom: 0.0, nesterov: false }, x0: vec![0.0], kmax: 12, budgets: (0..=12).collect(), regime: "directed:zero-start:sgd".into(), stop_regime: "zero-start:tiny-scale".into(), route: "new" };
        monitor_case(rep, &cs, rng);
    }
    // (3b) iterates that land *exactly* on a stationary point (gradient exactly 0) while the
    //      velocity / first moment is still non-zero: the recurrences keep moving.
    //      SGD: f = x² − 6x (+ an ordinary second coordinate), x0 = 1, stepsize ½, momentum ½: x1 = 3 exactly.
    for (nest, tag) in [(false, "directed:exact-landing:momentum"), (true, "directed:exact-landing:nesterov")] {
        for dim in [1usize, 2] {
            let (a, b, x0) = if dim == 1 { (vec![2.0], vec![6.0], vec![1.0]) } else { (vec![2.0, 0.0, 0.0, 0.5], vec![6.0, 0.25], vec![1.0, 2.0]) };
            let pr = Problem { kind: obj::Kind::Quad, label: "quad-convex", data: vec![a, b], dim };
            let cs = CaseSpec { pr: &pr, opt: Opt::Sgd { lr: 0.5, mom: 0.5, nesterov: nest }, x0, kmax: 40, budgets: (0..=40).collect(), regime: tag.into(), stop_regime: "exact-landing".into(), route: "new" };
            monitor_case(rep, &cs, rng);
        }
    }
    //      Adam: f = 1e9·(x − 1)², x0 = 1.5, stepsize ½, β1 = β2 = ½: the first step is exactly ½.
    for dim in [1usize, 2] {
        let (a, b, x0) = if dim == 1 { (vec![2e9], vec![2e9], vec![1.5]) } else { (vec![2e9, 0.0, 0.0, 1.0], vec![2e9, 0.3], vec![1.5, 2.0]) };
        let pr = Problem { kind: obj::Kind::Quad, label: "quad-convex", data: vec![a, b], dim };
        let cs = CaseSpec { pr: &pr, opt: Opt::Adam { lr: 0.5, b1: 0.5, b2: 0.5, eps: 1e-8 }, x0, kmax: 40, budgets: (0..=40).collect(), regime: "directed:exact-landing:adam".into(), stop_regime: "exact-landing".into(), route: "new" };
        monitor_case(rep, &cs, rng);
    }
    // (4) controls that must stay silent: same quadratic, stepsize ¼ (converges in one step to 0,
    //     then genuinely stops), and a start at the optimum.
    {
        let pr = Problem { kind: obj::Kind::Quad, label: "quad-convex", data: vec![vec![4.0], vec![0.0]], dim: 1 };
        let cs = CaseSpec { pr: &pr, opt: Opt::Sgd { lr: 0.25, mom: 0.0, nesterov: false }, x0: vec![1.5], kmax: 12, budgets: (0..=12).collect(), regime: "directed:control:sgd".into(), stop_regime: "control".into(), route: "new" };
        monitor_case(rep, &cs, rng);
        let pr = Problem { kind: obj::Kind::Quad, label: "quad-convex", data: vec![vec![2.0], vec![3.0]], dim: 1 };
        let cs = CaseSpec { pr: &pr, opt: Opt::Sgd { lr: 0.1, mom: 0.9, nesterov: true }, x0: vec![1.5], kmax: 12, budgets: (0..=12).collect(), regime: "directed:control:nesterov".into(), stop_regime: "control".into(), route: "new" };
        monitor_case(rep, &cs, rng);
    }
}

pub fn run(cfg: &Cfg, rep: &mut Report) {
    rep.rule = "Adam/SGD: random objective (convex / non-convex quadratic in 1..8 dims with eigenvalues 0.05..4 resp. -1..4, chained Rosenbrock in 2..4 dims, mean-squared-error losses of p0*exp(p1 t)[+p2], p0*sin(p1 t+p2), (p0+p1 t)/(1+(p2 t)^2) on 5..30 points) x optimizer (Adam, plain SGD, momentum, Nesterov) x hyper-parameters (stepsize log-uniform 1e-4..0.5, beta1/beta2 in (0.01,0.9999), momentum in [0,0.99]); every maxsteps 0..K is a separate optimize call on one reused optimizer object (K = 200, plus in both tiers 4 (thorough 16) long trajectories per optimizer with budgets 255..257, 511..513, 999..1001, 1023..1025, 1499, 1500, 1999, 2000, stepsize 1e-4..5e-3 and beta1/beta2/momentum in {0.9, 0.95, 0.99, 0.999, 0.9999}; thorough: 0..200 dense for all 400 cases, 12 cases dense to 2000, the others 40 random budgets k in 201..2000 each with k-1). LM: random polynomial / trigonometric (linear), exponential and logistic fits, 5..200 noisy points, 1..5 parameters, poor starts; every budget 0..200 is a separate call for n <= 12, else budgets 0..12 (0..8 for n > 100) + 10 (4) random ones + 200. Then separable quadratics whose solution components differ by up to 1e12 in size (2..6 dims, per-coordinate contraction rates stepsize*a_i in {1, .5, .75, 1.5, .25} and sometimes one slow coordinate .05/.1) for the four optimizers, same trajectory / early-stop oracle. Then linear LM problems started 1e2..1e8 solution norms away from the least-squares solution (direction components differing by up to 1e6): descent for budgets 0,1,2,3,5,..,144,200 with (eps,eps,tau), eps in {1e-6,1e-8,1e-10}, tau in {1e-2,1e-3,1e-6,1e-9}; a call that stopped before its budget lies within the distance its own stop rules imply; (1e-14,1e-14,tau) reaches the solution. Then LM at absolute scales far from 1: linear fits sum p_i c_i phi_i(x) (same polynomial / trigonometric bases, 1..5 parameters, 5..200 points) with every basis function multiplied by a power of two or ten c_i in 1e-12..1e12 (one common factor: uniform-tiny 1e-12..1e-8, uniform-huge 1e4..1e12; individual factors: mixed-tiny, mixed-huge, mixed-wide 1e-12..1e12) and the responses by sigma (parameters of order 1, unscaled responses, or a random power in 1e-12..1e12) - budgets 0,1,2,3,5,..,144,200 with tolerances adapted to the scale (descent, least-squares solution reached in the problem's own units, covariance) and budgets 0,1,2,3,8,34,200 with the default tolerances (descent, covariance); exponential fits of late-time data (x in [15..40, +5..25]) started with exp(rate*x) <= exp(-19) at every point and logistic fits started with the midpoint 19..60 rate-lengths outside the data - same budgets with the default tolerances and with eps1 = 1e-10*|gradient at the start| (descent, covariance judged scale-free against the unit-diagonal form of JtJ). Then every route to an optimizer with a given hyper-parameter setting (case i: optimizer = i mod 4 of {Adam, plain SGD, classical momentum, Nesterov}, route = (i/4) mod 8 (Adam) resp. 7 (SGD) of {new(other stepsize) + set_stepsize, Default + set_stepsize, Adam::with_stepsize, clone(), clone then set_stepsize, set_stepsize then clone, clone of an object that has already run 3 steps, a clone monitored while the original runs 1..5 steps between its calls}, objective family by (i/32) mod 6, momentum >= 0.05 for the momentum variants, defaults (0.9, 0.999, 1e-8 resp. momentum 0.9 + Nesterov) for the Default routes): budgets 0..40 dense, same trajectory / early-stop oracle, bit-for-bit comparison with an object made by new and with the original of a clone. LM routes (case k: route = k mod 6 of {Default + public fields, clone, clone then fields, fields then clone, clone of a used object, clone used while the original is used}, model by (k/6) mod 5, series of <= 60 points): the LM oracle of the main workload on the route's object plus bit-for-bit comparison with LM::new(same tolerances) and with the original. Chained calls on one Adam/SGD object (case i: optimizer = i mod 4, kind = (i/4) mod 5 of {link 2 starts from the vector link 1 returned, from a bit-for-bit copy of it, from what another object's identical first run returned, three links in a row, second link on a different objective (random quadratic of the same dimension) and a third link back on the first}, objective family and hyper-parameters drawn as in the main workload, budgets 1..40 per link): every link is compared with the reference recurrence started fresh (zero moments / velocity, step count 0) from the link's start point under the same self-calibrated tolerance, and bit for bit with a fresh object run from the same start. non-trivial = every case (all have a non-zero gradient at the start); distinct by (regime, hyper-parameters, start, data prefix)".into();
    rep.assume("objectives avoid `f64 / Var` nodes: reverse 0.2.2 differentiates c/x as -1/x (a defect of the autodiff dependency, not of compute); divisions are Var/Var and Var/f64");
    rep.assume("iterates are compared while the reference is finite (< 1e150) and the self-calibrated tolerance stays below 1e-6*(1+|x|); later budgets of such a case are counted under '<regime>:low-power' and only checked for panics, shape, early-stop rule and determinism");
    rep.assume("'stopped changing' is judged on the library's own reconstructed iterates j and j-1 (4 ulp, same sign); the library iterate j is itself tied to the reference iterate j by the iterate assertion");
    rep.assume("LM: n >= p + 2 (s^2 = RSS/(n-p) is undefined for n = p); starts with non-finite RSS are skipped; reaching the least-squares solution is demanded only when kappa(JtJ) <= 4e4 (normal equations in double precision can deliver 1e-7) with LM::new(1e-14,1e-14,tau) and 200 steps (2000 in the thorough tier for the poorly conditioned class)");
    rep.assume("routes: the hyper-parameter setting the property quantifies over is that of the object that runs, however it was made (new, Default, with_stepsize, set_stepsize, public fields of LM, Clone); an object made along any route must follow the same published recurrence and, the algorithms being deterministic, give bit-for-bit the result of an object made by new with the same setting");
    rep.assume("chained calls: the start point of a call may be a point an earlier call of the same object returned; nothing in the published recurrences carries over between runs (moments, velocity and step count start at zero in every call), so each link is judged as a run of its own and must equal, bit for bit, what an object that has never run anything returns from the same start");
    rep.assume("LM far starts: the stop-rule bound is asserted only when the call stopped before its budget, no step was rejected (hook; every step of a linear model has gain ratio 2 against the damped model that was solved, is accepted and divides the damping by 3, so mu <= tau*max diag(JtJ), for every column scaling) and (1 + mu0*||inv(JtJ) diag(JtJ)||)*eps2 <= 0.1; other cases are counted under lm-linear:far-start:stop-bound:low-power(*)");
    rep.assume("LM scaled fits: the least-squares clause is judged in the units p_i*c2_i/sigma2 (c2, sigma2 = nearest powers of two of the column / response factors, an exact change of units) with tau' = tau*max diag(JtJ in units)/max diag(JtJ), eps1' = 1e-14*sigma2*min c2, eps2' = 1e-14*min(min unit/max unit, sqrt(min unit)), when kappa(JtJ in units) <= 4e4; the covariance clause of the scaled and plateau fits is judged on D cov D / s^2 against inv(D^-1 JtJ D^-1), D = Jacobian column norms at the returned point, when 1000(n+p)eps*kappa of that unit-diagonal form <= 1e-3 (else counted under *:cov:low-power(kappa))");
    let (ncase, kmax) = if cfg.lite { (cfg.pick(8, 8, 2), 20) } else if cfg.thorough() { (400, 2000) } else { (60, 200) };
    let nlm = cfg.pick(200, 5000, 2);
    // LM problems are generated up front (own seed per problem) so that they can be scheduled by cost
    let fits: Vec<(u64, lm::Fit)> = (0..nlm)
        .map(|k| {
            let seed = case_seed(cfg.seed, 3, k as u64);
            let mut rng = Rng::new(seed);
            let model = match k % 5 {
                0 | 1 => lm::Model::Poly,
                2 => lm::Model::Trig,
                3 => lm::Model::Exp,
                _ => lm::Model::Logistic,
            };
            (seed, lm::random_fit(&mut rng, model))
        })
        .collect();
    let mut lm_order: Vec<usize> = (0..nlm).collect();
    lm_order.sort_by(|&a, &b| fits[b].1.xs.len().cmp(&fits[a].1.xs.len()).then(a.cmp(&b)));
    // Scheduling. Adam and SGD `eprintln!` on every step, and std's stderr lock serialises them across
    // threads (measured: 1.27M steps take 2.4 s on 1 thread, 3.1 s on 16), so all Adam/SGD cases go to
    // worker 0 (slots ≡ 0 mod threads) while the other workers run the LM problems, longest first.
    // Every work item derives its generator from its own index, so results do not depend on `threads`.
    #[derive(Clone, Copy)]
    enum Item {
        Traj(usize),
        TrajScaled(usize),
        TrajLong(usize),
        Directed,
        Lm(usize),
        LmFar(usize),
        LmScaled(usize),
        LmPlateau(usize),
        TrajRoute(usize),
        TrajChain(usize),
        LmRoute(usize),
        Idle,
    }
    // parameter vectors whose components differ by up to 1e12 in size (stream 4), linear LM fits from far starts (stream 5)
    let nscaled = if cfg.lite { 2 } else if cfg.thorough() { 80 } else { 16 };
    let nfar = if cfg.miri() { 0 } else { cfg.pick(150, 3000, 2) }; // 13 calls of up to 200 steps each: not in the interpreter
    let t = cfg.threads.max(1);
    let mut traj_items: std::collections::VecDeque<Item> = (0..ncase).map(Item::Traj).collect();
    traj_items.push_front(Item::Directed);
    traj_items.extend((0..nscaled).map(Item::TrajScaled));
    // long trajectories with sparse budgets around round step counts (stream 6); the lite layers stop at 20 steps
    let nlong = if cfg.lite { 0 } else if cfg.thorough() { 64 } else { 16 };
    traj_items.extend((0..nlong).map(Item::TrajLong));
    // every route to an optimizer with a given hyper-parameter setting (streams 9 and 10)
    let nroute = if cfg.miri() { 2 } else if cfg.lite { 4 } else if cfg.thorough() { 300 } else { 60 };
    traj_items.extend((0..nroute).map(Item::TrajRoute));
    // chained calls on one object: each link judged as a run of its own (stream 11)
    let nchain = if cfg.miri() { 2 } else if cfg.lite { 4 } else if cfg.thorough() { 300 } else { 60 };
    traj_items.extend((0..nchain).map(Item::TrajChain));
    let nroute_lm = if cfg.miri() { 0 } else { cfg.pick(36, 360, 6) };
    let mut lm_items: std::collections::VecDeque<Item> = lm_order.iter().map(|&k| Item::Lm(k)).collect();
    lm_items.extend((0..nroute_lm).map(Item::LmRoute));
    lm_items.extend((0..nfar).map(Item::LmFar));
    // linear fits whose basis functions are uniformly or individually tiny / huge (stream 7), exponential and logistic
    // fits started on a plateau (stream 8): up to 33 calls of up to 200 steps each, not in the interpreter
    let nscaled_lm = if cfg.miri() { 0 } else { cfg.pick(150, 2500, 2) };
    let nplateau = if cfg.miri() { 0 } else { cfg.pick(60, 1000, 2) };
    lm_items.extend((0..nscaled_lm).map(Item::LmScaled));
    lm_items.extend((0..nplateau).map(Item::LmPlateau));
    let mut sched: Vec<Item> = Vec::new();
    while !traj_items.is_empty() || !lm_items.is_empty() {
        let slot0 = sched.len() % t == 0;
        let it = if slot0 { traj_items.pop_front().or_else(|| lm_items.pop_front()) } else { lm_items.pop_front() };
        sched.push(it.unwrap_or(Item::Idle));
    }
    par_cases(cfg, rep, 1, sched.len(), |pos, _rng, rep| match sched[pos] {
        Item::Idle => {}
        Item::Directed => {
            let seed = case_seed(cfg.seed, 2, 0);
            rep.case_seed = seed;
            directed(rep, &mut Rng::new(seed));
        }
        Item::Traj(i) => {
            let seed = case_seed(cfg.seed, 1, i as u64);
            rep.case_seed = seed;
            let rng = &mut Rng::new(seed);
            let which_opt = i % 4;
            let fam = (i / 4) % 6;
            let (pr, x0) = match fam {
                0 => obj::quadratic(rng, true),
                1 => obj::quadratic(rng, false),
                2 => obj::rosenbrock(rng),
                f => obj::least_squares(rng, f - 3),
            };
            let o = random_opt(rng, which_opt, fam == 2);
            let regime = format!("{}:{}", o.name(), pr.label);
            // thorough: 0..200 dense for every case; 12 cases dense to 2000 (one per optimizer x cheap
            // family), the others 40 random budgets k in 201..2000 together with k-1
            let dense = if cfg.thorough() && fam <= 2 && i < 24 { kmax } else { 200.min(kmax) };
            let b = budgets(kmax, dense, 40, rng);
            let cs = CaseSpec { pr: &pr, opt: o, x0, kmax, budgets: b, regime: regime.clone(), stop_regime: regime, route: "new" };
            monitor_case(rep, &cs, rng);
        }
        Item::TrajScaled(i) => {
            let seed = case_seed(cfg.seed, 4, i as u64);
            rep.case_seed = seed;
            let rng = &mut Rng::new(seed);
            // the stepsize fixes the per-coordinate contraction rates of the problem, so it is drawn first
            let lr = rng.log_range(1e-3, 0.5);
            let (pr, x0) = obj::quadratic_mixed_scale(rng, lr);
            let o = match i % 4 {
                0 => Opt::Adam { lr, b1: if rng.bool() { 0.9 } else { rng.range(0.01, 0.99) }, b2: if rng.bool() { 0.999 } else { rng.range(0.01, 0.9999) }, eps: 1e-8 },
                1 => Opt::Sgd { lr, mom: 0.0, nesterov: false },
                2 => Opt::Sgd { lr, mom: rng.range(0.05, 0.6), nesterov: false },
                _ => Opt::Sgd { lr, mom: rng.range(0.05, 0.6), nesterov: true },
            };
            let regime = format!("{}:{}", o.name(), pr.label);
            let b = budgets(kmax, 200.min(kmax), 40, rng);
            let cs = CaseSpec { pr: &pr, opt: o, x0, kmax, budgets: b, regime: regime.clone(), stop_regime: regime, route: "new" };
            monitor_case(rep, &cs, rng);
        }
        Item::TrajLong(i) => {
            // "for every step budget k": nothing in the published recurrences changes character after some number of
            // steps, so an implementation must not either (a warm-up phase that ends, a counter that is narrowed or
            // wraps, a correction that is dropped once it "no longer matters", a schedule keyed to the step number).
            // Budgets sit on both sides of round step counts — 256, 512, 1000, 1024 — and at 1500 and 2000 (the end
            // of the quantifier's range), each with its predecessor; hyper-parameters are chosen so that the run is
            // still moving at step 2000 (small step sizes) and the step number still matters there (beta1, beta2,
            // momentum near 1: beta2^1024 = 0.36 for the default 0.999). Same reference recurrence and
            // self-calibrated tolerance as every other trajectory, under `<optimizer>:long-budget`.
            let seed = case_seed(cfg.seed, 6, i as u64);
            rep.case_seed = seed;
            let rng = &mut Rng::new(seed);
            let which_opt = i % 4;
            let fam = (i / 4) % 4;
            let (pr, x0) = match fam {
                0 => obj::quadratic(rng, true),
                1 => obj::rosenbrock(rng),
                2 => obj::quadratic(rng, false),
                _ => {
                    let which = rng.usize(0, 2);
                    obj::least_squares(rng, which)
                }
            };
            let lr = if fam == 1 { rng.log_range(1e-4, 1e-3) } else { rng.log_range(1e-4, 5e-3) };
            let near_one = |rng: &mut Rng| *rng.choose(&[0.9, 0.99, 0.999, 0.9999]);
            let o = match which_opt {
                0 => Opt::Adam { lr, b1: if rng.chance(0.5) { 0.9 } else { near_one(rng) }, b2: if rng.chance(0.5) { 0.999 } else { near_one(rng) }, eps: 1e-8 },
                1 => Opt::Sgd { lr, mom: 0.0, nesterov: false },
                2 => Opt::Sgd { lr: lr * 0.1, mom: *rng.choose(&[0.9, 0.95, 0.99]), nesterov: false },
                _ => Opt::Sgd { lr: lr * 0.1, mom: *rng.choose(&[0.9, 0.95, 0.99]), nesterov: true },
            };
            let kmax = 2000usize;
            let mut b: Vec<usize> = vec![0, 1, 2];
            for m in [256usize, 512, 1000, 1024] {
                b.extend_from_slice(&[m - 1, m, m + 1]);
            }
            b.extend_from_slice(&[1499, 1500, 1999, 2000]);
            let regime = format!("{}:long-budget", o.name());
            let cs = CaseSpec { pr: &pr, opt: o, x0, kmax, budgets: b, regime: regime.clone(), stop_regime: regime, route: "new" };
            monitor_case(rep, &cs, rng);
        }
        Item::TrajRoute(i) => {
            let seed = case_seed(cfg.seed, 9, i as u64);
            rep.case_seed = seed;
            let rng = &mut Rng::new(seed);
            // optimizer by i mod 4 (Adam, plain SGD, classical momentum, Nesterov), route by (i / 4) mod (number of routes)
            let which_opt = if cfg.lite { [2usize, 0, 3, 1][i % 4] } else { i % 4 };
            let route: &'static str = if cfg.lite {
                // sanitizer layers: the routes that copy an object (and its tape)
                ["clone", "clone-of-used", "set-then-clone", "clone-interleaved"][i % 4]
            } else if which_opt == 0 {
                ROUTES_ADAM[(i / 4) % ROUTES_ADAM.len()]
            } else {
                ROUTES_SGD[(i / 4) % ROUTES_SGD.len()]
            };
            let fam = (i / 32) % 6;
            let (pr, x0) = match fam {
                0 => obj::quadratic(rng, true),
                1 => obj::quadratic(rng, false),
                2 => obj::rosenbrock(rng),
                f => obj::least_squares(rng, f - 3),
            };
            let mut o = random_opt(rng, which_opt, fam == 2);
            if route_needs_defaults(route) {
                // Default fixes everything but the stepsize; SGD's default is Nesterov with momentum 0.9, so the
                // plain and classical-momentum optimizers have no such route
                o = match o {
                    Opt::Adam { lr, .. } => Opt::Adam { lr, b1: 0.9, b2: 0.999, eps: 1e-8 },
                    Opt::Sgd { lr, .. } => Opt::Sgd { lr, mom: 0.9, nesterov: true },
                };
            } else if let Opt::Sgd { lr, mom, nesterov } = o {
                // a momentum that is really there, so that the three SGD variants are three different recurrences
                if which_opt >= 2 && mom < 0.05 {
                    o = Opt::Sgd { lr, mom: 0.05 + mom, nesterov };
                }
            }
            let kmax = if cfg.miri() { 8 } else if cfg.lite { 12 } else { 40 };
            let regime = format!("route:{}:{}", o.name(), route);
            rep.seen(&format!("route:{}", route), 1);
            rep.seen(&format!("route:{}", o.name()), 1);
            let cs = CaseSpec { pr: &pr, opt: o, x0, kmax, budgets: (0..=kmax).collect(), regime: regime.clone(), stop_regime: regime, route };
            monitor_case(rep, &cs, rng);
        }
        Item::TrajChain(i) => {
            let seed = case_seed(cfg.seed, 11, i as u64);
            rep.case_seed = seed;
            let rng = &mut Rng::new(seed);
            // optimizer by i mod 4, kind of chain by (i / 4) mod 5, objective family drawn
            let which_opt = i % 4;
            let kind: &'static str = if cfg.lite { CHAIN_KINDS[[0usize, 3, 4, 2][i % 4]] } else { CHAIN_KINDS[(i / 4) % CHAIN_KINDS.len()] };
            let fam = rng.usize(0, 5);
            let (pr, x0) = match fam {
                0 => obj::quadratic(rng, true),
                1 => obj::quadratic(rng, false),
                2 => obj::rosenbrock(rng),
                f => obj::least_squares(rng, f - 3),
            };
            let mut o = random_opt(rng, which_opt, fam == 2);
            if let Opt::Sgd { lr, mom, nesterov } = o {
                if which_opt >= 2 && mom < 0.05 {
                    o = Opt::Sgd { lr, mom: 0.05 + mom, nesterov };
                }
            }
            let kc = if cfg.miri() { 4 } else if cfg.lite { 8 } else { 40 };
            let ks = [rng.usize(1, kc), rng.usize(1, kc), rng.usize(1, kc)];
            chain_case(rep, &pr, &o, &x0, kind, ks, rng);
        }
        Item::LmRoute(k) => {
            let seed = case_seed(cfg.seed, 10, k as u64);
            rep.case_seed = seed;
            let rng = &mut Rng::new(seed);
            let model = match (k / lm::ROUTES_LM.len()) % 5 {
                0 | 1 => lm::Model::Poly,
                2 => lm::Model::Trig,
                3 => lm::Model::Exp,
                _ => lm::Model::Logistic,
            };
            let mut f = lm::random_fit(rng, model);
            // the cost of a call grows like n^1.7: moderate series are enough for a statement about the object
            while f.xs.len() > 60 {
                f = lm::random_fit(rng, model);
            }
            f.route = lm::ROUTES_LM[k % lm::ROUTES_LM.len()];
            lm::monitor(cfg, rep, &f, rng, false);
        }
        Item::LmFar(k) => {
            let seed = case_seed(cfg.seed, 5, k as u64);
            rep.case_seed = seed;
            let rng = &mut Rng::new(seed);
            match lm::far_fit(rng) {
                Some(far) => lm::far_monitor(rep, &far, rng),
                None => rep.seen("lm-linear:far-start:skipped(no reference solution)", 1),
            }
        }
        Item::LmScaled(k) => {
            let seed = case_seed(cfg.seed, 7, k as u64);
            rep.case_seed = seed;
            let rng = &mut Rng::new(seed);
            let sc = lm::scaled_fit(rng, k);
            lm::scaled_monitor(rep, &sc, rng);
        }
        Item::LmPlateau(k) => {
            let seed = case_seed(cfg.seed, 8, k as u64);
            rep.case_seed = seed;
            let rng = &mut Rng::new(seed);
            let (f, regime) = lm::plateau_fit(rng, k);
            lm::plateau_monitor(rep, &f, regime, rng);
        }
        Item::Lm(k) => {
            let (seed, f) = &fits[k];
            rep.case_seed = *seed;
            let rng = &mut Rng::new(seed ^ 0x5DEECE66D);
            // every budget 0..200 for the small problems (n <= 12), a dense prefix + random budgets + 200 for the rest
            let all = f.xs.len() <= 12;
            lm::monitor(cfg, rep, f, rng, all && !cfg.lite);
        }
    });
    if !cfg.lite {
        for o in ["adam", "sgd", "momentum", "nesterov"] {
            for l in ["quad-convex", "quad-nonconvex", "rosenbrock", "ls-exp", "ls-sin", "ls-rational"] {
                rep.require(&format!("{}:{}", o, l), 1);
            }
        }
        for l in ["lm:linear-poly", "lm:linear-trig", "lm:exp", "lm:logistic", "lm-linear:corr-lmin>=0.05", "lm-linear:corr-lmin<0.05"] {
            rep.require(l, 1);
        }
        for o in ["adam", "sgd", "momentum", "nesterov"] {
            rep.require(&format!("{}:quad-mixed-scale", o), 1);
        }
        rep.require("early-stop:sgd", 1);
        rep.require("lm-linear:far-start", 1);
        rep.require("lm-linear:far-start:stop-bound:judged", 1);
        rep.require("lm-linear:far-start:stop-bound:judged:min-diag>=1", 1);
        if cfg.thorough() {
            // a few per cent of the far-start fits (short series on [-1, 1], high powers): too few in 150 quick cases to demand one
            rep.require("lm-linear:far-start:stop-bound:judged:min-diag<1", 1);
        }
        for o in ["adam", "sgd", "momentum", "nesterov"] {
            rep.require(&format!("{}:long-budget", o), 1);
            rep.require(&format!("{}:long-budget:compared:k>1024", o), 1);
        }
        for d in 2..8 {
            rep.require(&format!("far-start:ratio=1e{}", d), 1);
        }
        if !cfg.miri() {
            for l in ["uniform-tiny", "uniform-huge", "mixed-tiny", "mixed-huge", "mixed-wide", "max-diag-JtJ<eps", "max-diag-JtJ<eps:np>=2", "min-diag-JtJ>1/eps", "diag-JtJ-spread>1e16", "reach:judged", "cov:judged", "iterated"] {
                rep.require(&format!("lm-scaled:{}", l), 1);
            }
            for l in ["exp", "logistic-lower", "logistic-upper", "max-diag-JtJ<eps", "max-diag-JtJ<eps:np>=2", "cov:judged", "iterated"] {
                rep.require(&format!("lm-plateau:{}", l), 1);
            }
        }
        for s in ["adam.step", "sgd.step", "lm.step", "lm.accept", "lm.reject"] {
            rep.require(s, 1);
        }
        for r in ROUTES_ADAM {
            rep.require(&format!("route:adam:{}", r), 1);
        }
        for r in ROUTES_SGD {
            if route_needs_defaults(r) {
                rep.require(&format!("route:nesterov:{}", r), 1);
            } else {
                for o in ["sgd", "momentum", "nesterov"] {
                    rep.require(&format!("route:{}:{}", o, r), 1);
                }
            }
        }
        for o in ["adam", "sgd", "momentum", "nesterov"] {
            for kind in CHAIN_KINDS {
                rep.require(&format!("chain:{}:{}", o, kind), 1);
            }
            rep.require(&format!("chain:compared:{}:link1", o), 1);
            rep.require(&format!("chain:compared:{}:link2", o), 1);
            rep.require(&format!("chain:first-link-moved:{}", o), 1);
        }
        if !cfg.miri() {
            for r in lm::ROUTES_LM {
                rep.require(&format!("lm-route:{}", r), 1);
            }
            rep.require("lm-route:reach-ls:judged", 1);
        }
    }
}
