//! C19 — resampling never invents, loses or unpairs data (DESIGN §3 C19).
//!
//! Events: return value or panic of `bootstrap`, `jackknife`, `shuffle`, `shuffle_two`.
//! Oracle: the data carry unique tags (a permutation of 0..n plus 0.25), so every output element
//! names the input position it came from: membership, multiset equality and pairing are exact.
//! Index uniformity of the bootstrap is decided with an explicit false-alarm bound (χ² at
//! α = 1e-12, the DKW band at α = 1e-12, and "every index is drawn" where missing one has
//! probability < 1e-12); the same bounds govern two censuses pooled over many seeded calls of a fixed
//! shape — every (resample, slot) → position cell at small shapes of all parities, and every position
//! frequency at lengths 600..2000 (see "uniformity with power" below).
//! Repeated and special values are compared as multisets of bit patterns.
//!
//! "Every random stream" is additionally probed where no census of ordinary seeds reaches:
//!   * fault injection (`inject:*` regimes): the library generator is put into a state after which the
//!     (k+1)-th raw word has an all-ones / all-zero 32-bit half (`gen::ADVERSARIAL_ALEA`), k = 0..5 and
//!     random positions inside the call, at lengths 1..2000 (incl. 1500, 2000) — an index sampler with an
//!     inclusive end point produces `len` on such a word (probability 2^-32 per draw) and the resampler
//!     indexes out of bounds;
//!   * a pairing census (`pairs:*` regimes): 65 536 (thorough 655 360) seeded `shuffle_two` calls at the
//!     top of the length range (half at 2000, half in 1000..=2000) with x increasing and y decreasing
//!     (any value-dependent tie-break between equal random sort keys orders the two arrays differently)
//!     or two independent permutations; every call is checked exactly (pair multiset), no statistics.
//!     Detection: a defect that unpairs a call with probability q is missed with probability
//!     (1-q)^calls; for q = 5e-4 (a 32-bit key collision among 2000 keys: 2000²/2^33 = 4.7e-4) that is
//!     exp(-32.8) = 6e-15 in the quick tier (the 49 152 anti-monotone calls alone: 2e-11).
use crate::gen::{Rng, SPECIALS};
use crate::oracle::stats;
use crate::report::{guard, jf, par_cases, Cfg, Hasher, Report};
use compute::validation::{bootstrap, jackknife, shuffle, shuffle_two};
use serde_json::{json, Value};

const ALPHA: f64 = 1e-12;

#[cfg(not(miri))]
fn chi2_sf(x: f64, dof: f64) -> f64 {
    crate::oracle::special::chi2_sf(x, dof)
}
#[cfg(miri)]
fn chi2_sf(_x: f64, _dof: f64) -> f64 {
    1.0
}

fn bits_sorted(xs: &[f64]) -> Vec<u64> {
    let mut b: Vec<u64> = xs.iter().map(|x| x.to_bits()).collect();
    b.sort_unstable();
    b
}

#[derive(Clone, Copy, PartialEq)]
enum Class {
    Distinct,
    Repeated,
    Special,
}

struct Data {
    x: Vec<f64>,
    class: Class,
    /// distinct data: position of tag t (x[pos_of[t]] = t + 0.25)
    pos_of: Vec<usize>,
}

fn make_data(rng: &mut Rng, n: usize, class: Class) -> Data {
    match class {
        Class::Distinct => {
            let perm = rng.perm(n);
            let mut pos_of = vec![0; n];
            for (i, &t) in perm.iter().enumerate() {
                pos_of[t] = i;
            }
            Data { x: perm.iter().map(|&t| t as f64 + 0.25).collect(), class, pos_of }
        }
        Class::Repeated => {
            let pool = rng.usize(1, 4.min(n).max(1));
            Data { x: (0..n).map(|_| rng.usize(0, pool - 1) as f64 * 1.5 - 1.0).collect(), class, pos_of: vec![] }
        }
        Class::Special => {
            let x = (0..n).map(|_| if rng.chance(0.7) { *rng.choose(SPECIALS) } else { rng.usize(0, 3) as f64 }).collect();
            Data { x, class, pos_of: vec![] }
        }
    }
}

impl Data {
    /// input position of an output value (distinct data only)
    fn decode(&self, v: f64) -> Option<usize> {
        let t = v - 0.25;
        if !(t >= 0.0 && t < self.x.len() as f64 && t.fract() == 0.0) {
            return None;
        }
        let p = self.pos_of[t as usize];
        (self.x[p].to_bits() == v.to_bits()).then_some(p)
    }
}

fn regime_of(d: &Data) -> &'static str {
    if d.x.len() == 1 {
        "len=1"
    } else {
        match d.class {
            Class::Distinct => "len>=2:distinct",
            Class::Repeated => "len>=2:repeated",
            Class::Special => "len>=2:special",
        }
    }
}

// ---------------------------------------------------------------------------------------------

// ---------------------------------------------------------------------------------------------
// joint slot/position structure of ONE call, resample by resample
//
// Pooled position frequencies are blind to the way positions are laid out over the slots: a resample
// that is a verbatim copy of the data (or of its neighbour) uses every position exactly once and leaves
// every pooled count where it belongs. With position-tagged data the layout can be read back, and under
// the property (independent uniform positions in every slot) each of the following has a law that does
// not depend on the library's algorithm:
//   * F_r = number of fixed points of resample r (slot j holds position j) ~ Binomial(len, 1/len), so
//     P(F_r >= k) <= C(len, k) / len^k <= 1/k!; the largest F_r is compared with the smallest k such that
//     n_bootstrap / k! <= 1e-12 (k = 17 for up to 355 resamples). The total over the call is
//     Binomial(len · n_bootstrap, 1/len): two-sided Chernoff bound exp(−N·KL(T/N ‖ 1/len)) < 0.5e-12.
//   * A_r = number of slots in which resamples r and r+1 agree: the same law, the same bound.
//   * D_r = number of distinct positions in resample r: a function of len independent draws that moves
//     by at most 1 when one draw changes, so P(|D_r − E D| >= t) <= 2 exp(−2t²/len) (McDiarmid) with
//     E D = len (1 − (1 − 1/len)^len); t solves 2 · n_bootstrap · exp(−2t²/len) = 1e-12.
//   * two identical resamples / a resample identical to the data: probability len^−len per pair / per
//     resample; asserted where the union bound over pairs (resamples) is below 1e-12 (len >= 14 at 200).
// Each of the three assertions has a false-alarm probability <= 1e-12 per call by these bounds.

/// smallest k with m / k! <= ALPHA
fn factorial_threshold(m: f64) -> usize {
    let (mut k, mut f) = (1usize, 1.0f64);
    while m / f > ALPHA {
        k += 1;
        f *= k as f64;
    }
    k
}

/// Chernoff bound on P(X >= t) (t above the mean) or P(X <= t) (t below) for X ~ Binomial(n, p).
fn chernoff_binomial(n: f64, p: f64, t: f64) -> f64 {
    let q = t / n;
    if q == p {
        return 1.0;
    }
    let term = |a: f64, b: f64| if a <= 0.0 { 0.0 } else { a * (a / b).ln() };
    (-n * (term(q, p) + term(1.0 - q, 1.0 - p))).exp()
}

fn row_structure(rep: &mut Report, d: &Data, out: &[Vec<f64>], regime: &str, seed: Option<u64>) {
    let n = d.x.len();
    let nb = out.len();
    if d.class != Class::Distinct || n < 2 || nb == 0 || out.iter().any(|r| r.len() != n) {
        return;
    }
    // positions, resample by resample (membership failures are reported by the caller)
    let mut pos: Vec<Vec<u32>> = Vec::with_capacity(nb);
    for r in out {
        let mut row = Vec::with_capacity(n);
        for &v in r {
            match d.decode(v) {
                Some(p) => row.push(p as u32),
                None => return,
            }
        }
        pos.push(row);
    }
    rep.seen("cover:bootstrap:rows", 1);
    let head = |obs: Value| json!({"fn": "bootstrap", "data": if n <= 64 { jf(&d.x) } else { json!("position-tagged: a permutation of 0.25, 1.25, ..., len-0.75") }, "len": n, "n_bootstrap": nb, "alea_seed": seed, "observed": obs});
    let nf = n as f64;
    // ---- fixed points
    let fixed: Vec<usize> = pos.iter().map(|row| row.iter().enumerate().filter(|&(j, &p)| p as usize == j).count()).collect();
    let k_fix = factorial_threshold(nb as f64);
    let (worst_r, worst_f) = fixed.iter().copied().enumerate().max_by_key(|&(_, f)| f).unwrap();
    let total: usize = fixed.iter().sum();
    let draws = nf * nb as f64;
    let total_bound = chernoff_binomial(draws, 1.0 / nf, total as f64);
    rep.note_max("worst.bootstrap.rows.max_fixed_points", worst_f as f64);
    rep.note_max("worst.bootstrap.rows.total_fixed_points(-log10 bound)", -total_bound.max(1e-300).log10());
    let mut failures: Vec<Value> = Vec::new();
    if worst_f >= k_fix {
        let many: Vec<usize> = (0..nb).filter(|&r| fixed[r] >= k_fix).collect();
        failures.push(json!({"test": "fixed points of one resample: Binomial(len, 1/len), P(F >= k) <= 1/k!, Bonferroni over resamples", "resample": worst_r, "fixed_points": worst_f, "threshold_k": k_fix,
                             "false_alarm_bound": nb as f64 / (1..=k_fix).map(|q| q as f64).product::<f64>(), "resamples_at_or_above_threshold": many[..many.len().min(32)]}));
    }
    if total_bound < 0.5 * ALPHA {
        failures.push(json!({"test": "fixed points of the whole call: Binomial(len*n_bootstrap, 1/len), Chernoff bound", "fixed_points": total, "expected": nb, "bound_on_tail_probability": total_bound}));
    }
    rep.check("C19.bootstrap.rows.fixed_points", regime, failures.is_empty(), || head(json!({"failed": failures, "fixed_points_per_resample_first": fixed[..nb.min(32)], "fixed_points_per_resample_last": fixed[nb - nb.min(32)..]})));
    // ---- distinct positions
    let e_d = nf * (1.0 - (1.0 - 1.0 / nf).powf(nf));
    let t = (nf / 2.0 * (2.0 * nb as f64 / ALPHA).ln()).sqrt();
    let mut stamp = vec![u32::MAX; n];
    let distinct: Vec<usize> = pos
        .iter()
        .enumerate()
        .map(|(r, row)| {
            let mut c = 0;
            for &p in row {
                if stamp[p as usize] != r as u32 {
                    stamp[p as usize] = r as u32;
                    c += 1;
                }
            }
            c
        })
        .collect();
    let (wr, wd) = distinct.iter().copied().enumerate().max_by(|a, b| (a.1 as f64 - e_d).abs().partial_cmp(&(b.1 as f64 - e_d).abs()).unwrap()).unwrap();
    rep.note_max("worst_ratio.bootstrap.rows.distinct_positions(dev/threshold)", (wd as f64 - e_d).abs() / t);
    rep.check("C19.bootstrap.rows.distinct_positions", regime, (wd as f64 - e_d).abs() <= t, || {
        head(json!({"test": "distinct positions in one resample: McDiarmid bound around len(1-(1-1/len)^len), Bonferroni over resamples", "resample": wr, "distinct_positions": wd, "expected": e_d, "threshold_abs_deviation": t,
                    "distinct_per_resample_first": distinct[..nb.min(32)], "distinct_per_resample_last": distinct[nb - nb.min(32)..]}))
    });
    // ---- repeated resamples
    let mut failures: Vec<Value> = Vec::new();
    let ln_one = -nf * nf.ln(); // ln P(two given resamples coincide) = ln P(a given resample is the data)
    if nb >= 2 {
        let k_agree = factorial_threshold((nb - 1) as f64);
        let agree: Vec<usize> = (0..nb - 1).map(|r| pos[r].iter().zip(&pos[r + 1]).filter(|(a, b)| a == b).count()).collect();
        let (ar, am) = agree.iter().copied().enumerate().max_by_key(|&(_, a)| a).unwrap();
        rep.note_max("worst.bootstrap.rows.max_agreement_of_consecutive_resamples", am as f64);
        if am >= k_agree {
            failures.push(json!({"test": "slots in which two consecutive resamples agree: Binomial(len, 1/len), P(A >= k) <= 1/k!, Bonferroni over pairs", "resamples": [ar, ar + 1], "agreeing_slots": am, "threshold_k": k_agree}));
        }
        if (nb as f64 * (nb - 1) as f64 / 2.0).ln() + ln_one <= ALPHA.ln() {
            let mut first: std::collections::HashMap<&[u32], usize> = std::collections::HashMap::new();
            let mut dup = None;
            for (r, row) in pos.iter().enumerate() {
                if let Some(&q) = first.get(row.as_slice()) {
                    dup = Some((q, r));
                    break;
                }
                first.insert(row.as_slice(), r);
            }
            if let Some((q, r)) = dup {
                failures.push(json!({"test": "two identical resamples (probability len^-len per pair)", "resamples": [q, r], "ln_false_alarm_bound": (nb as f64 * (nb - 1) as f64 / 2.0).ln() + ln_one}));
            }
            rep.seen("cover:bootstrap:rows:identical-pairs-decidable", 1);
        }
    }
    if (nb as f64).ln() + ln_one <= ALPHA.ln() {
        let copies: Vec<usize> = (0..nb).filter(|&r| fixed[r] == n).collect();
        if !copies.is_empty() {
            failures.push(json!({"test": "a resample identical to the data (probability len^-len per resample)", "resamples": copies[..copies.len().min(32)], "how_many": copies.len()}));
        }
    }
    rep.check("C19.bootstrap.rows.repeated", regime, failures.is_empty(), || head(json!({"failed": failures})));
}

fn check_bootstrap(rep: &mut Report, d: &Data, nb: usize, seed: u64, tag: &str) {
    let regime_s = format!("{}{}", tag, regime_of(d));
    let regime = regime_s.as_str();
    let n = d.x.len();
    rep.case(regime);
    rep.seen(&format!("cover:bootstrap:{}", regime), 1);
    let head = |obs: Value| json!({"fn": "bootstrap", "data": jf(&d.x), "len": n, "n_bootstrap": nb, "alea_seed": seed, "observed": obs});
    alea::set_seed(seed);
    let out = match guard(|| bootstrap(&d.x, nb)) {
        Err(msg) => {
            rep.check("C19.bootstrap.no_panic", regime, false, || head(json!({"panic": msg})));
            return;
        }
        Ok(o) => o,
    };
    rep.check("C19.bootstrap.no_panic", regime, true, || json!(null));
    rep.check("C19.bootstrap.count", regime, out.len() == nb, || head(json!({"resamples": out.len()})));
    let badlen = out.iter().position(|r| r.len() != n);
    rep.check("C19.bootstrap.length", regime, badlen.is_none(), || head(json!({"resample": badlen, "its_length": out[badlen.unwrap()].len()})));
    // membership
    let mut counts = vec![0u64; n];
    let mut alien = None;
    if d.class == Class::Distinct {
        'o: for (r, res) in out.iter().enumerate() {
            for (j, &v) in res.iter().enumerate() {
                match d.decode(v) {
                    Some(p) => counts[p] += 1,
                    None => {
                        alien = Some((r, j, v));
                        break 'o;
                    }
                }
            }
        }
    } else {
        let set: std::collections::HashSet<u64> = d.x.iter().map(|v| v.to_bits()).collect();
        'p: for (r, res) in out.iter().enumerate() {
            for (j, &v) in res.iter().enumerate() {
                if !set.contains(&v.to_bits()) {
                    alien = Some((r, j, v));
                    break 'p;
                }
            }
        }
    }
    let member_ok = rep.check("C19.bootstrap.membership", regime, alien.is_none(), || {
        let (r, j, v) = alien.unwrap();
        head(json!({"resample": r, "slot": j, "value_not_in_data": crate::report::jnum(v), "bits": format!("{:#018x}", v.to_bits())}))
    });
    // uniformity of the pooled index use
    if d.class != Class::Distinct || !member_ok || n < 2 || badlen.is_some() || out.len() != nb {
        return;
    }
    row_structure(rep, d, &out, regime, Some(seed));
    let total: u64 = counts.iter().sum();
    let nf = n as f64;
    let mut failures: Vec<Value> = Vec::new();
    // (a) DKW band on the index CDF — rigorous for any sample size
    let eps = stats::dkw_eps(total as usize, ALPHA);
    let mut cum = 0u64;
    let mut sup = 0.0f64;
    for (i, &c) in counts.iter().enumerate() {
        cum += c;
        sup = sup.max((cum as f64 / total as f64 - (i + 1) as f64 / nf).abs());
    }
    rep.note_max("worst_ratio.bootstrap.dkw(sup/eps)", sup / eps);
    if sup > eps {
        failures.push(json!({"test": "DKW", "sup|F_n-F|": sup, "eps": eps, "draws": total}));
    }
    // (b) χ²: contiguous blocks and residue classes, expected count per bin >= 16
    let e_min = 16.0;
    let bins = ((total as f64 / e_min).floor() as usize).min(n);
    if bins >= 2 {
        for by_block in [true, false] {
            if !by_block && bins == n {
                break; // one index per bin: both groupings coincide
            }
            let mut obs = vec![0.0; bins];
            let mut size = vec![0.0; bins];
            for (i, &c) in counts.iter().enumerate() {
                let b = if by_block { i * bins / n } else { i % bins };
                obs[b] += c as f64;
                size[b] += 1.0;
            }
            let exp: Vec<f64> = size.iter().map(|s| s / nf * total as f64).collect();
            let stat = stats::chi2_stat(&obs, &exp);
            let p = chi2_sf(stat, (bins - 1) as f64);
            rep.note_max("worst.bootstrap.chi2(-log10 p)", -p.max(1e-300).log10());
            if !(p >= ALPHA) {
                failures.push(json!({"test": if by_block {"chi2 over contiguous index blocks"} else {"chi2 over index residue classes"}, "bins": bins, "stat": stat, "p": p}));
            }
        }
        rep.seen("cover:bootstrap:chi2", 1);
    }
    // (c) every index is drawn when missing one has probability < α: n·exp(−E) < α
    let e = total as f64 / nf;
    if nf * (-e).exp() < ALPHA {
        if let Some(miss) = counts.iter().position(|&c| c == 0) {
            failures.push(json!({"test": "every index drawn", "index_never_drawn": miss, "expected_count": e}));
        }
        rep.seen("cover:bootstrap:all-indices-hit", 1);
    }
    rep.check("C19.bootstrap.uniform_indices", regime, failures.is_empty(), || head(json!({"failed": failures, "counts_first": counts[..n.min(32)]})));
}

fn check_jackknife(rep: &mut Report, d: &Data, tag: &str) {
    let regime_s = format!("{}{}", tag, regime_of(d));
    let regime = regime_s.as_str();
    let n = d.x.len();
    rep.case(regime);
    rep.seen(&format!("cover:jackknife:{}", regime), 1);
    let head = |obs: Value| json!({"fn": "jackknife", "data": jf(&d.x), "len": n, "observed": obs});
    let out = match guard(|| jackknife(&d.x)) {
        Err(msg) => {
            rep.check("C19.jackknife.no_panic", regime, false, || head(json!({"panic": msg})));
            return;
        }
        Ok(o) => o,
    };
    rep.check("C19.jackknife.no_panic", regime, true, || json!(null));
    if !rep.check("C19.jackknife.count", regime, out.len() == n, || head(json!({"vectors": out.len()}))) {
        return;
    }
    let mut bad = None;
    for i in 0..n {
        let ok = out[i].len() == n - 1 && out[i].iter().zip(d.x[..i].iter().chain(&d.x[i + 1..])).all(|(a, b)| a.to_bits() == b.to_bits());
        if !ok {
            bad = Some(i);
            break;
        }
    }
    rep.check("C19.jackknife.leave_one_out", regime, bad.is_none(), || head(json!({"vector": bad, "got": jf(&out[bad.unwrap()]), "expected": "data without that element, in order"})));
}

fn check_shuffle(rep: &mut Report, d: &Data, seed: u64, gross: bool, tag: &str) {
    let regime_s = format!("{}{}", tag, regime_of(d));
    let regime = regime_s.as_str();
    let n = d.x.len();
    rep.case(regime);
    rep.seen(&format!("cover:shuffle:{}", regime), 1);
    let head = |obs: Value| json!({"fn": "shuffle", "data": jf(&d.x), "len": n, "alea_seed": seed, "observed": obs});
    alea::set_seed(seed);
    let out = match guard(|| shuffle(&d.x)) {
        Err(msg) => {
            rep.check("C19.shuffle.no_panic", regime, false, || head(json!({"panic": msg})));
            return;
        }
        Ok(o) => o,
    };
    rep.check("C19.shuffle.no_panic", regime, true, || json!(null));
    rep.check("C19.shuffle.multiset", regime, bits_sorted(&out) == bits_sorted(&d.x), || head(json!({"output": jf(&out)})));
    // gross bias: over 64 shuffles every position receives another element at least once (n >= 2, distinct data)
    if gross && d.class == Class::Distinct && n >= 2 {
        let mut moved = vec![false; n];
        for _ in 0..64 {
            if let Ok(o) = guard(|| shuffle(&d.x)) {
                for j in 0..n.min(o.len()) {
                    moved[j] |= o[j].to_bits() != d.x[j].to_bits();
                }
            }
        }
        let stuck = moved.iter().position(|m| !m);
        rep.check("C19.shuffle.moves_every_position", regime, stuck.is_none(), || head(json!({"position_never_changed_in_64_shuffles": stuck})));
    }
}

fn check_shuffle_two(rep: &mut Report, d: &Data, seed: u64, tag: &str) {
    let regime_s = format!("{}{}", tag, regime_of(d));
    let regime = regime_s.as_str();
    let n = d.x.len();
    rep.case(regime);
    rep.seen(&format!("cover:shuffle_two:{}", regime), 1);
    // partner array: distinct data carry the same tag (+0.5); otherwise an independent tag so that pairs are identifiable
    let y: Vec<f64> = if d.class == Class::Distinct { d.x.iter().map(|v| v + 0.5).collect() } else { (0..n).map(|i| i as f64 + 0.125).collect() };
    let head = |obs: Value| json!({"fn": "shuffle_two", "x": jf(&d.x), "y": jf(&y), "len": n, "alea_seed": seed, "observed": obs});
    alea::set_seed(seed);
    let (ox, oy) = match guard(|| shuffle_two(&d.x, &y)) {
        Err(msg) => {
            rep.check("C19.shuffle_two.no_panic", regime, false, || head(json!({"panic": msg})));
            return;
        }
        Ok(o) => o,
    };
    rep.check("C19.shuffle_two.no_panic", regime, true, || json!(null));
    rep.check("C19.shuffle_two.multiset", regime, bits_sorted(&ox) == bits_sorted(&d.x) && bits_sorted(&oy) == bits_sorted(&y), || head(json!({"out_x": jf(&ox), "out_y": jf(&oy)})));
    // one common permutation: the multiset of (x, y) pairs is preserved
    let mut pin: Vec<(u64, u64)> = d.x.iter().zip(&y).map(|(a, b)| (a.to_bits(), b.to_bits())).collect();
    let mut pout: Vec<(u64, u64)> = ox.iter().zip(&oy).map(|(a, b)| (a.to_bits(), b.to_bits())).collect();
    pin.sort_unstable();
    pout.sort_unstable();
    let unpaired = ox.iter().zip(&oy).position(|(a, b)| if d.class == Class::Distinct { b - a != 0.5 } else { false });
    rep.check("C19.shuffle_two.pairing", regime, pin == pout && unpaired.is_none(), || head(json!({"out_x": jf(&ox), "out_y": jf(&oy), "first_unpaired_slot": unpaired})));
}

/// All n! outcomes for n <= 4: evidence (χ² p-value as a note), asserted only for gross bias (an outcome that never occurs).
fn permutation_census(cfg: &Cfg, rep: &mut Report) {
    let reps = cfg.pick(20_000, 100_000, 50);
    par_cases(cfg, rep, 2, 3, |i, _rng, rep| {
        let n = i + 2;
        let data: Vec<f64> = (0..n).map(|k| k as f64 + 0.25).collect();
        let regime = "len>=2:distinct";
        let mut seen: std::collections::BTreeMap<Vec<u64>, u64> = std::collections::BTreeMap::new();
        for _ in 0..reps {
            rep.case(regime);
            if let Ok(o) = guard(|| shuffle(&data)) {
                *seen.entry(o.iter().map(|v| v.to_bits()).collect()).or_insert(0) += 1;
            }
        }
        let fact: usize = (1..=n).product();
        if !cfg.lite {
            rep.check("C19.shuffle.all_permutations_occur", regime, seen.len() == fact, || json!({"fn": "shuffle", "len": n, "shuffles": reps, "distinct_outcomes": seen.len(), "expected": fact}));
        }
        let obs: Vec<f64> = seen.values().map(|&c| c as f64).collect();
        let exp = vec![reps as f64 / fact as f64; obs.len()];
        let stat = stats::chi2_stat(&obs, &exp);
        rep.note(&format!("evidence.shuffle.permutation_chi2.n={}", n), json!({"shuffles": reps, "outcomes": seen.len(), "stat": stat, "p": chi2_sf(stat, (fact - 1) as f64)}));
    });
}

// ---------------------------------------------------------------------------------------------
// uniformity with power: censuses pooled over many seeded calls
//
// The per-case tests above pool the draws of ONE call, which decides nothing about (i) one particular
// (resample, slot) cell — a defect confined to, say, the last slot of the last resample moves a pooled
// position frequency by 1/(len² · n_bootstrap) — and (ii) relative position biases of a few per cent
// at lengths in the thousands, where one call yields ~200 draws per position. The two censuses below
// fix the shape, re-seed `alea` for every call and pool over calls.
//
// False-alarm accounting (per shape / per length, unchanged library = independent uniform draws):
//   * "never drawn": a cell whose expected count E is >= 200 is empty with probability
//     (1 − 1/len)^calls <= exp(−E) <= 1.4e-87; union over <= 1e5 cells: < 1e-80.
//   * max deviation: Bernstein's inequality for a Binomial(N, p) count X (variance <= E = N p,
//     summands bounded by 1): P(|X − E| >= t) <= 2 exp(−t² / (2 (E + t/3))), rigorous for every N.
//     The threshold solves 2 exp(..) = ALPHA / cells (Bonferroni): overall <= ALPHA = 1e-12.
//   * Pearson χ² at ALPHA = 1e-12, only where every expected count is >= 16 (here >= 200 in the
//     non-lite tiers): asymptotic, the same convention as the per-case χ² above.

/// t with 2·exp(−t² / (2 (e + t/3))) = alpha (Bernstein bound for a binomial count with mean `e`).
fn bernstein_t(e: f64, alpha: f64) -> f64 {
    let l = (2.0 / alpha).ln();
    l / 3.0 + (l * l / 9.0 + 2.0 * e * l).sqrt()
}

fn parity(n: usize) -> &'static str {
    if n % 2 == 1 {
        "odd"
    } else {
        "even"
    }
}

/// (a) Every (resample, slot) → position cell of a fixed small shape, pooled over `calls` seeded calls.
fn cell_census_shape(rep: &mut Report, rng: &mut Rng, len: usize, nb: usize, calls: usize) {
    let regime = if len == 1 { "cells:len=1".to_string() } else { format!("cells:{}-len:{}-n_bootstrap", parity(len), parity(nb)) };
    let d = make_data(rng, len, Class::Distinct);
    let slots = nb * len;
    let mut counts = vec![0u32; slots * len];
    let mut not_counted = 0u64;
    for _ in 0..calls {
        rep.case(&regime);
        alea::set_seed(rng.u64() | 1);
        match guard(|| bootstrap(&d.x, nb)) {
            Ok(out) if out.len() == nb && out.iter().all(|r| r.len() == len) => {
                for (s, &v) in out.iter().flatten().enumerate() {
                    match d.decode(v) {
                        Some(p) => counts[s * len + p] += 1,
                        None => not_counted += 1,
                    }
                }
            }
            _ => not_counted += 1,
        }
    }
    if not_counted > 0 {
        // panic / count / length / membership failures are judged (and reported) by the per-case checks
        rep.note_add("census.calls_or_values_not_counted", not_counted as f64);
        return;
    }
    rep.seen("cover:bootstrap:cells", 1);
    let e = calls as f64 / len as f64;
    let cells = (slots * len) as f64;
    let slot_counts = |s: usize| counts[s * len..(s + 1) * len].to_vec();
    let head = |obs: Value| json!({"fn": "bootstrap", "data": jf(&d.x), "len": len, "n_bootstrap": nb, "calls_pooled": calls, "alea_seed": "fresh per call, drawn from the case seed", "expected_count_per_cell": e, "observed": obs});
    // never drawn
    if e >= 200.0 {
        let zero = counts.iter().position(|&c| c == 0);
        rep.check("C19.bootstrap.cell_never_drawn", &regime, zero.is_none(), || {
            let z = zero.unwrap();
            let (s, p) = (z / len, z % len);
            head(json!({"resample": s / len, "slot": s % len, "data_position_never_drawn": p, "position_counts_of_that_slot": slot_counts(s), "false_alarm_bound": cells * (-e).exp()}))
        });
    }
    if len < 2 {
        return;
    }
    let mut failures: Vec<Value> = Vec::new();
    // largest cell deviation, Bonferroni over all cells
    let t = bernstein_t(e, ALPHA / cells);
    let (mut worst, mut at) = (0.0f64, 0usize);
    for (i, &c) in counts.iter().enumerate() {
        let dev = (c as f64 - e).abs();
        if dev > worst {
            worst = dev;
            at = i;
        }
    }
    rep.note_max("worst_ratio.bootstrap.cells.max_deviation(dev/threshold)", worst / t);
    if worst > t {
        let s = at / len;
        failures.push(json!({"test": "largest cell deviation (Bernstein bound, Bonferroni over cells, alpha 1e-12)", "resample": s / len, "slot": s % len, "data_position": at % len, "count": counts[at], "expected": e, "threshold_abs_deviation": t, "position_counts_of_that_slot": slot_counts(s)}));
    }
    // Pearson over all cells: every slot is a multinomial over `len` positions
    if e >= 16.0 {
        let stat: f64 = counts.iter().map(|&c| (c as f64 - e) * (c as f64 - e) / e).sum();
        let dof = (slots * (len - 1)) as f64;
        let pv = chi2_sf(stat, dof);
        rep.note_max("worst.bootstrap.cells.chi2(-log10 p)", -pv.max(1e-300).log10());
        if !(pv >= ALPHA) {
            // the slot that contributes most
            let by_slot: Vec<f64> = (0..slots).map(|s| counts[s * len..(s + 1) * len].iter().map(|&c| (c as f64 - e) * (c as f64 - e) / e).sum()).collect();
            let s = (0..slots).max_by(|&a, &b| by_slot[a].partial_cmp(&by_slot[b]).unwrap()).unwrap();
            failures.push(json!({"test": "chi2 over all (resample, slot, position) cells", "stat": stat, "dof": dof, "p": pv, "largest_contribution": {"resample": s / len, "slot": s % len, "chi2_of_slot": by_slot[s], "position_counts": slot_counts(s)}}));
        }
    }
    rep.check("C19.bootstrap.cell_uniform", &regime, failures.is_empty(), || head(json!({"failed": failures})));
}

fn cell_census(cfg: &Cfg, rep: &mut Report) {
    if cfg.miri() {
        return; // no χ² oracle under Miri, and 1e6 library calls are out of reach there
    }
    // tiny shapes: len 1..=6 × n_bootstrap 1..=4, all parities; E = calls/len >= 6 666 (quick)
    let calls = cfg.pick(40_000, 400_000, 600);
    // medium shapes: len 7..=64, n_bootstrap 1..=5, the four parity classes in turn; E = 400 / 1000
    let n_medium = cfg.pick(8, 32, 1);
    let per_len = cfg.pick(400, 1000, 50);
    par_cases(cfg, rep, 3, 24 + n_medium, |i, rng, rep| {
        if i < 24 {
            cell_census_shape(rep, rng, i / 4 + 1, i % 4 + 1, calls);
        } else {
            let len = 7 + 2 * rng.usize(0, 28) + (i % 2); // 7..=64, parity by case index
            let nb = if (i / 2) % 2 == 0 { *rng.choose(&[1usize, 3, 5]) } else { *rng.choose(&[2usize, 4]) }; // parity by case index
            cell_census_shape(rep, rng, len, nb, per_len * len);
        }
    });
}

/// (b) Position frequencies at large lengths, pooled over enough calls to see relative biases of a few per cent.
///
/// Power. Alternative "a quarter of the positions carries 3 % less weight than the rest" (a 16-bit lane
/// mapped by multiply-shift onto 2000 positions gives 464 positions 32 and 1536 positions 33 of the
/// 65536 lane values): the relative deviations from 1/len are −2.25 % on 1/4 and +0.75 % on 3/4 of the
/// positions, so the Pearson statistic over positions gains the non-centrality
///     λ = N · (0.25 · 0.0225² + 0.75 · 0.0075²) = 1.69e-4 · N
/// over its null mean len − 1. With N = 3.2e7 pooled draws (quick) at len = 2000: λ = 5400; the 1e-12
/// critical value is 1999 + 478 = 2477 (Wilson–Hilferty, z = 7.03); under the alternative the statistic
/// is 7399 ± sqrt(2·1999 + 4λ) = 160, i.e. 30 sd above the critical value — miss probability < 1e-190.
/// The same N at len 1500 (44 vs 43 lane values: λ = 1.12e-4 N = 3580, 24 sd) and at len 1000 (66 vs 65,
/// a 1.5 % imbalance: λ = 5.8e-5 N = 1860, 15 sd). N = 4e6 would leave only 2 sd at len 2000, hence 3.2e7.
/// Thorough pools 2e8 draws per length (λ = 33 800 at len 2000; a 1.2 % imbalance on a quarter of the
/// positions is then still 30 sd out). The max-deviation test is the complement for a bias concentrated
/// on few positions: it fires when one position is off by more than sqrt(2 L / E) relative,
/// L = ln(2·len/1e-12) = 36: 6.7 % at E = N/len = 1.6e4 (quick, len 2000), 2.7 % at E = 1e5 (thorough).
fn position_census(cfg: &Cfg, rep: &mut Report) {
    if cfg.miri() {
        return;
    }
    use std::sync::Mutex;
    let draws_per_len: usize = cfg.pick(32_000_000, 200_000_000, 100_000);
    // 16 chunks per length (one per worker), 200 resamples per call = the largest count of the property's
    // quantifier; sanitizer layers: one short call per length
    let (chunks, nb) = if cfg.lite { (1usize, 20usize) } else { (16usize, 200usize) };
    // fixed lengths where a 16-bit (or coarser) lattice is most visible, plus lengths drawn per seed
    let mut lens: Vec<usize> = vec![1000, 1500, 2000];
    {
        let mut r = Rng::new(crate::report::case_seed(cfg.seed, 4, u64::MAX));
        lens.push(2 * r.usize(300, 999) + 1); // odd, 601..=1999
        lens.push(r.usize(1025, 2000));
        lens.push(r.usize(600, 2000));
    }
    let pools: Vec<Mutex<(Vec<u64>, u64)>> = lens.iter().map(|&n| Mutex::new((vec![0u64; n], 0u64))).collect();
    par_cases(cfg, rep, 4, lens.len() * chunks, |i, rng, rep| {
        let li = i / chunks;
        let n = lens[li];
        let calls = (draws_per_len / chunks).div_ceil(nb * n).max(1);
        let d = make_data(rng, n, Class::Distinct);
        let mut local = vec![0u64; n];
        let mut not_counted = 0u64;
        for _ in 0..calls {
            rep.case("positions:len>=600");
            let call_seed = rng.u64() | 1;
            alea::set_seed(call_seed);
            match guard(|| bootstrap(&d.x, nb)) {
                Ok(out) => {
                    for &v in out.iter().flatten() {
                        match d.decode(v) {
                            Some(p) => local[p] += 1,
                            None => not_counted += 1,
                        }
                    }
                    // the same calls, resample by resample (jobs of len x 200 draws: the top of the quantifier)
                    row_structure(rep, &d, &out, "positions:len>=600", Some(call_seed));
                }
                Err(_) => not_counted += 1,
            }
        }
        let mut g = pools[li].lock().unwrap();
        for (a, b) in g.0.iter_mut().zip(&local) {
            *a += b;
        }
        g.1 += not_counted;
    });
    for (li, &n) in lens.iter().enumerate() {
        let g = pools[li].lock().unwrap();
        let (counts, not_counted) = (&g.0, g.1);
        let total: u64 = counts.iter().sum();
        if not_counted > 0 || total == 0 {
            rep.note_add("census.calls_or_values_not_counted", not_counted as f64);
            continue;
        }
        let regime = "positions:len>=600";
        rep.seen("cover:bootstrap:positions", 1);
        let e = total as f64 / n as f64;
        let mut failures: Vec<Value> = Vec::new();
        let t = bernstein_t(e, ALPHA / n as f64);
        let (mut worst, mut at) = (0.0f64, 0usize);
        for (i, &c) in counts.iter().enumerate() {
            let dev = (c as f64 - e).abs();
            if dev > worst {
                worst = dev;
                at = i;
            }
        }
        rep.note_max("worst_ratio.bootstrap.positions.max_deviation(dev/threshold)", worst / t);
        if worst > t {
            failures.push(json!({"test": "largest position deviation (Bernstein bound, Bonferroni over positions, alpha 1e-12)", "position": at, "count": counts[at], "expected": e, "z": (counts[at] as f64 - e) / e.sqrt(), "threshold_abs_deviation": t}));
        }
        if e >= 16.0 {
            let stat: f64 = counts.iter().map(|&c| (c as f64 - e) * (c as f64 - e) / e).sum();
            let pv = chi2_sf(stat, (n - 1) as f64);
            rep.note_max("worst.bootstrap.positions.chi2(-log10 p)", -pv.max(1e-300).log10());
            if !(pv >= ALPHA) {
                // summary that makes a lattice visible: positions sorted by count, lowest and highest decile means
                let mut sorted: Vec<u64> = counts.clone();
                sorted.sort_unstable();
                let dec = (n / 10).max(1);
                let lo = sorted[..dec].iter().sum::<u64>() as f64 / dec as f64;
                let hi = sorted[n - dec..].iter().sum::<u64>() as f64 / dec as f64;
                failures.push(json!({"test": "chi2 over positions", "stat": stat, "dof": n - 1, "p": pv, "mean_count_lowest_decile/expected": lo / e, "mean_count_highest_decile/expected": hi / e, "sd_of_a_count/expected": 1.0 / e.sqrt()}));
            }
        }
        rep.check("C19.bootstrap.position_frequencies", regime, failures.is_empty(), || {
            json!({"fn": "bootstrap", "data": "a random permutation of 0.25, 1.25, ..., len-0.75 per chunk", "chunks": chunks, "len": n, "n_bootstrap": nb, "draws_pooled": total, "alea_seed": "fresh per call, drawn from the case seeds of stream 4",
                   "observed": {"failed": failures, "counts_first": counts[..32]}})
        });
    }
}

// ---------------------------------------------------------------------------------------------
// "every random stream": fault injection on the library generator

/// bootstrap / shuffle / shuffle_two (and the jackknife, which must not care) under generator states
/// whose (k+1)-th raw word has an extreme 32-bit half. All ordinary per-call checks apply.
fn inject_family(cfg: &Cfg, rep: &mut Report) {
    use crate::gen::{adversarial_seed, ADVERSARIAL_ALEA};
    let fixed: &[usize] = if cfg.miri() { &[1, 2, 5] } else { &[1, 2, 3, 5, 16, 100, 255, 256, 257, 1000, 1024, 1500, 1999, 2000] };
    let n_random = cfg.pick(10, 100, 0);
    par_cases(cfg, rep, 5, fixed.len() + n_random, |i, rng, rep| {
        let n = if i < fixed.len() { fixed[i] } else { rng.usize(2, 2000) };
        let class = match i % 8 {
            6 => Class::Repeated,
            7 => Class::Special,
            _ => Class::Distinct,
        };
        let d = make_data(rng, n, class);
        let states: &[(&str, u64)] = if cfg.miri() { &ADVERSARIAL_ALEA[..2] } else { ADVERSARIAL_ALEA };
        for (si, &(_, state)) in states.iter().enumerate() {
            let nb = 1 + (si + i) % 3;
            // positions of the extreme word: the first six words of the call, and two anywhere inside it
            // (bootstrap consumes nb*n words, the shuffles 4n: two indices per transposition)
            let mut ks: Vec<(u64, u64)> = (0..if cfg.miri() { 2 } else { 6 }).map(|k| (k, k)).collect();
            if !cfg.miri() && n >= 2 {
                for _ in 0..2 {
                    ks.push((rng.usize(0, nb * n - 1) as u64, rng.usize(0, 4 * n - 1) as u64));
                }
            }
            for (kb, ksh) in ks {
                check_bootstrap(rep, &d, nb, adversarial_seed(state, kb), "inject:");
                check_shuffle(rep, &d, adversarial_seed(state, ksh), false, "inject:");
                check_shuffle_two(rep, &d, adversarial_seed(state, ksh), "inject:");
            }
        }
        alea::set_seed(adversarial_seed(states[i % states.len()].1, 0));
        check_jackknife(rep, &d, "inject:");
    });
}

// ---------------------------------------------------------------------------------------------
// "one common permutation", over many calls at the top of the length range

fn pair_census(cfg: &Cfg, rep: &mut Report) {
    let chunks = cfg.pick(64, 640, 1);
    let calls_per_chunk = if cfg.miri() { 2 } else { 1024 };
    par_cases(cfg, rep, 6, chunks, |i, rng, rep| {
        let independent = i % 4 == 3;
        let regime = if independent { "pairs:len>=1000:independent-perms" } else { "pairs:len>=1000:anti-monotone" };
        let mut seen: Vec<bool> = Vec::new();
        for c in 0..calls_per_chunk {
            let n = if cfg.miri() {
                16
            } else if c % 2 == 0 {
                2000
            } else {
                rng.usize(1000, 2000)
            };
            rep.case(regime);
            // value = tag + 0.25 (x) / tag + 0.5 (y); position of x-tag t is xpos[t]
            let (x, y, xpos): (Vec<f64>, Vec<f64>, Vec<usize>) = if independent {
                let (px, py) = (rng.perm(n), rng.perm(n));
                let mut xpos = vec![0; n];
                for (j, &t) in px.iter().enumerate() {
                    xpos[t] = j;
                }
                (px.iter().map(|&t| t as f64 + 0.25).collect(), py.iter().map(|&t| t as f64 + 0.5).collect(), xpos)
            } else {
                ((0..n).map(|j| j as f64 + 0.25).collect(), (0..n).map(|j| (n - j) as f64 + 0.5).collect(), (0..n).collect())
            };
            let seed = rng.u64() | 1;
            let head = |obs: Value| json!({"fn": "shuffle_two", "len": n, "x": if independent { jf(&x) } else { json!("j + 0.25, j = 0..len") }, "y": if independent { jf(&y) } else { json!("len - j + 0.5, j = 0..len") }, "alea_seed": seed, "observed": obs});
            alea::set_seed(seed);
            let (ox, oy) = match guard(|| shuffle_two(&x, &y)) {
                Err(msg) => {
                    rep.check("C19.shuffle_two.no_panic", regime, false, || head(json!({"panic": msg})));
                    continue;
                }
                Ok(o) => o,
            };
            rep.check("C19.shuffle_two.no_panic", regime, true, || json!(null));
            // every output slot names the input position it came from (x); each position exactly once; y follows
            seen.clear();
            seen.resize(n, false);
            let mut lost = ox.len() != n || oy.len() != n;
            let mut unpaired: Option<(usize, usize)> = None;
            if !lost {
                for j in 0..n {
                    let t = ox[j] - 0.25;
                    if !(t >= 0.0 && t < n as f64 && t.fract() == 0.0) || seen[xpos[t as usize]] {
                        lost = true;
                        break;
                    }
                    let src = xpos[t as usize];
                    seen[src] = true;
                    if oy[j].to_bits() != y[src].to_bits() && unpaired.is_none() {
                        unpaired = Some((j, src));
                    }
                }
            }
            let y_multiset = lost || unpaired.is_none() || bits_sorted(&oy) == bits_sorted(&y);
            rep.check("C19.shuffle_two.multiset", regime, !lost && y_multiset, || head(json!({"out_len": [ox.len(), oy.len()], "what": "an output is not a permutation of its input"})));
            rep.check("C19.shuffle_two.pairing", regime, lost || unpaired.is_none(), || {
                let (j, src) = unpaired.unwrap();
                head(json!({"first_unpaired_slot": j, "out_x": ox[j], "out_y": oy[j], "x_came_from_input_position": src, "its_partner_was": y[src],
                            "slots_with_wrong_partner": (0..n).filter(|&q| oy[q].to_bits() != y[xpos[(ox[q] - 0.25) as usize]].to_bits()).count()}))
            });
        }
    });
}

// ---------------------------------------------------------------------------------------------
// the top corner of the quantifier: lengths up to 2000 x up to 200 resamples in ONE call
//
// Work that is split by size (blocks of rows, chunks of draws, a parallel path above some number of
// draws) only exists up here, and its edges (a last partial block, the first call above a threshold) are
// functions of BOTH factors: n_bootstrap walks every residue modulo 32 just below 200, lengths sit at
// and around the round values and at the places where len · n_bootstrap crosses a power of two
// (2^15 .. 2^18: the draws of a job are the natural unit of such thresholds). Every job gets the full
// per-call treatment of `check_bootstrap` (count, lengths, membership, pooled uniformity, and the
// resample-by-resample structure); every fourth also the jackknife and both shuffles at that length,
// with the gross-bias check (every position moves within 64 shuffles) that the ordinary cases only run
// up to length 200.
fn corner_jobs(cfg: &Cfg, rng: &mut Rng) -> Vec<(usize, usize)> {
    if cfg.miri() {
        return vec![(24, 3)];
    }
    let mut jobs: Vec<(usize, usize)> = Vec::new();
    // every residue of n_bootstrap modulo 32 at the top, lengths at the top
    for q in 0..32usize {
        let nb = 200 - q;
        let len = match q % 4 {
            0 => 2000,
            1 => rng.usize(1900, 2000),
            2 => *rng.choose(&[1999usize, 1500, 1024, 1536, 1800]),
            _ => rng.usize(1311, 2000),
        };
        jobs.push((len, nb));
    }
    // the places where len * n_bootstrap crosses a power of two
    for k in 15..=18u32 {
        for nb in [200usize, 199, 193, 150, 128, 100, 77] {
            let len = (1usize << k).div_ceil(nb);
            if (2..=2000).contains(&len) {
                jobs.push((len, nb)); // first length at or above 2^k draws
                jobs.push((len - 1, nb)); // last one below
            }
        }
    }
    // anywhere in the upper half of both ranges
    let extra = cfg.pick(12, 200, 0);
    for _ in 0..extra {
        jobs.push((rng.usize(1000, 2000), rng.usize(100, 200)));
    }
    if cfg.lite {
        jobs = jobs.into_iter().step_by(10).collect();
    }
    jobs
}

fn corner_family(cfg: &Cfg, rep: &mut Report) {
    let jobs = corner_jobs(cfg, &mut Rng::new(crate::report::case_seed(cfg.seed, 7, u64::MAX)));
    par_cases(cfg, rep, 7, jobs.len(), |i, rng, rep| {
        let (n, nb) = jobs[i];
        let class = match i % 16 {
            7 => Class::Repeated,
            15 => Class::Special,
            _ => Class::Distinct,
        };
        let d = make_data(rng, n, class);
        let seed = rng.u64() | 1;
        rep.distinct(Hasher::new().s("corner").fs(&d.x).u(nb as u64).u(seed).finish(), true);
        rep.seen(&format!("cover:corner:n_bootstrap mod 16 = {}", nb % 16), 1);
        if n * nb >= 1 << 18 {
            rep.seen("cover:corner:draws>=2^18", 1);
        }
        check_bootstrap(rep, &d, nb, seed, "corner:");
        if i % 4 == 0 {
            check_jackknife(rep, &d, "corner:");
            check_shuffle(rep, &d, seed ^ 0x5555, true, "corner:");
            check_shuffle_two(rep, &d, seed ^ 0xAAAA, "corner:");
        }
    });
}

pub fn run(cfg: &Cfg, rep: &mut Report) {
    rep.rule = "per case: length n from {1, 2, 3..10, 11..100, 101..2000, 2000, 1..64, 1..2000}, data class (tagged distinct values = random permutation of 0..n plus 0.25; repeated values from a pool of <= 4; special values ±0, ±inf, NaN, subnormals with ties), 1..200 resamples, own alea seed; bootstrap, jackknife, shuffle and shuffle_two are each run and checked. non-trivial = n >= 2; distinct by (data bits, n_bootstrap, seed). Fault injection: lengths 1, 2, 3, 5, 16, 100, 255..257, 1000, 1024, 1500, 1999, 2000 and 10 (100) random, 8 adversarial alea states x word position 0..5 and two random positions inside the call, all four functions with the per-call checks. Pairing census: 64 (640) chunks x 1024 seeded shuffle_two calls, lengths 2000 (every second call) and 1000..=2000, x increasing / y decreasing (3 chunks of 4) or independent permutations. Corner family: one call per job, jobs = n_bootstrap 169..=200 (every residue modulo 32) x lengths 1311..2000 (2000, 1999, 1800, 1536, 1500, 1024 and random), the two lengths on either side of len*n_bootstrap = 2^15..2^18 for n_bootstrap in {200, 199, 193, 150, 128, 100, 77}, and 12 (200) random jobs in 1000..2000 x 100..200; full per-call checks, every fourth job also jackknife / shuffle (64 repeats: every position moves) / shuffle_two. Resample-by-resample structure (every call on position-tagged data, including the 200-resample calls of the position census): fixed points, distinct positions, agreement of consecutive resamples, identical resamples, resamples identical to the data".into();
    rep.assume("length 0 is outside the quantifier (\"every length from 1 upward\")");
    rep.assume("shuffle uniformity is not part of the property (only 'a permutation of its input'): outcome frequencies for n <= 4 are recorded as evidence; asserted is only gross bias (an outcome that never occurs in >= 2e4 shuffles, a position that never changes in 64 shuffles)");
    rep.assume("bootstrap uniformity is additionally tested on draws pooled over many calls of a fixed shape, alea re-seeded per call: (a) every (resample, slot) -> position cell for len 1..=6 x n_bootstrap 1..=4 (4e4 calls per shape quick, 4e5 thorough) and for 8 (32) shapes with len 7..=64, n_bootstrap 1..=5 in all parity classes (400 (1000) x len calls): no cell empty when its expected count is >= 200 (false alarm < 1e-80), largest cell deviation within the Bernstein bound at 1e-12 Bonferroni-corrected over the cells (rigorous), chi2 over all cells at 1e-12; (b) position frequencies at len 1000, 1500, 2000 and three lengths in 600..2000 drawn per seed, 3.2e7 (2e8) draws pooled per length from calls with 200 resamples: largest position deviation within the Bernstein bound at 1e-12 Bonferroni-corrected over the positions, chi2 over positions at 1e-12 (power: a 3 % weight deficit on a quarter of the positions at len 2000 lies 30 sd beyond the critical value)");
    rep.assume("fault injection reaches raw generator words with an all-ones / all-zero 32-bit half at a chosen position of the call (the 8 states of gen::ADVERSARIAL_ALEA); other rare words are not injected");
    rep.assume("pairing census: exact per-call check, no statistics; a defect unpairing a call with probability q is missed with probability (1-q)^65536 in the quick tier (q = 5e-4: 6e-15)");
    rep.assume("bootstrap index uniformity is tested on the pooled draws of one call: DKW band and χ² (bins with expected count >= 16, by contiguous index blocks and by residue classes) at α = 1e-12 each, plus 'every index drawn' when n·exp(−expected) < 1e-12");
    rep.assume("resample-by-resample structure of a bootstrap call on position-tagged data, each assertion with a false-alarm probability <= 1e-12 per call under independent uniform positions: (fixed_points) max over resamples of the number of slots j holding position j below the smallest k with n_bootstrap/k! <= 1e-12 (P(Binomial(len,1/len) >= k) <= 1/k!), and the total over the call inside the two-sided Chernoff bound for Binomial(len*n_bootstrap, 1/len) at 0.5e-12 per side; (distinct_positions) every resample within sqrt(len/2 * ln(2*n_bootstrap/1e-12)) of len(1-(1-1/len)^len) (McDiarmid); (repeated) consecutive resamples agree in fewer than k slots (same bound as fixed points), no two resamples identical and no resample identical to the data where n_bootstrap^2/2 * len^-len (n_bootstrap * len^-len) <= 1e-12");
    let n_cases = cfg.pick(400, 10_000, 4);
    par_cases(cfg, rep, 1, n_cases, |i, rng, rep| {
        let n = match i % 8 {
            0 => 1,
            1 => 2,
            2 => rng.usize(3, 10),
            3 => rng.usize(11, 100),
            4 => rng.usize(101, 2000),
            5 => *rng.choose(&[2000usize, 1024, 1000, 255, 256, 257]),
            6 => rng.usize(1, 64),
            _ => rng.usize(1, 2000),
        };
        let class = match if cfg.lite { [0, 1, 3, 4][i % 4] } else { (i / 8) % 5 } {
            0..=2 => Class::Distinct,
            3 => Class::Repeated,
            _ => Class::Special,
        };
        // 1..200 resamples; small n get many so that the statistical checks have power
        let nb = match (i / 40) % 4 {
            0 => rng.usize(1, 3),
            1 => rng.usize(150, 200),
            _ => rng.usize(1, 200),
        };
        let d = make_data(rng, n, class);
        let seed = rng.u64() | 1;
        rep.distinct(Hasher::new().s("c19").fs(&d.x).u(nb as u64).u(seed).finish(), n >= 2);
        check_bootstrap(rep, &d, nb, seed, "");
        check_jackknife(rep, &d, "");
        check_shuffle(rep, &d, seed ^ 0x5555, n <= 200, "");
        check_shuffle_two(rep, &d, seed ^ 0xAAAA, "");
        if i < 6 {
            rep.sample(|| json!({"len": n, "class": regime_of(&d), "n_bootstrap": nb, "alea_seed": seed, "data_first": jf(&d.x[..n.min(8)])}));
        }
    });
    permutation_census(cfg, rep);
    cell_census(cfg, rep);
    position_census(cfg, rep);
    inject_family(cfg, rep);
    pair_census(cfg, rep);
    corner_family(cfg, rep);
    rep.require("cover:bootstrap:rows", 1);
    rep.require("corner:len>=2:distinct", 1);
    if !cfg.lite {
        rep.require("corner:len>=2:distinct", 60);
        rep.require("cover:corner:draws>=2^18", 20); // 31..41 observed over 40 seeds (the random jobs vary)
        rep.require("cover:bootstrap:rows:identical-pairs-decidable", 60);
        for r in 0..16 {
            rep.require(&format!("cover:corner:n_bootstrap mod 16 = {}", r), 2);
        }
        for f in ["jackknife", "shuffle", "shuffle_two"] {
            rep.require(&format!("cover:{}:corner:len>=2:distinct", f), 1);
        }
    }
    for r in ["inject:len=1", "inject:len>=2:distinct"] {
        for f in ["bootstrap", "jackknife", "shuffle", "shuffle_two"] {
            rep.require(&format!("cover:{}:{}", f, r), 1);
        }
    }
    rep.require("pairs:len>=1000:anti-monotone", 1);
    if !cfg.lite {
        for r in ["inject:len>=2:repeated", "inject:len>=2:special"] {
            rep.require(r, 1);
        }
        rep.require("pairs:len>=1000:anti-monotone", 40_000);
        rep.require("pairs:len>=1000:independent-perms", 10_000);
    }
    for r in ["len=1", "len>=2:distinct", "len>=2:repeated", "len>=2:special"] {
        rep.require(r, 1);
        for f in ["bootstrap", "jackknife", "shuffle", "shuffle_two"] {
            rep.require(&format!("cover:{}:{}", f, r), 1);
        }
    }
    if !cfg.lite {
        rep.require("cover:bootstrap:chi2", 1);
        rep.require("cover:bootstrap:all-indices-hit", 1);
        rep.require("cover:bootstrap:cells", 24);
        rep.require("cover:bootstrap:positions", 6);
    }
}
