//! C13 — autocorrelation, AR fitting and forecasting are consistent (DESIGN §3 C13).
//!
//! Events: every `acovf`, `acf`, `difference`, `AR::fit`, `AR::predict`, `AR::predict_one` call
//! (value or panic). Oracle: biased-estimator definitions in double-double with a-priori rounding
//! bounds; Yule–Walker residual and Levinson–Durbin (double-double) for the fit; a reference
//! forecaster `μ + Σ φ_i (x_{t−i} − μ)` for the forecasts; the metamorphic relation
//! `predict(x + c) = predict(x) + c`; decay to the mean.
//!
//! Besides ordinary AR / trend / noise series the workload contains series close to the boundary of
//! stationarity (`smooth:*` regimes, see `gen_smooth`): lag-1 sample autocorrelations above 0.9995 and
//! partial autocorrelations close to ±1, i.e. nearly singular Yule–Walker systems, fitted at every
//! order 1..8 and judged by the same conditioning-aware bounds (orders whose Toeplitz matrix is too
//! ill-conditioned for any f64 solver to be judged are counted under `fit:low-power`; the labels
//! `boundary-judged:*` count the fits that were judged and are required).
//!
//! Mean handling is the mechanism the property is anchored in, so every forecast assertion is
//! evaluated under one of two regimes: `mean==0` (the fitted intercept is *exactly* 0: the series
//! lives on a 2^-20 grid and was centred in integer arithmetic) and `mean!=0`. A second, weaker
//! assertion (`…reference_or_rawmodel`) accepts either the reference or the one known deviating
//! model ("recursion on the raw history, intercept added at the end"), so that a finding under
//! `…reference|mean!=0` cannot hide a different breakage on the same inputs.
use crate::gen::Rng;
use crate::oracle::dd::{self, gamma_n, Dd, U};
use crate::oracle::linref;
use crate::report::{guard, jf, jnum, par_cases, same_bits, Cfg, Hasher, Report};
use compute::timeseries::{acf, acovf, difference, AR};
use serde_json::json;

const GRID: f64 = 1048576.0; // 2^20: every series value is a multiple of 2^-20
const EPS: f64 = f64::EPSILON;
const H: usize = 1000;

// ---------------------------------------------------------------------------------------------
// generators

/// Durbin–Levinson: partial autocorrelations in (−1,1) → coefficients of a stationary AR(p).
fn pacf_to_phi(pacf: &[f64]) -> Vec<f64> {
    let mut phi: Vec<f64> = Vec::new();
    for (k, &a) in pacf.iter().enumerate() {
        let mut new = vec![0.0; k + 1];
        for j in 0..k {
            new[j] = phi[j] - a * phi[k - 1 - j];
        }
        new[k] = a;
        phi = new;
    }
    phi
}

struct Series {
    kind: &'static str,
    off: &'static str,
    x: Vec<f64>,
}

fn gen_series(rng: &mut Rng, lite: bool) -> Series {
    let nmax = if lite { 300.0 } else { 5000.0 };
    let n = rng.log_range(10.0, nmax).round() as usize;
    let kind = *rng.choose(&["ar", "ar", "ar+trend", "const+noise"]);
    // innovation scale: mostly 0.1..100, sometimes down to 1e-3 so that, with offsets up to 1e6, the
    // spread is as small as 1e-9 of the level (still far above the 2^-20 grid and f64 resolution)
    let s = if rng.chance(0.25) { rng.log_range(1e-3, 0.1) } else { rng.log_range(0.1, 100.0) };
    let mut x: Vec<f64> = match kind {
        "const+noise" => (0..n).map(|_| s * rng.normal()).collect(),
        _ => {
            let p = rng.usize(1, 6);
            let lim = if rng.chance(0.2) { 0.98 } else { 0.85 };
            let pacf: Vec<f64> = (0..p).map(|_| rng.range(-lim, lim)).collect();
            let phi = pacf_to_phi(&pacf);
            let burn = 300;
            let mut y = vec![0.0; p];
            for _ in 0..burn + n {
                let l = y.len();
                let mut v = rng.normal();
                for i in 0..p {
                    v += phi[i] * y[l - 1 - i];
                }
                y.push(v);
            }
            let l = y.len();
            y[l - n..].iter().map(|v| s * v).collect()
        }
    };
    if kind == "ar+trend" {
        let slope = s * rng.log_range(1e-3, 1.0) * if rng.bool() { 1.0 } else { -1.0 };
        for (t, v) in x.iter_mut().enumerate() {
            *v += slope * t as f64;
        }
    }
    let (off, x) = place(rng, &x, s, &["mean==0", "offset-small", "offset-large", "offset-large"]);
    Series { kind, off, x }
}

/// Put the series on the 2^-20 grid, centre it exactly (integer arithmetic) and add an offset of the
/// drawn class (also on the grid).
fn place(rng: &mut Rng, x: &[f64], s: f64, offs: &[&'static str]) -> (&'static str, Vec<f64>) {
    let n = x.len();
    let off = *rng.choose(offs);
    let mut u: Vec<i64> = x.iter().map(|v| (v * GRID).round() as i64).collect();
    // centre exactly in integer units, then add the offset (also on the grid)
    let sum: i64 = u.iter().sum();
    let q = sum.div_euclid(n as i64);
    let r = sum.rem_euclid(n as i64) as usize;
    for (i, v) in u.iter_mut().enumerate() {
        *v -= q + if i < r { 1 } else { 0 };
    }
    let shift = match off {
        "mean==0" => 0.0,
        "offset-small" => rng.range(-10.0, 10.0) * s.max(1.0),
        _ => rng.log_range(1e2, 1e6) * if rng.bool() { 1.0 } else { -1.0 },
    };
    let su = (shift * GRID).round() as i64;
    let x: Vec<f64> = u.iter().map(|&v| (v + su) as f64 / GRID).collect();
    (off, x)
}

/// Convolve the factors (1 − a_1 B − a_2 B²) of an AR polynomial: returns φ_1..φ_p.
fn poly_from_factors(f: &[(f64, f64)]) -> Vec<f64> {
    // c = coefficients of the polynomial in B, c[0] = 1
    let mut c = vec![1.0];
    for &(a1, a2) in f {
        let fac: &[f64] = if a2 == 0.0 { &[1.0, -a1] } else { &[1.0, -a1, -a2] };
        let mut nc = vec![0.0; c.len() + fac.len() - 1];
        for (i, ci) in c.iter().enumerate() {
            for (j, fj) in fac.iter().enumerate() {
                nc[i + j] += ci * fj;
            }
        }
        c = nc;
    }
    c[1..].iter().map(|v| -v).collect()
}

fn simulate_ar(rng: &mut Rng, phi: &[f64], burn: usize, n: usize) -> Vec<f64> {
    let p = phi.len();
    let mut y = vec![0.0; p];
    for _ in 0..burn + n {
        let l = y.len();
        let mut v = rng.normal();
        for i in 0..p {
            v += phi[i] * y[l - 1 - i];
        }
        y.push(v);
    }
    y.split_off(y.len() - n)
}

const SMOOTH_KINDS: [&str; 4] = ["smooth:near-unit-roots", "smooth:smoothed-noise", "smooth:slow-trend+noise", "smooth:narrow-band"];

/// Series close to the boundary of stationarity, i.e. with nearly singular Yule–Walker systems:
/// all of them are stationary AR output / trends plus noise inside the length range of the
/// quantifier, but smooth enough that the lag-1 sample autocorrelation (or a later partial
/// autocorrelation) comes within 1e-3..1e-6 of 1.
///   * `near-unit-roots`    AR(2..6) whose roots all lie at 0.95..0.999 (real, optionally one complex
///                          pair at a small angle), long burn-in;
///   * `smoothed-noise`     white noise passed 2..4 times through a moving average (band-limited);
///   * `slow-trend+noise`   1..3 sinusoids with 0.3..4 cycles over the whole series (+ optional
///                          drift) plus white noise of 1e-3..3e-2 of the trend's sd: the noise floor
///                          keeps the Toeplitz matrix well enough conditioned to judge every order;
///   * `narrow-band`        AR(2) with complex roots of modulus 1−1e-5..1−1e-3 at a generic angle plus
///                          a small white-noise floor: |pacf(2)| close to 1.
/// Lengths sit at the long end of the range (3 of 4 in [0.4·nmax, nmax]).
fn gen_smooth(rng: &mut Rng, lite: bool) -> Series {
    let nmax: usize = if lite { 300 } else { 5000 };
    let n = if rng.chance(0.75) { rng.usize(2 * nmax / 5, nmax) } else { rng.log_range(nmax as f64 / 25.0, nmax as f64).round() as usize };
    let kind = *rng.choose(&SMOOTH_KINDS);
    let s = rng.log_range(0.1, 100.0);
    let tau = std::f64::consts::TAU;
    let mut y: Vec<f64> = match kind {
        "smooth:near-unit-roots" => {
            let p = rng.usize(2, 6);
            let mut fac: Vec<(f64, f64)> = Vec::new();
            let mut left = p;
            if p >= 2 && rng.chance(0.3) {
                let rho = 1.0 - rng.log_range(1e-3, 5e-2);
                let th = rng.log_range(1e-3, 5e-2);
                fac.push((2.0 * rho * th.cos(), -rho * rho));
                left -= 2;
            }
            for _ in 0..left {
                fac.push((1.0 - rng.log_range(1e-3, 5e-2), 0.0));
            }
            let phi = poly_from_factors(&fac);
            simulate_ar(rng, &phi, if lite { 2000 } else { 30000 }, n)
        }
        "smooth:smoothed-noise" => {
            let m = rng.usize(2, 4);
            let ws: Vec<usize> = (0..m).map(|_| rng.usize((n / 100).max(4), (n / 12).max(8))).collect();
            let total: usize = ws.iter().sum();
            let mut v = rng.normals(n + total);
            for &w in &ws {
                let mut acc = 0.0;
                let mut out = Vec::with_capacity(v.len() - w);
                for i in 0..v.len() {
                    acc += v[i];
                    if i >= w {
                        acc -= v[i - w];
                        out.push(acc / w as f64);
                    }
                }
                v = out;
            }
            v.truncate(n);
            v
        }
        "smooth:slow-trend+noise" => {
            let k = rng.usize(1, 3);
            let comps: Vec<(f64, f64, f64)> = (0..k).map(|_| (rng.range(0.3, 1.0), tau * rng.range(0.3, 4.0) / n as f64, rng.range(0.0, tau))).collect();
            let drift = if rng.bool() { rng.range(-2.0, 2.0) / n as f64 } else { 0.0 };
            let tr: Vec<f64> = (0..n).map(|t| comps.iter().map(|&(a, w, ph)| a * (w * t as f64 + ph).sin()).sum::<f64>() + drift * t as f64).collect();
            let m = tr.iter().sum::<f64>() / n as f64;
            let sd = (tr.iter().map(|v| (v - m) * (v - m)).sum::<f64>() / n as f64).sqrt();
            let rel = rng.log_range(1e-3, 3e-2);
            tr.iter().map(|v| v + rel * sd * rng.normal()).collect()
        }
        _ => {
            // any generic angle; 2 of 5 near a quarter of the sampling rate, where the biased estimator
            // lets |pacf(2)| of a finite series come closest to 1 (1 − 2/n)
            let w = if rng.chance(0.4) { rng.range(1.45, 1.70) } else { rng.range(0.2, 2.9) };
            let r = 1.0 - rng.log_range(1e-5, 1e-3);
            let phi = [2.0 * r * w.cos(), -r * r];
            let v = simulate_ar(rng, &phi, if lite { 2000 } else { 50000 }, n);
            let m = v.iter().sum::<f64>() / n as f64;
            let sd = (v.iter().map(|a| (a - m) * (a - m)).sum::<f64>() / n as f64).sqrt();
            let rel = rng.log_range(1e-3, 1e-2);
            v.iter().map(|a| a + rel * sd * rng.normal()).collect()
        }
    };
    // unit sample sd, then the drawn scale
    let m = y.iter().sum::<f64>() / n as f64;
    let sd = (y.iter().map(|v| (v - m) * (v - m)).sum::<f64>() / n as f64).sqrt();
    let f = if sd > 0.0 && sd.is_finite() { s / sd } else { 1.0 };
    for v in y.iter_mut() {
        *v = (*v - m) * f;
    }
    let (off, x) = place(rng, &y, s, &["mean==0", "offset-small", "offset-small", "offset-large"]);
    Series { kind, off, x }
}

// ---------------------------------------------------------------------------------------------
// double-double definitions

struct Defs {
    n: usize,
    mean: Dd,
    d: Vec<Dd>,
    c0: f64,
    /// a-priori bound on |acovf_f64(k) − acovf(k)| valid for every lag
    b_acov: f64,
}

fn defs(x: &[f64]) -> Defs {
    let n = x.len();
    let mean = dd::mean(x);
    let d: Vec<Dd> = x.iter().map(|&v| Dd::new(v) - mean).collect();
    let nf = n as f64;
    let c0 = acov_ref(&d, 0).f();
    let meanabs = x.iter().map(|v| v.abs()).sum::<f64>() / nf;
    let maxd = d.iter().fold(0.0f64, |m, v| m.max(v.f().abs()));
    let dbar = d.iter().map(|v| v.f().abs()).sum::<f64>() / nf;
    // error of the computed mean (any summation order) and of each centred value
    let delta = (nf + 2.0) * U * meanabs;
    let dp = delta + U * (maxd + delta);
    let pert = 2.0 * dp * dbar + dp * dp;
    // ×4: headroom over the first-order worst case (second-order terms, rounding of the bound itself)
    let b_acov = 4.0 * (pert + gamma_n(n + 3) * (c0 + pert));
    Defs { n, mean, d, c0, b_acov }
}

fn acov_ref(d: &[Dd], k: usize) -> Dd {
    let n = d.len();
    if k >= n {
        return Dd::ZERO;
    }
    let mut s = Dd::ZERO;
    for i in k..n {
        s = s + d[i] * d[i - k];
    }
    s / Dd::new(n as f64)
}

/// Levinson–Durbin in double-double: r[0..=p] → φ_1..φ_p.
fn levinson(r: &[Dd], p: usize) -> Vec<Dd> {
    let mut phi: Vec<Dd> = Vec::new();
    let mut v = r[0];
    for k in 1..=p {
        let mut acc = r[k];
        for j in 1..k {
            acc = acc - phi[j - 1] * r[k - j];
        }
        let a = acc / v;
        let mut new = phi.clone();
        for j in 1..k {
            new[j - 1] = phi[j - 1] - a * phi[k - 1 - j];
        }
        new.push(a);
        phi = new;
        v = v * (Dd::ONE - a * a);
    }
    phi
}

/// Partial autocorrelations (reflection coefficients) 1..=p of the autocorrelation sequence r.
fn pacf_dd(r: &[Dd], p: usize) -> Vec<f64> {
    (1..=p).map(|k| levinson(r, k)[k - 1].f()).collect()
}

// ---------------------------------------------------------------------------------------------
// forecasters (phi[i] multiplies the value i+1 steps back)

/// `centre` = value subtracted from the history before and added after the recursion
/// (reference: the intercept; raw-history model: 0 before, intercept after).
fn forecast_dd(phi: &[f64], hist: &[f64], sub: f64, add: f64, h: usize) -> Vec<f64> {
    let p = phi.len();
    let mut c: Vec<Dd> = hist[hist.len() - p..].iter().map(|&v| Dd::new(v) - Dd::new(sub)).collect();
    let mut out = Vec::with_capacity(h);
    for _ in 0..h {
        let l = c.len();
        let mut w = Dd::ZERO;
        for i in 0..p {
            w = w + c[l - 1 - i] * phi[i];
        }
        c.push(w);
        out.push((w + Dd::new(add)).f());
    }
    out
}

/// Divergence of the plain f64 recursion from one with a relative perturbation of 4ε injected
/// into every new value (running maximum): the self-calibrated part of the tolerance.
fn calibrate(phi: &[f64], hist: &[f64], mu: f64, h: usize, rng: &mut Rng) -> Vec<f64> {
    let p = phi.len();
    let mut a: Vec<f64> = hist[hist.len() - p..].iter().map(|&v| v - mu).collect();
    let mut b = a.clone();
    let mut out = Vec::with_capacity(h);
    let mut run = 0.0f64;
    for _ in 0..h {
        let l = a.len();
        let (mut wa, mut wb) = (0.0, 0.0);
        for i in 0..p {
            wa += a[l - 1 - i] * phi[i];
            wb += b[l - 1 - i] * phi[i];
        }
        wb *= 1.0 + 4.0 * EPS * if rng.bool() { 1.0 } else { -1.0 };
        a.push(wa);
        b.push(wb);
        let d = (wa - wb).abs();
        if d > run || d.is_nan() {
            run = d;
        }
        out.push(run);
    }
    out
}

fn worst(got: &[f64], reference: &[f64], tol: &[f64]) -> (f64, usize) {
    let mut w = 0.0f64;
    let mut at = 0;
    if got.len() != reference.len() {
        return (f64::INFINITY, 0);
    }
    for i in 0..got.len() {
        let e = (got[i] - reference[i]).abs();
        let r = if e.is_nan() { f64::INFINITY } else { e / tol[i] };
        if r > w {
            w = r;
            at = i;
        }
    }
    (w, at)
}

// ---------------------------------------------------------------------------------------------
// monitors

fn check_acf(rep: &mut Report, regime: &str, x: &[f64], df: &Defs) {
    let n = df.n as i32;
    let mut lags: Vec<i32> = (-50..=50).collect();
    lags.extend_from_slice(&[n - 1, -(n - 1), n, -n, n + 1, -(n + 1), 5000, -5000, 100_000]);
    let detail = |what: &str, k: i32, obs: f64, exp: f64, bound: f64| json!({"fn": what, "lag": k, "n": x.len(), "series": jf(x), "observed": jnum(obs), "expected": jnum(exp), "bound": jnum(bound)});
    let b_acf = if df.b_acov < 0.25 * df.c0 { 2.0 * df.b_acov / (df.c0 - df.b_acov) + 4.0 * U } else { f64::INFINITY };
    if !b_acf.is_finite() {
        rep.seen("acf:low-power(offset/sd too large for an a-priori bound)", 1);
    }
    let c0dd = acov_ref(&df.d, 0);
    for &k in &lags {
        let r = guard(|| (acovf(x, k), acf(x, k)));
        let (cv, rv) = match r {
            Ok(v) => {
                rep.check("C13.acf.no_panic", regime, true, || json!(null));
                v
            }
            Err(msg) => {
                rep.check("C13.acf.no_panic", regime, false, || json!({"lag": k, "n": x.len(), "series": jf(x), "panic": msg}));
                continue;
            }
        };
        let ka = k.unsigned_abs() as usize;
        let cref = acov_ref(&df.d, ka);
        let e = (Dd::new(cv) - cref).f().abs();
        let ratio = if e == 0.0 { 0.0 } else { e / df.b_acov };
        rep.note_max("worst_ratio.acovf_vs_bound", if ratio.is_nan() { f64::INFINITY } else { ratio });
        rep.check("C13.acovf.definition", regime, ratio <= 1.0, || detail("acovf", k, cv, cref.f(), df.b_acov));
        let rref = if ka >= df.n { 0.0 } else { (cref / c0dd).f() };
        if b_acf.is_finite() {
            let e = (rv - rref).abs();
            let ratio = if e == 0.0 { 0.0 } else { e / b_acf };
            rep.note_max("worst_ratio.acf_vs_bound", if ratio.is_nan() { f64::INFINITY } else { ratio });
            rep.check("C13.acf.definition", regime, ratio <= 1.0, || detail("acf", k, rv, rref, b_acf));
        }
        // |acf| ≤ 1: Cauchy–Schwarz holds for the centred values as computed; only the two sums round
        rep.check("C13.acf.bounded", regime, rv.abs() <= 1.0 + 4.0 * EPS, || detail("acf", k, rv, rref, 1.0 + 4.0 * EPS));
        if k == 0 {
            rep.note_max("worst.acf0_minus_1_in_eps", (rv - 1.0).abs() / EPS);
            rep.check("C13.acf.lag0_is_one", regime, (rv - 1.0).abs() <= 4.0 * EPS, || detail("acf", 0, rv, 1.0, 4.0 * EPS));
        }
        if k > 0 {
            let r2 = guard(|| (acovf(x, -k), acf(x, -k)));
            if let Ok((c2, r2)) = r2 {
                rep.check("C13.acovf.even", regime, same_bits(cv, c2), || detail("acovf(-k)", -k, c2, cv, 0.0));
                rep.check("C13.acf.even", regime, same_bits(rv, r2), || detail("acf(-k)", -k, r2, rv, 0.0));
            }
        }
    }
}

fn check_difference(rep: &mut Report, regime: &str, x: &[f64], rng: &mut Rng) {
    // (a) integer-valued grid data: the cumulative sums are exact, so the round trip must be bit-exact
    let v: Vec<f64> = x.to_vec();
    let mut cs = Vec::with_capacity(v.len());
    let mut s = Dd::ZERO;
    let mut exact = true;
    for &a in &v {
        s = s + Dd::new(a);
        if s.lo != 0.0 {
            exact = false;
        }
        cs.push(s.f());
    }
    let got = guard(|| difference(cs.clone()));
    match got {
        Err(msg) => {
            rep.check("C13.difference.no_panic", regime, false, || json!({"input": jf(&cs), "panic": msg}));
        }
        Ok(d) => {
            let len_ok = d.len() == v.len() - 1;
            rep.check("C13.difference.length", regime, len_ok, || json!({"input_len": cs.len(), "output_len": d.len()}));
            if len_ok {
                let mut w = 0.0f64;
                let mut at = 0;
                for i in 0..d.len() {
                    let tol = if exact { 0.0 } else { 16.0 * EPS * (cs[i].abs() + cs[i + 1].abs()) };
                    let e = (d[i] - v[i + 1]).abs();
                    let r = if e <= tol { if tol > 0.0 { e / tol } else { 0.0 } } else { f64::INFINITY };
                    if r > w {
                        w = r;
                        at = i;
                    }
                }
                if !exact {
                    rep.note_max("worst_ratio.difference_roundtrip", w);
                }
                let a = if exact { "C13.difference.inverse_of_cumsum.exact" } else { "C13.difference.inverse_of_cumsum" };
                rep.check(a, regime, w <= 1.0, || json!({"v": jf(&v), "cumsum": jf(&cs), "index": at, "observed": jnum(d[at]), "expected": jnum(v[at + 1])}));
            }
        }
    }
    // (b) generic doubles (not on the grid): rounding of the cumulative sum is bounded by ε|s|
    let m = v.len().min(200);
    let g: Vec<f64> = (0..m).map(|i| v[i] * (1.0 + rng.f64()) + rng.normal() * 1e-3).collect();
    let mut cs = Vec::with_capacity(m);
    let mut s = Dd::ZERO;
    for &a in &g {
        s = s + Dd::new(a);
        cs.push(s.f());
    }
    if let Ok(d) = guard(|| difference(cs.clone())) {
        if d.len() == m - 1 {
            let mut w = 0.0f64;
            let mut at = 0;
            for i in 0..d.len() {
                let tol = 16.0 * EPS * (cs[i].abs() + cs[i + 1].abs());
                let e = (d[i] - g[i + 1]).abs();
                let r = if e == 0.0 { 0.0 } else { e / tol };
                if r > w || r.is_nan() {
                    w = if r.is_nan() { f64::INFINITY } else { r };
                    at = i;
                }
            }
            rep.note_max("worst_ratio.difference_roundtrip", w);
            rep.check("C13.difference.inverse_of_cumsum", regime, w <= 1.0, || json!({"v": jf(&g), "cumsum": jf(&cs), "index": at, "observed": jnum(d[at]), "expected": jnum(g[at + 1])}));
        } else {
            rep.check("C13.difference.length", regime, false, || json!({"input_len": m, "output_len": d.len()}));
        }
    }
}

struct Fit {
    phi: Vec<f64>, // natural order φ_1..φ_p
    mu: f64,
    kappa: f64,
    /// the coefficients were compared with the Yule–Walker solution (a-priori bound <= 1e-3)
    judged: bool,
}

fn fit_and_check(rep: &mut Report, regime: &str, x: &[f64], df: &Defs, p: usize) -> Option<(AR, Fit)> {
    let fitted = guard(|| {
        let mut m = AR::new(p);
        m.fit(x);
        m
    });
    let m = match fitted {
        Ok(m) => {
            rep.check("C13.fit.no_panic", regime, true, || json!(null));
            m
        }
        Err(msg) => {
            rep.check("C13.fit.no_panic", regime, false, || json!({"p": p, "series": jf(x), "panic": msg}));
            return None;
        }
    };
    let f = judge_fit(rep, regime, x, df, p, &m)?;
    Some((m, f))
}

/// The full oracle for a model object `m` that has just been fitted on `x` at order `p` (however the object came
/// to be: fresh or fitted on something else before).
fn judge_fit(rep: &mut Report, regime: &str, x: &[f64], df: &Defs, p: usize, m: &AR) -> Option<Fit> {
    let shape_ok = m.coeffs.len() == p;
    rep.check("C13.fit.order", regime, shape_ok, || json!({"p": p, "coeffs": jf(&m.coeffs)}));
    if !shape_ok {
        return None;
    }
    // intercept = mean
    let nf = df.n as f64;
    let meanabs = x.iter().map(|v| v.abs()).sum::<f64>() / nf;
    let tol_mu = 2.0 * (nf + 2.0) * U * meanabs;
    let e = (Dd::new(m.intercept) - df.mean).f().abs();
    let r = if e == 0.0 { 0.0 } else { e / tol_mu };
    rep.note_max("worst_ratio.intercept_vs_bound", if r.is_nan() { f64::INFINITY } else { r });
    rep.check("C13.fit.intercept_is_mean", regime, r <= 1.0, || json!({"p": p, "series": jf(x), "observed": jnum(m.intercept), "expected": jnum(df.mean.f()), "bound": tol_mu}));
    let phi: Vec<f64> = m.coeffs.iter().rev().copied().collect();
    // Yule–Walker with the double-double autocorrelations of the series
    let c0 = acov_ref(&df.d, 0);
    let r_dd: Vec<Dd> = (0..=p).map(|k| acov_ref(&df.d, k) / c0).collect();
    let rf: Vec<f64> = r_dd.iter().map(|v| v.f()).collect();
    let mut toep = vec![0.0; p * p];
    for i in 0..p {
        for j in 0..p {
            toep[i * p + j] = rf[i.abs_diff(j)];
        }
    }
    let kappa = linref::cond_inf(&toep, p);
    let eta = if df.b_acov < 0.25 * df.c0 { 2.0 * df.b_acov / (df.c0 - df.b_acov) + 4.0 * U } else { f64::INFINITY };
    let l1: f64 = phi.iter().map(|v| v.abs()).sum();
    let fwd = kappa * (8.0 * p as f64 * EPS + 2.0 * eta) * (1.0 + l1);
    let judged = fwd <= 1e-3;
    if !judged {
        // the a-priori bound says nothing here: do not judge the coefficients
        rep.seen("fit:low-power(kappa*eps too large)", 1);
    } else {
        let mut res = 0.0f64;
        for i in 0..p {
            let mut s = -r_dd[i + 1];
            for j in 0..p {
                s = s + r_dd[i.abs_diff(j)] * phi[j];
            }
            let a = s.f().abs();
            res = if a.is_nan() { f64::INFINITY } else { res.max(a) };
        }
        let tol_res = (8.0 * p as f64 * EPS * kappa + 2.0 * eta) * (1.0 + l1);
        rep.note_max("worst_ratio.yule_walker_residual", res / tol_res);
        rep.check("C13.fit.yule_walker", regime, res <= tol_res, || json!({"p": p, "series": jf(x), "acf": jf(&rf), "phi": jf(&phi), "residual_inf": jnum(res), "bound": tol_res, "kappa": jnum(kappa)}));
        let ld: Vec<f64> = levinson(&r_dd, p).iter().map(|v| v.f()).collect();
        let mut werr = 0.0f64;
        for i in 0..p {
            let a = (phi[i] - ld[i]).abs();
            werr = if a.is_nan() { f64::INFINITY } else { werr.max(a) };
        }
        let l1ref: f64 = ld.iter().map(|v| v.abs()).sum();
        let fwd_ref = kappa * (8.0 * p as f64 * EPS + 2.0 * eta) * (1.0 + l1ref);
        rep.note_max("worst_ratio.coeffs_vs_levinson", werr / fwd_ref);
        rep.check("C13.fit.levinson", regime, werr <= fwd_ref, || json!({"p": p, "series": jf(x), "phi": jf(&phi), "levinson": jf(&ld), "bound": fwd_ref, "kappa": jnum(kappa)}));
    }
    let mu = m.intercept;
    Some(Fit { phi, mu, kappa, judged })
}

/// All forecast assertions for one fitted model on one history. Returns the library's forecasts.
fn check_forecasts(rep: &mut Report, m: &AR, f: &Fit, x: &[f64], sd: f64, rng: &mut Rng, full: bool) -> Option<Vec<f64>> {
    let p = f.phi.len();
    let regime = if f.mu == 0.0 { "mean==0" } else { "mean!=0" };
    rep.seen(regime, 1);
    let lib = match guard(|| m.predict(x, H)) {
        Ok(v) => {
            rep.check("C13.predict.no_panic", regime, true, || json!(null));
            v
        }
        Err(msg) => {
            rep.check("C13.predict.no_panic", regime, false, || json!({"p": p, "series": jf(x), "h": H, "panic": msg}));
            return None;
        }
    };
    let len_ok = lib.len() == H;
    rep.check("C13.predict.length", regime, len_ok, || json!({"h": H, "len": lib.len()}));
    if !len_ok {
        return None;
    }
    let reference = forecast_dd(&f.phi, x, f.mu, f.mu, H);
    let raw = forecast_dd(&f.phi, x, 0.0, f.mu, H);
    let cal = calibrate(&f.phi, x, f.mu, H, rng);
    let amp = x[x.len() - p..].iter().fold(sd, |a, &v| a.max((v - f.mu).abs()));
    let base = 1e-9 * (f.mu.abs() + amp);
    let tol: Vec<f64> = cal.iter().map(|c| base + 1e3 * c).collect();
    let low_power = !(1e3 * cal[H - 1] <= 1e-6 * amp);
    if low_power {
        rep.seen("predict:low-power(recursion amplifies rounding)", 1);
    }
    let (w_ref, at) = worst(&lib, &reference, &tol);
    let (w_raw, _) = worst(&lib, &raw, &tol);
    let detail = |h: usize| json!({"p": p, "coeffs_reversed": jf(&m.coeffs), "intercept": jnum(f.mu), "history_tail": jf(&x[x.len() - p..]), "n": x.len(), "horizon": h + 1,
        "observed": jnum(lib[h]), "expected": jnum(reference[h]), "tolerance": tol[h], "first_forecasts_observed": jf(&lib[..5.min(H)]), "first_forecasts_expected": jf(&reference[..5.min(H)])});
    if f.mu == 0.0 {
        rep.note_max("worst_ratio.predict_vs_reference(mean==0)", w_ref);
    } else if w_ref <= 1.0 {
        rep.note_max("worst_ratio.predict_vs_reference(mean!=0,passing)", w_ref);
    }
    rep.note_max("worst_ratio.predict_vs_reference_or_rawmodel", w_ref.min(w_raw));
    rep.check("C13.predict.reference", regime, w_ref <= 1.0, || detail(at));
    rep.check("C13.predict.reference_or_rawmodel", regime, w_ref.min(w_raw) <= 1.0, || detail(at));
    // shorter horizons are prefixes of the long one (each h is a separate call)
    let hs: Vec<usize> = if full { (1..=H).collect() } else { vec![1, 2, 3, p, p + 1, rng.usize(4, 50), rng.usize(51, H - 1)] };
    let mut prefix_ok = true;
    let mut bad_h = 0;
    for &h in &hs {
        match guard(|| m.predict(x, h)) {
            Ok(v) => {
                if v.len() != h || !v.iter().zip(&lib).all(|(a, b)| same_bits(*a, *b)) {
                    prefix_ok = false;
                    bad_h = h;
                }
            }
            Err(_) => {
                prefix_ok = false;
                bad_h = h;
            }
        }
    }
    rep.check("C13.predict.horizon_prefix", regime, prefix_ok, || json!({"p": p, "n": x.len(), "h": bad_h, "what": "predict(data,h) is not the first h values of predict(data,1000)"}));
    // predict_one on several history lengths
    let mut ms = vec![x.len(), x.len() - 1];
    ms.push(rng.usize(p, x.len()));
    for mlen in ms {
        if mlen < p {
            continue;
        }
        let hist = &x[..mlen];
        let r1 = forecast_dd(&f.phi, hist, f.mu, f.mu, 1)[0];
        let raw1 = forecast_dd(&f.phi, hist, 0.0, 0.0, 1)[0]; // Σ φ_i x_{t−i}, no intercept at all
        let amp1 = hist[mlen - p..].iter().fold(sd, |a, &v| a.max((v - f.mu).abs()));
        let t1 = 1e-9 * (f.mu.abs() + amp1);
        match guard(|| m.predict_one(hist)) {
            Ok(v) => {
                let e = (v - r1).abs() / t1;
                let e = if e.is_nan() { f64::INFINITY } else { e };
                let e2 = (v - raw1).abs() / t1;
                let e2 = if e2.is_nan() { f64::INFINITY } else { e2 };
                if f.mu == 0.0 {
                    rep.note_max("worst_ratio.predict_one_vs_reference(mean==0)", e);
                }
                let d = || json!({"p": p, "coeffs_reversed": jf(&m.coeffs), "intercept": jnum(f.mu), "history_tail": jf(&hist[mlen - p..]), "observed": jnum(v), "expected": jnum(r1), "tolerance": t1});
                rep.check("C13.predict_one.reference", regime, e <= 1.0, d);
                rep.check("C13.predict_one.reference_or_rawmodel", regime, e.min(e2) <= 1.0, d);
            }
            Err(msg) => {
                rep.check("C13.predict_one.no_panic", regime, false, || json!({"p": p, "history_len": mlen, "panic": msg}));
            }
        }
    }
    // decay to the mean
    let decayed = (reference[H - 1] - f.mu).abs() <= 1e-9 * sd;
    if decayed {
        rep.seen(&format!("decay-checked:{}", regime), 1);
        let dev = (lib[H - 1] - f.mu).abs();
        let t = 1e-6 * sd + 4.0 * EPS * f.mu.abs();
        rep.note_max(if f.mu == 0.0 { "worst_ratio.decay(mean==0)" } else { "worst_ratio.decay(mean!=0)" }, dev / t);
        rep.check("C13.predict.decay_to_mean", regime, dev <= t, || json!({"p": p, "coeffs_reversed": jf(&m.coeffs), "intercept": jnum(f.mu), "history_tail": jf(&x[x.len() - p..]), "forecast_1000": jnum(lib[H - 1]), "reference_1000": jnum(reference[H - 1]), "tolerance": t}));
    }
    Some(lib)
}

fn one_series(cfg: &Cfg, rng: &mut Rng, rep: &mut Report) {
    let s = gen_series(rng, cfg.lite);
    let regime = format!("{}:{}", s.kind, s.off);
    series_pipeline(cfg, rng, rep, &regime, &s.x);
}

// ---------------------------------------------------------------------------------------------
// series with exact coincidences in their order statistics and moments
//
// Levels relative to their peak (x − max x, drawdowns), levels above their floor (x − min x), censored
// and intermittent data (exact zeros of either sign), counts and negated counts, peak-normalised series
// (extreme value exactly ±1 or a power of two), antisymmetric series (mean exactly 0), series with
// max = −min, strictly one-signed series. All transformations are done in integer units of the 2^-20
// grid, so every value (and every shifted value) is exact and the double-double definitions are the
// only reference: the whole pipeline of an ordinary series runs on each of them.

const COINC: [&str; 10] = [
    "coincidence:max==0(x-max)",
    "coincidence:min==0(x-min)",
    "coincidence:drawdown-from-running-extreme",
    "coincidence:extreme==+-2^k",
    "coincidence:antisymmetric(mean==0,max==-min)",
    "coincidence:max==-min",
    "coincidence:exact-zeros(+0/-0)",
    "coincidence:censored-at-0",
    "coincidence:integer-counts",
    "coincidence:strictly-one-signed",
];

/// base series in integer units of 2^-20: stationary AR(1..3), white noise, AR + linear trend
fn base_units(rng: &mut Rng, n: usize) -> (&'static str, Vec<i64>) {
    let kind = *rng.choose(&["ar", "ar", "noise", "ar+trend"]);
    let s = if rng.chance(0.25) { rng.log_range(1e-2, 0.1) } else { rng.log_range(0.1, 100.0) };
    let mut v: Vec<f64> = if kind == "noise" {
        (0..n).map(|_| s * rng.normal()).collect()
    } else {
        let p = rng.usize(1, 3);
        let pacf: Vec<f64> = (0..p).map(|_| rng.range(-0.85, 0.85)).collect();
        simulate_ar(rng, &pacf_to_phi(&pacf), 300, n).iter().map(|a| s * a).collect()
    };
    if kind == "ar+trend" {
        let slope = s * rng.log_range(1e-3, 0.3) * if rng.bool() { 1.0 } else { -1.0 };
        for (t, a) in v.iter_mut().enumerate() {
            *a += slope * t as f64;
        }
    }
    (kind, v.iter().map(|a| (a * GRID).round() as i64).collect())
}

fn gen_coincidence(rng: &mut Rng, class: usize, nmax: usize) -> (&'static str, Vec<f64>) {
    let n = rng.log_range(10.0, nmax as f64).round() as usize;
    let g = GRID as i64;
    let mut negzero = false;
    let (kind, z): (&'static str, Vec<i64>) = match class {
        0 => {
            let (k, u) = base_units(rng, n);
            let m = *u.iter().max().unwrap();
            negzero = rng.chance(0.3);
            (k, u.iter().map(|v| v - m).collect())
        }
        1 => {
            let (k, u) = base_units(rng, n);
            let m = *u.iter().min().unwrap();
            negzero = rng.chance(0.3);
            (k, u.iter().map(|v| v - m).collect())
        }
        2 => {
            // distance from the running peak (<= 0) or from the running trough (>= 0) of a persistent series
            let phi = [if rng.bool() { 1.0 } else { rng.range(0.8, 0.99) }];
            let s = rng.log_range(0.1, 30.0);
            let w: Vec<i64> = simulate_ar(rng, &phi, 0, n).iter().map(|a| (s * a * GRID).round() as i64).collect();
            let up = rng.bool();
            let mut run = w[0];
            negzero = rng.chance(0.3);
            (
                if phi[0] == 1.0 { "random-walk" } else { "persistent-ar1" },
                w.iter()
                    .map(|&v| {
                        run = if up { run.min(v) } else { run.max(v) };
                        v - run
                    })
                    .collect(),
            )
        }
        3 => {
            let (k, u) = base_units(rng, n);
            let top = rng.bool();
            let e = if top { *u.iter().max().unwrap() } else { *u.iter().min().unwrap() };
            let target = (if rng.bool() { 1 } else { -1 }) * if rng.chance(0.4) { g } else { g >> 3 << rng.usize(0, 15) };
            (k, u.iter().map(|v| v - e + target).collect())
        }
        4 => {
            let (k, u) = base_units(rng, n / 2);
            let mut z = u.clone();
            if n % 2 == 1 {
                z.push(0);
            }
            z.extend(u.iter().rev().map(|v| -v));
            negzero = rng.chance(0.3);
            (k, z)
        }
        5 => {
            let (k, u) = base_units(rng, n);
            let (lo, hi) = (*u.iter().min().unwrap(), *u.iter().max().unwrap());
            (k, u.iter().map(|v| 2 * v - (lo + hi)).collect())
        }
        6 => {
            let (k, u) = base_units(rng, n);
            let q = *rng.choose(&[0.05, 0.2, 0.5]);
            negzero = true;
            (k, u.iter().map(|&v| if rng.chance(q) { 0 } else { v }).collect())
        }
        7 => {
            let (k, u) = base_units(rng, n);
            let m = u.iter().sum::<i64>() / n as i64;
            let below = rng.bool();
            negzero = rng.chance(0.5);
            (k, u.iter().map(|&v| if below { (v - m).min(0) } else { (v - m).max(0) }).collect())
        }
        8 => {
            let lam = *rng.choose(&[0.5, 2.0, 10.0, 200.0]);
            let sign = if rng.bool() { 1 } else { -1 };
            negzero = rng.chance(0.3);
            ("counts", (0..n).map(|_| sign * g * rng.poisson(lam) as i64).collect())
        }
        _ => {
            let (k, u) = base_units(rng, n);
            let delta = if rng.bool() { 1 } else { (rng.log_range(1e-3, 1e3) * GRID) as i64 + 1 };
            if rng.bool() {
                let m = *u.iter().max().unwrap();
                (k, u.iter().map(|v| v - m - delta).collect())
            } else {
                let m = *u.iter().min().unwrap();
                (k, u.iter().map(|v| v - m + delta).collect())
            }
        }
    };
    let x: Vec<f64> = z.iter().map(|&v| if v == 0 && negzero && rng.bool() { -0.0 } else { v as f64 / GRID }).collect();
    (kind, x)
}

fn one_coincidence(cfg: &Cfg, rng: &mut Rng, rep: &mut Report, class: usize) {
    let nmax = if cfg.lite { 300 } else { 5000 };
    let mut tries = 0;
    let (kind, x) = loop {
        let (kind, x) = gen_coincidence(rng, class, nmax);
        tries += 1;
        if x.iter().any(|v| *v != x[0]) || tries >= 20 {
            break (kind, x);
        }
    };
    if !x.iter().any(|v| *v != x[0]) {
        rep.inconclusive(format!("coincidence generator: constant series in class {}", COINC[class]));
        return;
    }
    let (lo, hi) = x.iter().fold((f64::INFINITY, f64::NEG_INFINITY), |(l, h), &v| (l.min(v), h.max(v)));
    let sum: f64 = dd::sum(&x).f();
    for (c, label) in [
        (hi == 0.0, "series:max==0"),
        (lo == 0.0, "series:min==0"),
        (hi == -lo, "series:max==-min"),
        (sum == 0.0, "series:sum==0"),
        (hi < 0.0, "series:all-negative"),
        (lo > 0.0, "series:all-positive"),
        (hi == 0.0 && lo < 0.0, "series:nonpositive-touching-0"),
        (lo == 0.0 && hi > 0.0, "series:nonnegative-touching-0"),
        (x.iter().any(|v| *v == 0.0 && v.is_sign_negative()), "series:contains--0.0"),
        (x.iter().all(|v| v.fract() == 0.0), "series:integer-valued"),
        (hi.abs().log2().fract() == 0.0 || lo.abs().log2().fract() == 0.0, "series:extreme-is-power-of-two"),
    ] {
        if c {
            rep.seen(label, 1);
        }
    }
    rep.seen(&format!("coincidence-base:{}", kind), 1);
    series_pipeline(cfg, rng, rep, COINC[class], &x);
}

// ---------------------------------------------------------------------------------------------
// refits of one model object on related series
//
// "A fitted AR model's coefficients solve the Yule–Walker equations of the series' autocorrelations": of the
// series it was fitted on last, whatever the object was fitted on before. The second series of a refit is related
// to the first one the way series are in surrogate-data / permutation tests, rolling windows and order-selection
// loops: same length and bit-identical mean (permutation, two values swapped, reversal, reflection about the
// mean, block shuffle, shuffled tail), same length only (independent series, redrawn tail), same mean only (other
// length), shared prefix with another length (truncated, extended). Everything is built in integer units of the
// 2^-20 grid with |sum| < 2^53 units, so sums are exact in any order and "bit-identical mean" is a fact that is
// checked on the fitted intercepts of two fresh objects (and counted under a required label), not assumed.
// Sequence per case: object fitted on A, refitted on B, refitted on A again; after each refit the object is
// compared bit for bit with a fresh object fitted on that series only and goes through the full fit oracle
// (order, intercept, Yule–Walker residual, Levinson–Durbin) and the forecast oracle.

const REFIT_KINDS: [&str; 10] = [
    "refit:same-length+same-mean:permutation",
    "refit:same-length+same-mean:swap-two",
    "refit:same-length+same-mean:reversal",
    "refit:same-length+same-mean:reflection-about-mean",
    "refit:same-length+same-mean:block-shuffle",
    "refit:same-length+same-mean:shared-prefix(tail-shuffled)",
    "refit:same-length-only:independent",
    "refit:same-length-only:shared-prefix(tail-redrawn)",
    "refit:same-mean-only:other-length",
    "refit:shared-prefix:other-length",
];

/// base series in units, centred exactly (sum == n·su afterwards)
fn centred_units(rng: &mut Rng, n: usize, su: i64) -> Vec<i64> {
    let (_, mut u) = base_units(rng, n);
    let sum: i64 = u.iter().sum();
    let q = sum.div_euclid(n as i64);
    let r = sum.rem_euclid(n as i64) as usize;
    for (i, v) in u.iter_mut().enumerate() {
        *v += su - q - if i < r { 1 } else { 0 };
    }
    u
}

/// offset in units: 0, small, or 1e2..1e5 (|value| < 2^18, so |sum| < 2^51 units for n <= 5000)
fn offset_units(rng: &mut Rng) -> i64 {
    match rng.usize(0, 2) {
        0 => 0,
        1 => (rng.range(-10.0, 10.0) * GRID).round() as i64,
        _ => (rng.log_range(1e2, 1e5) * GRID).round() as i64 * if rng.bool() { 1 } else { -1 },
    }
}

fn same_model(a: &AR, b: &AR) -> bool {
    a.coeffs.len() == b.coeffs.len() && a.coeffs.iter().zip(&b.coeffs).all(|(x, y)| same_bits(*x, *y)) && same_bits(a.intercept, b.intercept)
}

fn one_refit(cfg: &Cfg, rng: &mut Rng, rep: &mut Report, which: usize) {
    let kind = REFIT_KINDS[which];
    let nmax = if cfg.lite { 300.0 } else { 5000.0 };
    let n = rng.log_range(16.0, nmax).round() as usize;
    let p = rng.usize(1, 8);
    let su = offset_units(rng);
    let g = GRID as i64;
    let claims_same_mean = kind.contains("same-mean");
    // first series: centred base + offset; for the rearrangements also raw counts (mean not a grid value)
    let counts = matches!(which, 0 | 1 | 2 | 4 | 5) && rng.chance(0.3);
    let a: Vec<i64> = if counts {
        let lam = *rng.choose(&[0.5, 2.0, 10.0, 200.0]);
        (0..n).map(|_| g * rng.poisson(lam) as i64).collect()
    } else {
        centred_units(rng, n, su)
    };
    let b: Vec<i64> = match which {
        0 => {
            let mut v = a.clone();
            rng.shuffle(&mut v);
            v
        }
        1 => {
            let mut v = a.clone();
            for _ in 0..50 {
                let (i, j) = (rng.usize(0, n - 1), rng.usize(0, n - 1));
                if v[i] != v[j] {
                    v.swap(i, j);
                    break;
                }
            }
            v
        }
        2 => a.iter().rev().copied().collect(),
        3 => a.iter().map(|v| 2 * su - v).collect(),
        4 => {
            let l = rng.usize(2, (n / 4).max(2));
            let blocks: Vec<&[i64]> = a.chunks(l).collect();
            let order = rng.perm(blocks.len());
            order.iter().flat_map(|&i| blocks[i].iter().copied()).collect()
        }
        5 => {
            let k = rng.usize(n / 4, 3 * n / 4);
            let mut v = a.clone();
            rng.shuffle(&mut v[k..]);
            v
        }
        6 => {
            let mut su2 = offset_units(rng);
            if su2 == su {
                su2 += g;
            }
            centred_units(rng, n, su2)
        }
        7 => {
            let k = rng.usize(n / 4, 3 * n / 4);
            let (_, t) = base_units(rng, n - k);
            let mut v = a.clone();
            for (d, s) in v[k..].iter_mut().zip(&t) {
                *d = s + su + 1;
            }
            v
        }
        8 => {
            let mut n2 = rng.log_range(16.0, nmax).round() as usize;
            if n2 == n {
                n2 += 1;
            }
            centred_units(rng, n2, su)
        }
        _ => {
            if rng.bool() {
                a[..rng.usize((n / 2).max(10), n - 1)].to_vec()
            } else {
                let extra = rng.usize(1, n);
                let (_, t) = base_units(rng, extra);
                let mut v = a.clone();
                v.extend(t.iter().map(|s| s + su));
                v
            }
        }
    };
    let xa: Vec<f64> = a.iter().map(|&v| v as f64 / GRID).collect();
    let xb: Vec<f64> = b.iter().map(|&v| v as f64 / GRID).collect();
    rep.case(kind);
    rep.seen(&format!("refit-order:{}", p), 1);
    let (dfa, dfb) = (defs(&xa), defs(&xb));
    rep.distinct(Hasher::new().s(kind).u(p as u64).u(xa.len() as u64).u(xb.len() as u64).fs(&xa[..16]).fs(&xb[..10]).finish(), dfa.c0 > 0.0 && dfb.c0 > 0.0);
    // fresh objects (they go through the whole fit oracle as any other fit)
    let Some((fresh_a, _)) = fit_and_check(rep, kind, &xa, &dfa, p) else { return };
    let Some((fresh_b, _)) = fit_and_check(rep, kind, &xb, &dfb, p) else { return };
    // what the two series really share
    let same_len = xa.len() == xb.len();
    let same_mean = same_bits(fresh_a.intercept, fresh_b.intercept);
    let differ = a != b;
    if claims_same_mean && !same_mean {
        rep.inconclusive(format!("{}: the generator promised a bit-identical mean, fresh intercepts are {:e} and {:e}", kind, fresh_a.intercept, fresh_b.intercept));
        return;
    }
    // autocorrelations of the two series (double-double), lags 1..p: do the series differ where the fit looks?
    let racf = |df: &Defs| -> Vec<f64> { (1..=p).map(|k| (acov_ref(&df.d, k) / acov_ref(&df.d, 0)).f()).collect() };
    let acf_gap = racf(&dfa).iter().zip(racf(&dfb)).fold(0.0f64, |m, (x, y)| m.max((x - y).abs()));
    if differ {
        match (same_len, same_mean) {
            (true, true) => {
                rep.seen("refit:observed:same-length&bit-identical-mean&different-series", 1);
                if acf_gap > 1e-3 {
                    rep.seen("refit:observed:same-length&bit-identical-mean&acf-differs", 1);
                }
                if fresh_a.intercept != 0.0 {
                    rep.seen("refit:observed:same-length&bit-identical-mean!=0", 1);
                }
                if fresh_a.intercept * GRID != (fresh_a.intercept * GRID).round() {
                    rep.seen("refit:observed:same-length&bit-identical-mean-off-grid", 1);
                }
            }
            (true, false) => rep.seen("refit:observed:same-length&different-mean", 1),
            (false, true) => rep.seen("refit:observed:different-length&bit-identical-mean", 1),
            (false, false) => rep.seen("refit:observed:different-length&different-mean", 1),
        }
        let common = a.iter().zip(&b).take_while(|(x, y)| x == y).count();
        if common >= p + 1 {
            rep.seen("refit:observed:shared-prefix>p", 1);
        }
    }
    // one object: A, then B, then A again; each state against a fresh object and the oracle
    let detail = |step: &str, refit: &AR, fresh: &AR| json!({"kind": kind, "p": p, "sequence": step, "n_first": xa.len(), "n_second": xb.len(), "first_series": jf(&xa), "second_series": jf(&xb),
        "fresh_coeffs": jf(&fresh.coeffs), "refit_coeffs": jf(&refit.coeffs), "fresh_intercept": jnum(fresh.intercept), "refit_intercept": jnum(refit.intercept)});
    let ab = guard(|| {
        let mut m = AR::new(p);
        m.fit(&xa);
        m.fit(&xb);
        m
    });
    match ab {
        Ok(m) => {
            rep.check("C13.fit.refit_equals_fresh", kind, same_model(&m, &fresh_b), || detail("fit(first); fit(second)", &m, &fresh_b));
            if let Some(f) = judge_fit(rep, kind, &xb, &dfb, p, &m) {
                if f.phi.iter().all(|v| v.is_finite()) {
                    let _ = check_forecasts(rep, &m, &f, &xb, dfb.c0.sqrt(), rng, false);
                }
            }
        }
        Err(msg) => {
            rep.check("C13.fit.refit_equals_fresh", kind, false, || json!({"kind": kind, "p": p, "sequence": "fit(first); fit(second)", "panic": msg}));
        }
    }
    let aba = guard(|| {
        let mut m = AR::new(p);
        m.fit(&xa);
        m.fit(&xb);
        m.fit(&xa);
        m
    });
    match aba {
        Ok(m) => {
            rep.check("C13.fit.refit_equals_fresh", kind, same_model(&m, &fresh_a), || detail("fit(first); fit(second); fit(first)", &m, &fresh_a));
            let _ = judge_fit(rep, kind, &xa, &dfa, p, &m);
        }
        Err(msg) => {
            rep.check("C13.fit.refit_equals_fresh", kind, false, || json!({"kind": kind, "p": p, "sequence": "fit(first); fit(second); fit(first)", "panic": msg}));
        }
    }
}

fn series_pipeline(cfg: &Cfg, rng: &mut Rng, rep: &mut Report, regime: &str, x: &[f64]) {
    let regime = regime.to_string();
    rep.case(&regime);
    let df = defs(x);
    let sd = df.c0.sqrt();
    rep.distinct(Hasher::new().s(&regime).u(x.len() as u64).fs(&x[..x.len().min(16)]).finish(), df.c0 > 0.0);
    check_acf(rep, &regime, x, &df);
    check_difference(rep, &regime, x, rng);
    let np = if cfg.thorough() { 3 } else { 2 };
    let mut orders = vec![rng.usize(1, 8)];
    while orders.len() < np {
        let p = rng.usize(1, 8);
        if !orders.contains(&p) {
            orders.push(p);
        }
    }
    for (oi, &p) in orders.iter().enumerate() {
        let Some((m, f)) = fit_and_check(rep, &regime, x, &df, p) else { continue };
        rep.seen(&format!("order:{}", p), 1);
        if f.phi.iter().any(|v| !v.is_finite()) {
            continue;
        }
        let full = oi == 0 && rng.chance(if cfg.thorough() { 0.05 } else { 0.1 });
        let Some(base) = check_forecasts(rep, &m, &f, x, sd, rng, full) else { continue };
        // a model object fitted before (other data, same order) and refitted on x must equal the fresh fit
        if oi == 0 {
            let other: Vec<f64> = x.iter().rev().enumerate().map(|(i, v)| 0.5 * v + (i % 7) as f64 + 3.0).collect();
            let refit = guard(|| {
                let mut m2 = AR::new(p);
                m2.fit(&other[..other.len().max(p + 2).min(other.len())]);
                m2.fit(x);
                m2
            });
            rep.seen("refit:same-object", 1);
            match refit {
                Ok(m2) => {
                    let same = m2.coeffs.len() == m.coeffs.len() && m2.coeffs.iter().zip(&m.coeffs).all(|(a, b)| same_bits(*a, *b)) && same_bits(m2.intercept, m.intercept);
                    rep.check("C13.fit.refit_equals_fresh", "refit:same-object", same, || json!({"p": p, "n": x.len(), "fresh_coeffs": jf(&m.coeffs), "refit_coeffs": jf(&m2.coeffs), "fresh_intercept": jnum(m.intercept), "refit_intercept": jnum(m2.intercept)}));
                }
                Err(msg) => {
                    rep.check("C13.fit.refit_equals_fresh", "refit:same-object", false, || json!({"p": p, "panic": msg}));
                }
            }
        }
        // a history whose one-step forecast lands on the mean (to rounding) while the recursion is not
        // at rest: the later forecasts must still follow the recursion
        if p >= 2 && f.phi[1] != 0.0 && f.phi[0].is_finite() && (f.phi[0] / f.phi[1]).abs() < 1e6 {
            let a = sd.max(1e-3);
            let mut hist = vec![f.mu; p + 2];
            let l = hist.len();
            hist[l - 1] = f.mu + a;
            hist[l - 2] = f.mu - a * f.phi[0] / f.phi[1];
            rep.seen("history:mean-crossing", 1);
            let _ = check_forecasts(rep, &m, &f, &hist, sd, rng, false);
        }
        if oi == 0 {
            rep.sample(|| json!({"regime": regime, "n": x.len(), "p": p, "phi": jf(&f.phi), "intercept": jnum(f.mu), "kappa": jnum(f.kappa), "forecasts": jf(&base[..3])}));
        }
        // metamorphic: a constant added to the series is added to every forecast
        if f.kappa > 1e4 {
            rep.seen("shift:skipped(kappa>1e4)", 1);
            continue;
        }
        let p_amp = x[x.len() - p..].iter().fold(sd, |a, &v| a.max((v - f.mu).abs()));
        let cal = calibrate(&f.phi, x, f.mu, H, rng);
        for c in [1.0, 1e3, 1e6] {
            let xs: Vec<f64> = x.iter().map(|v| v + c).collect();
            let dfs = defs(&xs);
            let sreg = "shift:c>0";
            let Some((ms, fs)) = fit_and_check(rep, &format!("{}+shift", regime), &xs, &dfs, p) else { continue };
            if fs.phi.iter().any(|v| !v.is_finite()) {
                continue;
            }
            // the shifted series is itself a mean!=0 series: all forecast assertions apply to it
            let Some(shifted) = check_forecasts(rep, &ms, &fs, &xs, sd, rng, false) else { continue };
            rep.seen(sreg, 1);
            let base_tol = 1e-9 * (c + f.mu.abs() + p_amp);
            let mut w = 0.0f64;
            let mut at = 0;
            for h in 0..H {
                let e = (shifted[h] - base[h] - c).abs() / (base_tol + 1e3 * cal[h]);
                let e = if e.is_nan() { f64::INFINITY } else { e };
                if e > w {
                    w = e;
                    at = h;
                }
            }
            if w <= 1.0 {
                rep.note_max("worst_ratio.shift_equivariance(passing)", w);
            }
            rep.check("C13.predict.shift_equivariance", sreg, w <= 1.0, || json!({"p": p, "n": x.len(), "c": c, "series_tail": jf(&x[x.len() - p..]), "phi": jf(&f.phi), "intercept": jnum(f.mu),
                "horizon": at + 1, "forecast_shifted": jnum(shifted[at]), "forecast_base": jnum(base[at]), "difference": jnum(shifted[at] - base[at]), "expected_difference": c, "tolerance": base_tol + 1e3 * cal[at]}));
        }
    }
}

/// One series close to the boundary of stationarity: definitions of acovf/acf, the fit at EVERY order
/// 1..8 against the Yule–Walker equations of the series' own double-double autocovariances (same
/// conditioning-aware bounds as for ordinary series), forecasts for two of the orders.
fn one_smooth(cfg: &Cfg, rng: &mut Rng, rep: &mut Report) {
    let s = gen_smooth(rng, cfg.lite);
    let x = &s.x;
    let regime = format!("{}:{}", s.kind, s.off);
    rep.case(&regime);
    rep.seen(s.kind, 1);
    let df = defs(x);
    let sd = df.c0.sqrt();
    rep.distinct(Hasher::new().s(&regime).u(x.len() as u64).fs(&x[..x.len().min(16)]).finish(), df.c0 > 0.0);
    // how close to the boundary: lag-1 autocorrelation and the later partial autocorrelations of the
    // series itself (double-double), never read from the library
    let c0 = acov_ref(&df.d, 0);
    let r_dd: Vec<Dd> = (0..=8).map(|k| acov_ref(&df.d, k) / c0).collect();
    let r1 = r_dd[1].f();
    let pacf = pacf_dd(&r_dd, 8);
    let later = pacf[1..].iter().fold(0.0f64, |m, v| m.max(v.abs()));
    let long = x.len() >= 2000;
    for (thr, label) in [(0.999, "0.999"), (0.9995, "0.9995"), (0.9999, "0.9999")] {
        if r1 > thr {
            rep.seen(&format!("boundary:acf1>{}", label), 1);
        }
        if later > thr {
            rep.seen(&format!("boundary:|pacf(k>=2)|>{}", label), 1);
        }
    }
    if long {
        rep.seen("boundary:n>=2000", 1);
    }
    rep.note_max("boundary.max_acf1", r1);
    rep.note_max("boundary.max_abs_later_pacf", later);
    check_acf(rep, &regime, x, &df);
    let fc: Vec<usize> = vec![rng.usize(1, 8), rng.usize(2, 8)];
    for p in 1..=8usize {
        let Some((m, f)) = fit_and_check(rep, &regime, x, &df, p) else { continue };
        rep.seen(&format!("order:{}", p), 1);
        if f.judged {
            rep.seen(&format!("boundary-judged:order:{}", p), 1);
            if r1 > 0.9995 {
                rep.seen(&format!("boundary-judged:acf1>0.9995:order:{}", p), 1);
            }
            if later > 0.999 && p >= 2 {
                rep.seen("boundary-judged:|pacf(k>=2)|>0.999:order>=2", 1);
            }
        }
        if f.phi.iter().any(|v| !v.is_finite()) || !fc.contains(&p) {
            continue;
        }
        let _ = check_forecasts(rep, &m, &f, x, sd, rng, false);
        if p == fc[0] {
            rep.sample(|| json!({"regime": regime, "n": x.len(), "p": p, "acf1": jnum(r1), "max_abs_later_pacf": jnum(later), "phi": jf(&f.phi), "intercept": jnum(f.mu), "kappa": jnum(f.kappa), "judged": f.judged}));
        }
    }
}

pub fn run(cfg: &Cfg, rep: &mut Report) {
    rep.rule = "random series: AR(1..6) simulated from random partial autocorrelations (stationary by construction), AR + linear trend, constant + white noise; scale 0.1..100, length log-uniform 10..5000; centred exactly (integer arithmetic on a 2^-20 grid, fitted intercept == 0.0), small offset, or offset 1e2..1e6; per series all lags -50..50 and |lag| >= n, 2-3 model orders in 1..8, horizons 1..1000, shifts c in {1,1e3,1e6}. Series close to the boundary of stationarity (nearly singular Yule-Walker systems; 64 quick / 800 thorough, 3 of 4 with length 2000..5000): AR(2..6) with all roots at 0.95..0.999, white noise passed 2..4 times through a moving average, 1..3 slow sinusoids (0.3..4 cycles per series, optional drift) plus white noise of 1e-3..3e-2 of their sd, narrow-band AR(2) with root modulus 1-1e-5..1-1e-3 plus a small noise floor; lag-1 sample autocorrelation up to 1-4e-6, |pacf(2)| up to 0.9995; per series all lags, the fit at EVERY order 1..8 against the Yule-Walker equations of its own double-double autocovariances, forecasts at two orders. Refits of one model object on related series (16 quick / 100 thorough per kind; object fitted on A, then B, then A again, order 1..8, lengths 16..5000, offsets 0 / +-10 / +-1e2..1e5, 3 of 10 rearrangement cases on Poisson counts): B = permutation, two values swapped, reversal, reflection about the mean, block shuffle, shuffled tail of A (same length, bit-identical mean - verified on fresh intercepts), an independent series or A with a redrawn tail (same length only), a series of another length with the same exact mean, A truncated or extended; after each refit bit-for-bit equality with a fresh object and the full fit and forecast oracle on the refitted object. non-trivial = non-constant series; distinct by (regime, length, first 16 values)".into();
    rep.assume("series values are multiples of 2^-20 with |x| < 2^22, so x + c is exactly representable and the shifted input is not itself rounded");
    rep.assume("coincidence family: x - max(x), x - min(x), distance from the running peak / trough of a random walk or persistent AR(1), extreme value moved to +-2^k (k = -3..12, +-1 most often), antisymmetric series, 2x - (max+min), entries replaced by +0.0 / -0.0, series censored at 0, Poisson counts and their negatives, strictly one-signed series; all built in integer units of 2^-20 (exact), lengths 10..5000; each runs through the same assertions as an ordinary series (definitions, evenness, lag 0, intercept, Yule-Walker, forecast reference, shift equivariance with c in {1,1e3,1e6})");
    rep.assume("refit family: values are multiples of 2^-20 below 2^18 in size, so every partial sum is exact in any order and series with the same multiset of values (or the same exact sum and length) have bit-identical means whatever the summation order; the claim is checked on the intercepts of two fresh objects (a mismatch ends the case as inconclusive)");
    rep.assume("model order p <= 8 < 10 <= series length (predict_one with fewer than p values and predict on shorter histories are outside the quantifier)");
    rep.assume("coefficients are read from AR.coeffs in the documented (reversed) storage order");
    rep.assume("coefficient checks are skipped when kappa(R)*(8p*eps + acf error bound) > 1e-3 and shift equivariance when kappa(R) > 1e4: there a refit legitimately moves the coefficients by more than the tolerance (counted under the low-power / skipped regimes)");
    rep.assume("'forecasts converge to the mean' is restated as: equality with the reference recursion for every horizon <= 1000, and |f_1000 - mean| <= 1e-6 sd whenever the reference has decayed below 1e-9 sd");
    let n = cfg.pick(300, 6000, 3);
    par_cases(cfg, rep, 1, n, |_i, rng, rep| one_series(cfg, rng, rep));
    // exact coincidences in order statistics / moments (classes in turn). Off under Miri: the family probes
    // values, not memory, and one series costs as much interpreter time as one of the three lite series
    let nc = if cfg.miri() { 0 } else { cfg.pick(12, 120, 1) * COINC.len() };
    par_cases(cfg, rep, 4, nc, |i, rng, rep| one_coincidence(cfg, rng, rep, i % COINC.len()));
    if !cfg.miri() {
        for c in COINC {
            rep.require(c, 1);
        }
        for r in ["series:max==0", "series:min==0", "series:max==-min", "series:sum==0", "series:all-negative", "series:all-positive", "series:nonpositive-touching-0", "series:nonnegative-touching-0", "series:contains--0.0", "series:integer-valued", "series:extreme-is-power-of-two"] {
            rep.require(r, 1);
        }
    }
    // refits of one model object on related series (kinds in turn). Off under Miri as the coincidence family is
    let nr = if cfg.miri() { 0 } else { cfg.pick(16, 100, 1) * REFIT_KINDS.len() };
    par_cases(cfg, rep, 5, nr, |i, rng, rep| one_refit(cfg, rng, rep, i % REFIT_KINDS.len()));
    if !cfg.miri() {
        for k in REFIT_KINDS {
            rep.require(k, 1);
        }
        for l in ["same-length&bit-identical-mean&different-series", "same-length&different-mean", "different-length&bit-identical-mean", "different-length&different-mean", "shared-prefix>p"] {
            rep.require(&format!("refit:observed:{}", l), 1);
        }
    }
    if !cfg.lite {
        rep.require("refit:observed:same-length&bit-identical-mean&acf-differs", 10);
        rep.require("refit:observed:same-length&bit-identical-mean!=0", 5);
        rep.require("refit:observed:same-length&bit-identical-mean-off-grid", 1);
    }
    // directed: the unit-test series shape (short, zero-mean-ish) and the DESIGN probe (AR(2) + 1000)
    par_cases(cfg, rep, 2, 1, |_i, rng, rep| {
        let phi = [0.6, -0.3];
        let mut y = vec![0.0, 0.0];
        for _ in 0..260 {
            let l = y.len();
            y.push(phi[0] * y[l - 1] + phi[1] * y[l - 2] + rng.normal());
        }
        let x: Vec<f64> = y[62..].iter().map(|v| ((v + 1000.0) * GRID).round() / GRID).collect();
        rep.case("directed:ar2+1000");
        let df = defs(&x);
        if let Some((m, f)) = fit_and_check(rep, "directed:ar2+1000", &x, &df, 2) {
            check_forecasts(rep, &m, &f, &x, df.c0.sqrt(), rng, false);
        }
    });
    // series close to the boundary of stationarity (nearly singular Yule–Walker systems), every order
    if !cfg.miri() {
        let ns = cfg.pick(64, 800, 2);
        par_cases(cfg, rep, 3, ns, |_i, rng, rep| one_smooth(cfg, rng, rep));
    }
    if !cfg.lite {
        for kind in SMOOTH_KINDS {
            rep.require(kind, 3);
        }
        rep.require("boundary:n>=2000", 10);
        rep.require("boundary:acf1>0.9995", 5); // 16..30 observed over 40 seeds
        rep.require("boundary:acf1>0.9999", 1); // 2..10 observed over 40 seeds
        // `boundary:|pacf(k>=2)|>0.999` is reached 1..7 times per run over 40 seeds: coverage label, not a requirement
        for p in 1..=8 {
            rep.require(&format!("boundary-judged:order:{}", p), 3);
            rep.require(&format!("boundary-judged:acf1>0.9995:order:{}", p), 2);
        }
        // likewise `boundary-judged:|pacf(k>=2)|>0.999:order>=2` (1..49 per run): coverage label only
        for kind in ["ar", "ar+trend", "const+noise"] {
            for off in ["mean==0", "offset-small", "offset-large"] {
                rep.require(&format!("{}:{}", kind, off), 1);
            }
        }
        for p in 1..=8 {
            rep.require(&format!("order:{}", p), 1);
        }
        rep.require("mean==0", 10);
        rep.require("mean!=0", 10);
        rep.require("shift:c>0", 10);
        rep.require("decay-checked:mean==0", 5);
        rep.require("decay-checked:mean!=0", 5);
    }
}
