//! The harness's own input generator (xoshiro256**), independent of the library RNG under test.

#[derive(Clone, Debug)]
pub struct Rng {
    s: [u64; 4],
}

fn splitmix(x: &mut u64) -> u64 {
    *x = x.wrapping_add(0x9E3779B97F4A7C15);
    let mut z = *x;
    z = (z ^ (z >> 30)).wrapping_mul(0xBF58476D1CE4E5B9);
    z = (z ^ (z >> 27)).wrapping_mul(0x94D049BB133111EB);
    z ^ (z >> 31)
}

impl Rng {
    pub fn new(seed: u64) -> Self {
        let mut x = seed;
        Rng { s: [splitmix(&mut x), splitmix(&mut x), splitmix(&mut x), splitmix(&mut x)] }
    }
    pub fn u64(&mut self) -> u64 {
        let r = self.s[1].wrapping_mul(5).rotate_left(7).wrapping_mul(9);
        let t = self.s[1] << 17;
        self.s[2] ^= self.s[0];
        self.s[3] ^= self.s[1];
        self.s[1] ^= self.s[2];
        self.s[0] ^= self.s[3];
        self.s[2] ^= t;
        self.s[3] = self.s[3].rotate_left(45);
        r
    }
    /// uniform in [0,1)
    pub fn f64(&mut self) -> f64 {
        (self.u64() >> 11) as f64 * (1.0 / 9007199254740992.0)
    }
    /// uniform in (0,1)
    pub fn open01(&mut self) -> f64 {
        ((self.u64() >> 12) as f64 + 0.5) * (1.0 / 4503599627370496.0)
    }
    pub fn range(&mut self, lo: f64, hi: f64) -> f64 {
        lo + (hi - lo) * self.f64()
    }
    /// log-uniform in [lo, hi], lo > 0
    pub fn log_range(&mut self, lo: f64, hi: f64) -> f64 {
        (lo.ln() + (hi.ln() - lo.ln()) * self.f64()).exp()
    }
    /// integer in [lo, hi] inclusive
    pub fn int(&mut self, lo: i64, hi: i64) -> i64 {
        debug_assert!(hi >= lo);
        let span = (hi - lo) as u64 + 1;
        lo + (self.u64() % span) as i64
    }
    pub fn usize(&mut self, lo: usize, hi: usize) -> usize {
        self.int(lo as i64, hi as i64) as usize
    }
    pub fn bool(&mut self) -> bool {
        self.u64() & 1 == 1
    }
    pub fn chance(&mut self, p: f64) -> bool {
        self.f64() < p
    }
    /// standard normal (polar Box–Muller; no cached second value, keeps the stream simple)
    pub fn normal(&mut self) -> f64 {
        loop {
            let u = 2.0 * self.f64() - 1.0;
            let v = 2.0 * self.f64() - 1.0;
            let s = u * u + v * v;
            if s > 0.0 && s < 1.0 {
                return u * (-2.0 * s.ln() / s).sqrt();
            }
        }
    }
    pub fn choose<'a, T>(&mut self, xs: &'a [T]) -> &'a T {
        &xs[self.usize(0, xs.len() - 1)]
    }
    pub fn shuffle<T>(&mut self, xs: &mut [T]) {
        for i in (1..xs.len()).rev() {
            let j = self.usize(0, i);
            xs.swap(i, j);
        }
    }
    pub fn perm(&mut self, n: usize) -> Vec<usize> {
        let mut p: Vec<usize> = (0..n).collect();
        self.shuffle(&mut p);
        p
    }
    pub fn vec(&mut self, n: usize, lo: f64, hi: f64) -> Vec<f64> {
        (0..n).map(|_| self.range(lo, hi)).collect()
    }
    pub fn normals(&mut self, n: usize) -> Vec<f64> {
        (0..n).map(|_| self.normal()).collect()
    }
    pub fn ints(&mut self, n: usize, lo: i64, hi: i64) -> Vec<f64> {
        (0..n).map(|_| self.int(lo, hi) as f64).collect()
    }
    /// exponential(1)
    pub fn exp1(&mut self) -> f64 {
        -self.open01().ln()
    }
    /// gamma(shape, 1) by Marsaglia–Tsang with the shape<1 boost (harness-side simulation only)
    pub fn gamma(&mut self, shape: f64) -> f64 {
        if shape < 1.0 {
            let u = self.open01();
            return self.gamma(shape + 1.0) * u.powf(1.0 / shape);
        }
        let d = shape - 1.0 / 3.0;
        let c = 1.0 / (9.0 * d).sqrt();
        loop {
            let x = self.normal();
            let v = 1.0 + c * x;
            if v <= 0.0 {
                continue;
            }
            let v = v * v * v;
            let u = self.open01();
            if u.ln() < 0.5 * x * x + d * (1.0 - v + v.ln()) {
                return d * v;
            }
        }
    }
    /// Poisson(lambda) by inversion / normal-free multiplication in chunks (harness-side simulation only)
    pub fn poisson(&mut self, lambda: f64) -> f64 {
        // split large rates so exp(-lambda) never underflows
        let mut remaining = lambda;
        let mut total = 0.0;
        while remaining > 0.0 {
            let l = remaining.min(30.0);
            remaining -= l;
            let limit = (-l).exp();
            let mut p = self.open01();
            let mut k = 0.0;
            while p > limit {
                k += 1.0;
                p *= self.open01();
            }
            total += k;
        }
        total
    }
}

/// Special f64 values used by the element-wise monitors.
pub const SPECIALS: &[f64] = &[
    0.0,
    -0.0,
    1.0,
    -1.0,
    f64::INFINITY,
    f64::NEG_INFINITY,
    f64::NAN,
    f64::MIN_POSITIVE,
    -f64::MIN_POSITIVE,
    5e-324,
    -5e-324,
    2.2250738585072009e-308, // largest subnormal
    f64::MAX,
    f64::MIN,
    f64::EPSILON,
    0.5,
    2.0,
    1e-300,
    1e300,
];

/// A vector of length `n` whose elements are pairwise distinct finite values (so that a
/// shifted index or swapped operand is visible), optionally salted with special values.
pub fn distinct_vec(rng: &mut Rng, n: usize, specials: bool) -> Vec<f64> {
    let base = rng.range(-3.0, 3.0);
    let mut v: Vec<f64> = (0..n).map(|i| base + (i as f64 + 1.0) * 1.03125 + rng.range(0.0, 0.5)).collect();
    for x in v.iter_mut() {
        if rng.chance(0.3) {
            *x = -*x;
        }
    }
    if specials && n > 0 {
        let k = rng.usize(0, (n / 3).max(1));
        for _ in 0..k {
            let i = rng.usize(0, n - 1);
            v[i] = *rng.choose(SPECIALS);
        }
    }
    v
}

// ---------------------------------------------------------------------------------------------
// Fault injection on the library's RNG stream.
//
// `alea` is wyrand behind a thread-local: state += ALEA_STEP, output = mix(state). The states below
// were found by exhaustive search at development time (tools/wysearch.rs): after
// `alea::set_seed(state)` the NEXT raw 64-bit word has an extreme 32-bit half — the values at which
// "inclusive end point" slips of a sampler show (u32() is the low half, f64() the top 53 bits).
// `alea_selftest` re-checks them against the real generator at start-up.

pub const ALEA_STEP: u64 = 0xa0761d6478bd642f;

pub const ADVERSARIAL_ALEA: &[(&str, u64)] = &[
    ("low32=ffffffff", 12034917161822398798),
    ("low32=ffffffff", 12510526601679112987),
    ("low32=00000000", 6382818847485331353),
    ("low32=00000000", 5508874857206705109),
    ("high32=ffffffff", 7357600924370692596),
    ("high32=ffffffff", 15225147840636228787),
    ("high32=00000000", 10449270968010065747),
    ("high32=00000000", 4673566545782114139),
];

/// Seed after which the (k+1)-th raw word is the adversarial word of `state` (k = 0: the next one).
pub fn adversarial_seed(state: u64, k: u64) -> u64 {
    state.wrapping_sub(k.wrapping_mul(ALEA_STEP))
}

pub fn alea_selftest() -> Result<(), String> {
    for &(kind, s) in ADVERSARIAL_ALEA {
        for k in [0u64, 3] {
            alea::set_seed(adversarial_seed(s, k));
            for _ in 0..k {
                alea::u64();
            }
            let w = alea::u64();
            let ok = match kind {
                "low32=ffffffff" => w as u32 == u32::MAX,
                "low32=00000000" => w as u32 == 0,
                "high32=ffffffff" => (w >> 32) as u32 == u32::MAX,
                _ => (w >> 32) as u32 == 0,
            };
            if !ok {
                return Err(format!("adversarial alea state {} ({}) gives word {:016x}", s, kind, w));
            }
        }
    }
    Ok(())
}
