//! Statistical decision rules with explicit false-alarm bounds.

/// Dvoretzky–Kiefer–Wolfowitz band: P(sup|F_n − F| > ε) ≤ 2·exp(−2nε²) = α.
pub fn dkw_eps(n: usize, alpha: f64) -> f64 {
    ((2.0 / alpha).ln() / (2.0 * n as f64)).sqrt()
}

/// sup_x |F_n(x) − F(x)| for a sample and a CDF, evaluated at every sample point and its left limit.
/// `cdf_left(x)` must return F(x−) (equal to F(x) for continuous laws). `xs` is sorted in place.
/// Returns (D, argmax x).
pub fn ks_distance(xs: &mut [f64], cdf: impl Fn(f64) -> f64, cdf_left: impl Fn(f64) -> f64) -> (f64, f64) {
    xs.sort_by(|a, b| a.partial_cmp(b).unwrap_or(std::cmp::Ordering::Equal));
    let n = xs.len() as f64;
    let mut d = 0.0f64;
    let mut at = f64::NAN;
    let mut i = 0;
    while i < xs.len() {
        let x = xs[i];
        let mut j = i;
        while j + 1 < xs.len() && xs[j + 1] == x {
            j += 1;
        }
        // empirical CDF jumps from i/n to (j+1)/n at x
        let f_hi = cdf(x);
        let f_lo = cdf_left(x);
        let d1 = ((j + 1) as f64 / n - f_hi).abs();
        let d2 = (f_lo - i as f64 / n).abs();
        if d1 > d || d1.is_nan() {
            d = d1;
            at = x;
        }
        if d2 > d || d2.is_nan() {
            d = d2;
            at = x;
        }
        if d.is_nan() {
            return (f64::INFINITY, x);
        }
        i = j + 1;
    }
    (d, at)
}

/// Pearson χ² statistic of observed counts against expected counts.
pub fn chi2_stat(obs: &[f64], exp: &[f64]) -> f64 {
    obs.iter().zip(exp).map(|(o, e)| (o - e) * (o - e) / e).sum()
}
