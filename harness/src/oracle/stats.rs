//! Statistical decision rules with explicit false-alarm bounds.

/// Dvoretzky–Kiefer–Wolfowitz band: P(sup|F_n − F| > ε) ≤ 2·exp(−2nε²) = α.
pub fn dkw_eps(n: usize, alpha: f64) -> f64 {
    ((2.0 / alpha).ln() / (2.0 * n as f64)).sqrt()
}

/// sup_x |F_n(x) − F(x)| for a sample and a CDF, evaluated at every sample point and its left limit.
/// `cdf_left(x)` must return F(x−) (equal to F(x) for continuous laws). `xs` is sorted in place.
/// Returns (D, argmax x).
pub fn ks_distance(xs: &mut [f64], cdf: impl Fn(f64) -> f64, cdf_left: impl Fn(f64) -> f64) -> (f64, f64) {
    xs.sort_by(|a, b| a.partial_cmp(b).unwrap_or(std::cmp::Ordering::Equal));
    let n = xs.len() as f64;
    let mut d = 0.0f64;
    let mut at = f64::NAN;
    let mut i = 0;
    while i < xs.len() {
        let x = xs[i];
        let mut j = i;
        while j + 1 < xs.len() && xs[j + 1] == x {
            j += 1;
        }
        // empirical CDF jumps from i/n to (j+1)/n at x
        let f_hi = cdf(x);
        let f_lo = cdf_left(x);
        let d1 = ((j + 1) as f64 / n - f_hi).abs();
        let d2 = (f_lo - i as f64 / n).abs();
        if d1 > d || d1.is_nan() {
            d = d1;
            at = x;
        }
        if d2 > d || d2.is_nan() {
            d = d2;
            at = x;
        }
        if d.is_nan() {
            return (f64::INFINITY, x);
        }
        i = j + 1;
    }
    (d, at)
}

/// Pearson χ² statistic of observed counts against expected counts.
pub fn chi2_stat(obs: &[f64], exp: &[f64]) -> f64 {
    obs.iter().zip(exp).map(|(o, e)| (o - e) * (o - e) / e).sum()
}

/// Rounding-aware variant for continuous laws sampled in f64. A draw equal to the representable
/// number x stands for a variate somewhere within one ulp of x, so the CDF G of the *rounded*
/// variate satisfies F(x⁻ulp) ≤ G(x−) ≤ G(x) ≤ F(x⁺ulp). Both the empirical left limit and the
/// empirical value at x are therefore compared with the interval [F(next_down x), F(next_up x)]
/// (distance 0 inside it). This is a lower bound of sup|F_n − G| — it can only be smaller than
/// the plain statistic, never raise an alarm of its own — and differs from it only where F has
/// visible mass inside one ulp (e.g. Beta(3, 0.1) puts 2.9 % of its mass within 1 ulp of 1.0).
pub fn ks_distance_rounded(xs: &mut [f64], cdf: impl Fn(f64) -> f64) -> (f64, f64) {
    xs.sort_by(|a, b| a.partial_cmp(b).unwrap_or(std::cmp::Ordering::Equal));
    let n = xs.len() as f64;
    let mut d = 0.0f64;
    let mut at = f64::NAN;
    let mut i = 0;
    while i < xs.len() {
        let x = xs[i];
        let mut j = i;
        while j + 1 < xs.len() && xs[j + 1] == x {
            j += 1;
        }
        if x.is_nan() {
            return (f64::INFINITY, x);
        }
        let lo = cdf(x.next_down());
        let hi = cdf(x.next_up());
        if lo.is_nan() || hi.is_nan() {
            return (f64::INFINITY, x);
        }
        let dist = |v: f64| (lo - v).max(v - hi).max(0.0);
        let dd = dist((j + 1) as f64 / n).max(dist(i as f64 / n));
        if dd > d {
            d = dd;
            at = x;
        }
        i = j + 1;
    }
    (d, at)
}
