pub mod dd;
pub mod exact;
pub mod linref;
#[cfg(not(miri))]
pub mod special;
pub mod stats;

/// Run every oracle self-test; an error makes the whole run inconclusive.
pub fn selftest() -> Result<(), String> {
    dd::selftest()?;
    exact::selftest()?;
    linref::selftest()?;
    crate::gen::alea_selftest()?;
    #[cfg(not(miri))]
    special::selftest()?;
    Ok(())
}
