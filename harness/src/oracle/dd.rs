//! Double-double arithmetic (~106 bits). Reference computations run in this precision so that the
//! oracle's own rounding error is negligible next to the f64 bounds being checked.
use std::ops::{Add, Div, Mul, Neg, Sub};

#[derive(Clone, Copy, Debug, PartialEq)]
pub struct Dd {
    pub hi: f64,
    pub lo: f64,
}

#[inline]
fn two_sum(a: f64, b: f64) -> (f64, f64) {
    let s = a + b;
    let bb = s - a;
    let e = (a - (s - bb)) + (b - bb);
    (s, e)
}
#[inline]
fn quick_two_sum(a: f64, b: f64) -> (f64, f64) {
    let s = a + b;
    let e = b - (s - a);
    (s, e)
}
#[inline]
fn two_prod(a: f64, b: f64) -> (f64, f64) {
    let p = a * b;
    let e = a.mul_add(b, -p);
    (p, e)
}

impl Dd {
    pub const ZERO: Dd = Dd { hi: 0.0, lo: 0.0 };
    pub const ONE: Dd = Dd { hi: 1.0, lo: 0.0 };
    #[inline]
    pub fn new(x: f64) -> Dd {
        Dd { hi: x, lo: 0.0 }
    }
    #[inline]
    pub fn f(self) -> f64 {
        self.hi + self.lo
    }
    #[inline]
    pub fn abs(self) -> Dd {
        if self.hi < 0.0 || (self.hi == 0.0 && self.lo < 0.0) {
            -self
        } else {
            self
        }
    }
    pub fn is_finite(self) -> bool {
        self.hi.is_finite() && self.lo.is_finite()
    }
    /// exact product of two f64 as a Dd
    #[inline]
    pub fn prod(a: f64, b: f64) -> Dd {
        let (p, e) = two_prod(a, b);
        Dd { hi: p, lo: e }
    }
    /// exact sum of two f64 as a Dd
    #[inline]
    pub fn sum2(a: f64, b: f64) -> Dd {
        let (s, e) = two_sum(a, b);
        Dd { hi: s, lo: e }
    }
    pub fn sqrt(self) -> Dd {
        if self.hi <= 0.0 {
            return Dd::new(self.hi.sqrt());
        }
        let x = 1.0 / self.hi.sqrt();
        let ax = self.hi * x;
        let d = self - Dd::prod(ax, ax);
        Dd::sum2(ax, d.hi * (x * 0.5))
    }
    pub fn powi(self, n: i32) -> Dd {
        if n == 0 {
            return Dd::ONE;
        }
        let mut r = Dd::ONE;
        let mut b = self;
        let mut k = n.unsigned_abs();
        while k > 0 {
            if k & 1 == 1 {
                r = r * b;
            }
            b = b * b;
            k >>= 1;
        }
        if n < 0 {
            Dd::ONE / r
        } else {
            r
        }
    }
    pub fn lt(self, o: Dd) -> bool {
        self.hi < o.hi || (self.hi == o.hi && self.lo < o.lo)
    }
    pub fn max(self, o: Dd) -> Dd {
        if self.lt(o) {
            o
        } else {
            self
        }
    }
}

impl From<f64> for Dd {
    fn from(x: f64) -> Dd {
        Dd::new(x)
    }
}

impl Neg for Dd {
    type Output = Dd;
    #[inline]
    fn neg(self) -> Dd {
        Dd { hi: -self.hi, lo: -self.lo }
    }
}
impl Add for Dd {
    type Output = Dd;
    #[inline]
    fn add(self, o: Dd) -> Dd {
        if !self.hi.is_finite() || !o.hi.is_finite() {
            return Dd::new(self.hi + o.hi);
        }
        let (s, e) = two_sum(self.hi, o.hi);
        let (t, f) = two_sum(self.lo, o.lo);
        let (s, e) = quick_two_sum(s, e + t);
        let (s, e) = quick_two_sum(s, e + f);
        Dd { hi: s, lo: e }
    }
}
impl Sub for Dd {
    type Output = Dd;
    #[inline]
    fn sub(self, o: Dd) -> Dd {
        self + (-o)
    }
}
impl Mul for Dd {
    type Output = Dd;
    #[inline]
    fn mul(self, o: Dd) -> Dd {
        let (p, e) = two_prod(self.hi, o.hi);
        if !p.is_finite() {
            return Dd::new(p);
        }
        let e = e + (self.hi * o.lo + self.lo * o.hi);
        let (s, e) = quick_two_sum(p, e);
        Dd { hi: s, lo: e }
    }
}
impl Div for Dd {
    type Output = Dd;
    fn div(self, o: Dd) -> Dd {
        let q1 = self.hi / o.hi;
        if !q1.is_finite() {
            return Dd::new(q1);
        }
        let r = self - o * Dd::new(q1);
        let q2 = r.hi / o.hi;
        let r = r - o * Dd::new(q2);
        let q3 = r.hi / o.hi;
        let (s, e) = quick_two_sum(q1, q2);
        Dd { hi: s, lo: e } + Dd::new(q3)
    }
}
impl Add<f64> for Dd {
    type Output = Dd;
    #[inline]
    fn add(self, o: f64) -> Dd {
        self + Dd::new(o)
    }
}
impl Sub<f64> for Dd {
    type Output = Dd;
    #[inline]
    fn sub(self, o: f64) -> Dd {
        self - Dd::new(o)
    }
}
impl Mul<f64> for Dd {
    type Output = Dd;
    #[inline]
    fn mul(self, o: f64) -> Dd {
        self * Dd::new(o)
    }
}
impl Div<f64> for Dd {
    type Output = Dd;
    #[inline]
    fn div(self, o: f64) -> Dd {
        self / Dd::new(o)
    }
}

/// Σ x_i in double-double.
pub fn sum(xs: &[f64]) -> Dd {
    let mut s = Dd::ZERO;
    for &x in xs {
        s = s + Dd::new(x);
    }
    s
}
/// Σ |x_i| in double-double.
pub fn sum_abs(xs: &[f64]) -> Dd {
    let mut s = Dd::ZERO;
    for &x in xs {
        s = s + Dd::new(x.abs());
    }
    s
}
/// Σ x_i y_i in double-double (each product exact).
pub fn dot(xs: &[f64], ys: &[f64]) -> Dd {
    assert_eq!(xs.len(), ys.len());
    let mut s = Dd::ZERO;
    for (&x, &y) in xs.iter().zip(ys) {
        s = s + Dd::prod(x, y);
    }
    s
}
/// Σ |x_i y_i|
pub fn dot_abs(xs: &[f64], ys: &[f64]) -> f64 {
    xs.iter().zip(ys).map(|(x, y)| (x * y).abs()).sum()
}
pub fn mean(xs: &[f64]) -> Dd {
    sum(xs) / Dd::new(xs.len() as f64)
}

/// unit roundoff of f64
pub const U: f64 = f64::EPSILON / 2.0;
/// Higham's γ_n = n·u / (1 − n·u)
pub fn gamma_n(n: usize) -> f64 {
    let nu = n as f64 * U;
    nu / (1.0 - nu)
}

/// Self-test used at start-up: exact integer identities that a broken Dd would fail.
pub fn selftest() -> Result<(), String> {
    // (1 + 2^-60)^2 = 1 + 2^-59 + 2^-120: invisible in f64, visible in Dd
    let t = 2f64.powi(-60);
    let a = Dd { hi: 1.0, lo: t };
    let sq = a * a;
    if sq.hi != 1.0 || (sq.lo - 2.0 * t).abs() > 1e-33 {
        return Err(format!("dd mul: {:?}", sq));
    }
    let p = Dd::prod(134217729.0, 134217729.0); // (2^27+1)^2 = 2^54 + 2^28 + 1 exactly
    if p.hi != 18014398777917440.0 || p.lo != 1.0 {
        return Err(format!("dd two_prod: {:?}", p));
    }
    let third = Dd::ONE / Dd::new(3.0);
    let back = third * Dd::new(3.0) - Dd::ONE;
    if back.f().abs() > 1e-31 {
        return Err(format!("dd div: {:?}", back));
    }
    let s = Dd::new(2.0).sqrt();
    let e = (s * s - Dd::new(2.0)).f().abs();
    if e > 1e-30 {
        return Err(format!("dd sqrt err {}", e));
    }
    let xs = [1e16, 1.0, -1e16, 1.0];
    if sum(&xs).f() != 2.0 {
        return Err("dd sum".into());
    }
    Ok(())
}
