//! Independent special functions: glibc libm through FFI (validated against mpmath at development
//! time, DESIGN §1) plus regularised incomplete gamma / beta built on glibc's lgamma, and the CDFs
//! of every distribution the library offers. Not available under Miri (no FFI).
#![cfg(not(miri))]

mod ffi {
    extern "C" {
        pub fn tgamma(x: f64) -> f64;
        pub fn lgamma_r(x: f64, sign: *mut i32) -> f64;
        pub fn erf(x: f64) -> f64;
        pub fn erfc(x: f64) -> f64;
        pub fn expm1(x: f64) -> f64;
        pub fn log1p(x: f64) -> f64;
    }
}

pub fn tgamma(x: f64) -> f64 {
    unsafe { ffi::tgamma(x) }
}
/// ln|Γ(x)|
pub fn lgamma(x: f64) -> f64 {
    let mut s = 0i32;
    unsafe { ffi::lgamma_r(x, &mut s) }
}
pub fn erf(x: f64) -> f64 {
    unsafe { ffi::erf(x) }
}
pub fn erfc(x: f64) -> f64 {
    unsafe { ffi::erfc(x) }
}
pub fn expm1(x: f64) -> f64 {
    unsafe { ffi::expm1(x) }
}
pub fn log1p(x: f64) -> f64 {
    unsafe { ffi::log1p(x) }
}

/// ln B(a,b)
pub fn lbeta(a: f64, b: f64) -> f64 {
    lgamma(a) + lgamma(b) - lgamma(a + b)
}

/// Regularised lower incomplete gamma P(a, x), a > 0, x >= 0.
pub fn gamma_p(a: f64, x: f64) -> f64 {
    if x <= 0.0 {
        return 0.0;
    }
    if x.is_infinite() {
        return 1.0;
    }
    if x < a + 1.0 {
        gamma_series(a, x)
    } else {
        1.0 - gamma_cf(a, x)
    }
}
/// Regularised upper incomplete gamma Q(a, x).
pub fn gamma_q(a: f64, x: f64) -> f64 {
    if x <= 0.0 {
        return 1.0;
    }
    if x.is_infinite() {
        return 0.0;
    }
    if x < a + 1.0 {
        1.0 - gamma_series(a, x)
    } else {
        gamma_cf(a, x)
    }
}
fn gamma_series(a: f64, x: f64) -> f64 {
    let mut ap = a;
    let mut del = 1.0 / a;
    let mut sum = del;
    for _ in 0..100000 {
        ap += 1.0;
        del *= x / ap;
        sum += del;
        if del.abs() < sum.abs() * 1e-17 {
            break;
        }
    }
    (sum.ln() - x + a * x.ln() - lgamma(a)).exp()
}
fn gamma_cf(a: f64, x: f64) -> f64 {
    // modified Lentz
    let tiny = 1e-300;
    let mut b = x + 1.0 - a;
    let mut c = 1.0 / tiny;
    let mut d = 1.0 / b;
    let mut h = d;
    for i in 1..100000 {
        let an = -(i as f64) * (i as f64 - a);
        b += 2.0;
        d = an * d + b;
        if d.abs() < tiny {
            d = tiny;
        }
        c = b + an / c;
        if c.abs() < tiny {
            c = tiny;
        }
        d = 1.0 / d;
        let del = d * c;
        h *= del;
        if (del - 1.0).abs() < 1e-16 {
            break;
        }
    }
    (-x + a * x.ln() - lgamma(a)).exp() * h
}

/// Regularised incomplete beta I_x(a, b).
pub fn beta_inc(a: f64, b: f64, x: f64) -> f64 {
    if x <= 0.0 {
        return 0.0;
    }
    if x >= 1.0 {
        return 1.0;
    }
    let lbt = a * x.ln() + b * log1p(-x) - lbeta(a, b);
    if x < (a + 1.0) / (a + b + 2.0) {
        lbt.exp() * beta_cf(a, b, x) / a
    } else {
        1.0 - lbt.exp() * beta_cf(b, a, 1.0 - x) / b
    }
}
fn beta_cf(a: f64, b: f64, x: f64) -> f64 {
    let tiny = 1e-300;
    let qab = a + b;
    let qap = a + 1.0;
    let qam = a - 1.0;
    let mut c = 1.0;
    let mut d = 1.0 - qab * x / qap;
    if d.abs() < tiny {
        d = tiny;
    }
    d = 1.0 / d;
    let mut h = d;
    for m in 1..100000 {
        let m = m as f64;
        let m2 = 2.0 * m;
        let aa = m * (b - m) * x / ((qam + m2) * (a + m2));
        d = 1.0 + aa * d;
        if d.abs() < tiny {
            d = tiny;
        }
        c = 1.0 + aa / c;
        if c.abs() < tiny {
            c = tiny;
        }
        d = 1.0 / d;
        h *= d * c;
        let aa = -(a + m) * (qab + m) * x / ((a + m2) * (qap + m2));
        d = 1.0 + aa * d;
        if d.abs() < tiny {
            d = tiny;
        }
        c = 1.0 + aa / c;
        if c.abs() < tiny {
            c = tiny;
        }
        d = 1.0 / d;
        let del = d * c;
        h *= del;
        if (del - 1.0).abs() < 1e-16 {
            break;
        }
    }
    h
}

// ---------------------------------------------------------------------------------------------
// CDFs (F(x) = P(X <= x)) of the library's distributions, written from the textbook definitions.

pub fn norm_cdf(x: f64, mu: f64, sigma: f64) -> f64 {
    0.5 * erfc(-(x - mu) / (sigma * std::f64::consts::SQRT_2))
}
/// gamma with shape `a`, rate `b`
pub fn gamma_cdf(x: f64, a: f64, b: f64) -> f64 {
    if x <= 0.0 {
        0.0
    } else {
        gamma_p(a, b * x)
    }
}
pub fn chi2_cdf(x: f64, dof: f64) -> f64 {
    gamma_cdf(x, dof / 2.0, 0.5)
}
pub fn chi2_sf(x: f64, dof: f64) -> f64 {
    if x <= 0.0 {
        1.0
    } else {
        gamma_q(dof / 2.0, x / 2.0)
    }
}
pub fn beta_cdf(x: f64, a: f64, b: f64) -> f64 {
    beta_inc(a, b, x)
}
pub fn t_cdf(x: f64, dof: f64) -> f64 {
    if x.is_infinite() {
        return if x > 0.0 { 1.0 } else { 0.0 };
    }
    let z = dof / (dof + x * x);
    let tail = 0.5 * beta_inc(dof / 2.0, 0.5, z);
    if x > 0.0 {
        1.0 - tail
    } else {
        tail
    }
}
pub fn exp_cdf(x: f64, rate: f64) -> f64 {
    if x <= 0.0 {
        0.0
    } else {
        -expm1(-rate * x)
    }
}
pub fn gumbel_cdf(x: f64, mu: f64, beta: f64) -> f64 {
    (-(-(x - mu) / beta).exp()).exp()
}
/// Pareto type I with shape alpha and minimum x_m
pub fn pareto_cdf(x: f64, alpha: f64, xm: f64) -> f64 {
    if x <= xm {
        0.0
    } else {
        1.0 - (xm / x).powf(alpha)
    }
}
pub fn unif_cdf(x: f64, lo: f64, hi: f64) -> f64 {
    if x < lo {
        0.0
    } else if x >= hi {
        1.0
    } else {
        (x - lo) / (hi - lo)
    }
}
/// P(X <= k) for Poisson(lambda) = Q(k+1, lambda)
pub fn poisson_cdf(k: f64, lambda: f64) -> f64 {
    if k < 0.0 {
        0.0
    } else {
        gamma_q(k.floor() + 1.0, lambda)
    }
}
pub fn poisson_ln_pmf(k: f64, lambda: f64) -> f64 {
    k * lambda.ln() - lambda - lgamma(k + 1.0)
}
/// P(X <= k) for Binomial(n, p) = I_{1-p}(n-k, k+1)
pub fn binom_cdf(k: f64, n: f64, p: f64) -> f64 {
    if k < 0.0 {
        0.0
    } else if k >= n {
        1.0
    } else if p <= 0.0 {
        1.0
    } else if p >= 1.0 {
        0.0
    } else {
        let k = k.floor();
        beta_inc(n - k, k + 1.0, 1.0 - p)
    }
}
pub fn binom_ln_pmf(k: f64, n: f64, p: f64) -> f64 {
    if p <= 0.0 {
        return if k == 0.0 { 0.0 } else { f64::NEG_INFINITY };
    }
    if p >= 1.0 {
        return if k == n { 0.0 } else { f64::NEG_INFINITY };
    }
    lgamma(n + 1.0) - lgamma(k + 1.0) - lgamma(n - k + 1.0) + k * p.ln() + (n - k) * log1p(-p)
}

/// Self-test against values tabulated once with mpmath/scipy (development time). A failure makes
/// the run inconclusive — an oracle bug must never become a verdict.
pub fn selftest() -> Result<(), String> {
    let close = |name: &str, got: f64, want: f64, tol: f64| -> Result<(), String> {
        if (got - want).abs() <= tol * want.abs().max(1e-300) || (got - want).abs() <= 1e-300 {
            Ok(())
        } else {
            Err(format!("oracle {}: got {:e}, want {:e}", name, got, want))
        }
    };
    let mut errs = Vec::new();
    for (name, got, want, tol) in TABLE.iter().map(|t| (t.0, (t.1)(), t.2, t.3)) {
        if let Err(e) = close(name, got, want, tol) {
            errs.push(e);
        }
    }
    if errs.is_empty() {
        Ok(())
    } else {
        Err(errs.join("; "))
    }
}

include!("special_table.rs");
