//! Reference linear algebra, independent of the library under test. Row-major `Vec<f64>`.
use super::dd::{self, Dd};

pub fn transpose(a: &[f64], rows: usize, cols: usize) -> Vec<f64> {
    let mut t = vec![0.0; a.len()];
    for i in 0..rows {
        for j in 0..cols {
            t[j * rows + i] = a[i * cols + j];
        }
    }
    t
}

/// Naive triple loop C = A(m×l) · B(l×n), each entry accumulated in double-double.
pub fn matmul_dd(a: &[f64], b: &[f64], m: usize, l: usize, n: usize) -> Vec<Dd> {
    assert_eq!(a.len(), m * l);
    assert_eq!(b.len(), l * n);
    let mut c = vec![Dd::ZERO; m * n];
    for i in 0..m {
        for j in 0..n {
            let mut s = Dd::ZERO;
            for k in 0..l {
                s = s + Dd::prod(a[i * l + k], b[k * n + j]);
            }
            c[i * n + j] = s;
        }
    }
    c
}
pub fn matmul(a: &[f64], b: &[f64], m: usize, l: usize, n: usize) -> Vec<f64> {
    matmul_dd(a, b, m, l, n).into_iter().map(|x| x.f()).collect()
}
/// |A|·|B| entrywise (for a-priori rounding bounds)
pub fn matmul_abs(a: &[f64], b: &[f64], m: usize, l: usize, n: usize) -> Vec<f64> {
    let aa: Vec<f64> = a.iter().map(|x| x.abs()).collect();
    let bb: Vec<f64> = b.iter().map(|x| x.abs()).collect();
    matmul(&aa, &bb, m, l, n)
}

/// ‖A‖∞ = max row sum
pub fn inf_norm(a: &[f64], rows: usize, cols: usize) -> f64 {
    (0..rows).map(|i| a[i * cols..(i + 1) * cols].iter().map(|x| x.abs()).sum::<f64>()).fold(0.0, f64::max)
}
pub fn max_abs(a: &[f64]) -> f64 {
    a.iter().fold(0.0f64, |m, x| m.max(x.abs()))
}

/// Solve A X = B (A n×n, B n×k) by Gaussian elimination with partial pivoting in double-double.
/// Returns None if a pivot is exactly zero. Accuracy ≈ κ(A)·1e-31.
pub fn solve_dd(a: &[f64], b: &[f64], n: usize, k: usize) -> Option<Vec<Dd>> {
    let ad: Vec<Dd> = a.iter().map(|&x| Dd::new(x)).collect();
    let bd: Vec<Dd> = b.iter().map(|&x| Dd::new(x)).collect();
    solve_dd_dd(&ad, &bd, n, k)
}
pub fn solve_dd_dd(a: &[Dd], b: &[Dd], n: usize, k: usize) -> Option<Vec<Dd>> {
    assert_eq!(a.len(), n * n);
    assert_eq!(b.len(), n * k);
    let mut m = a.to_vec();
    let mut x = b.to_vec();
    for c in 0..n {
        let mut p = c;
        for r in c + 1..n {
            if m[r * n + c].hi.abs() > m[p * n + c].hi.abs() {
                p = r;
            }
        }
        if m[p * n + c].hi == 0.0 || !m[p * n + c].hi.is_finite() {
            return None;
        }
        if p != c {
            for j in 0..n {
                m.swap(p * n + j, c * n + j);
            }
            for j in 0..k {
                x.swap(p * k + j, c * k + j);
            }
        }
        let piv = m[c * n + c];
        for r in c + 1..n {
            let f = m[r * n + c] / piv;
            if f.hi == 0.0 {
                continue;
            }
            for j in c..n {
                m[r * n + j] = m[r * n + j] - f * m[c * n + j];
            }
            for j in 0..k {
                x[r * k + j] = x[r * k + j] - f * x[c * k + j];
            }
        }
    }
    for c in (0..n).rev() {
        for j in 0..k {
            let mut s = x[c * k + j];
            for t in c + 1..n {
                s = s - m[c * n + t] * x[t * k + j];
            }
            x[c * k + j] = s / m[c * n + c];
        }
    }
    Some(x)
}
pub fn solve(a: &[f64], b: &[f64], n: usize, k: usize) -> Option<Vec<f64>> {
    solve_dd(a, b, n, k).map(|v| v.into_iter().map(|x| x.f()).collect())
}
/// Inverse through `solve_dd` against the identity.
pub fn inverse(a: &[f64], n: usize) -> Option<Vec<f64>> {
    let mut id = vec![0.0; n * n];
    for i in 0..n {
        id[i * n + i] = 1.0;
    }
    solve(a, &id, n, n)
}
/// κ∞(A) = ‖A‖∞‖A⁻¹‖∞ (inf if singular)
pub fn cond_inf(a: &[f64], n: usize) -> f64 {
    match inverse(a, n) {
        Some(inv) => inf_norm(a, n, n) * inf_norm(&inv, n, n),
        None => f64::INFINITY,
    }
}

/// Weighted ridge least squares in double-double through the normal equations:
/// minimise Σ w_i (y_i − x_iᵀβ)² + Σ_j pen_j β_j².  X is n×p row-major.
pub fn ridge_ls(x: &[f64], y: &[f64], w: Option<&[f64]>, pen: &[f64], n: usize, p: usize) -> Option<Vec<f64>> {
    let mut g = vec![Dd::ZERO; p * p];
    let mut r = vec![Dd::ZERO; p];
    for i in 0..n {
        let wi = w.map(|w| w[i]).unwrap_or(1.0);
        for a in 0..p {
            let xa = Dd::prod(x[i * p + a], wi);
            r[a] = r[a] + xa * y[i];
            for b in a..p {
                g[a * p + b] = g[a * p + b] + xa * x[i * p + b];
            }
        }
    }
    for a in 0..p {
        for b in 0..a {
            g[a * p + b] = g[b * p + a];
        }
        g[a * p + a] = g[a * p + a] + pen[a];
    }
    solve_dd_dd(&g, &r, p, 1).map(|v| v.into_iter().map(|x| x.f()).collect())
}

/// Eigenvalues of a symmetric matrix by cyclic Jacobi rotations (ascending).
pub fn jacobi_eigenvalues(a: &[f64], n: usize) -> Vec<f64> {
    let mut m = a.to_vec();
    // symmetrise
    for i in 0..n {
        for j in 0..i {
            let s = 0.5 * (m[i * n + j] + m[j * n + i]);
            m[i * n + j] = s;
            m[j * n + i] = s;
        }
    }
    for _sweep in 0..100 {
        let mut off = 0.0;
        for i in 0..n {
            for j in 0..i {
                off += m[i * n + j] * m[i * n + j];
            }
        }
        let diag: f64 = (0..n).map(|i| m[i * n + i] * m[i * n + i]).sum();
        // off/diag are sums of squares: 1e-30 is (1e-15)^2 relative, below f64 resolution
        if off <= 1e-30 * diag.max(f64::MIN_POSITIVE) || !off.is_finite() {
            break;
        }
        for p in 0..n {
            for q in p + 1..n {
                let apq = m[p * n + q];
                if apq == 0.0 {
                    continue;
                }
                let theta = (m[q * n + q] - m[p * n + p]) / (2.0 * apq);
                let t = theta.signum() / (theta.abs() + (theta * theta + 1.0).sqrt());
                let t = if theta == 0.0 { 1.0 } else { t };
                let c = 1.0 / (t * t + 1.0).sqrt();
                let s = t * c;
                for k in 0..n {
                    let akp = m[k * n + p];
                    let akq = m[k * n + q];
                    m[k * n + p] = c * akp - s * akq;
                    m[k * n + q] = s * akp + c * akq;
                }
                for k in 0..n {
                    let apk = m[p * n + k];
                    let aqk = m[q * n + k];
                    m[p * n + k] = c * apk - s * aqk;
                    m[q * n + k] = s * apk + c * aqk;
                }
                // the rotation annihilates this pair by construction
                m[p * n + q] = 0.0;
                m[q * n + p] = 0.0;
            }
        }
    }
    let mut ev: Vec<f64> = (0..n).map(|i| m[i * n + i]).collect();
    ev.sort_by(|a, b| a.partial_cmp(b).unwrap_or(std::cmp::Ordering::Equal));
    ev
}

/// Reference Cholesky (lower), None if not positive definite.
pub fn cholesky(a: &[f64], n: usize) -> Option<Vec<f64>> {
    let mut l = vec![0.0; n * n];
    for i in 0..n {
        for j in 0..=i {
            let s = dd::dot(&l[i * n..i * n + j], &l[j * n..j * n + j]);
            let v = (Dd::new(a[i * n + j]) - s).f();
            if i == j {
                if !(v > 0.0) {
                    return None;
                }
                l[i * n + j] = v.sqrt();
            } else {
                l[i * n + j] = v / l[j * n + j];
            }
        }
    }
    Some(l)
}

/// Max over entries of |C − ref| / bound, with `bound` entrywise; used by residual checks.
pub fn worst_ratio(got: &[f64], reference: &[Dd], bound: &[f64]) -> f64 {
    let mut w = 0.0f64;
    for i in 0..got.len() {
        let e = (Dd::new(got[i]) - reference[i]).f().abs();
        let r = if bound[i] > 0.0 { e / bound[i] } else if e == 0.0 { 0.0 } else { f64::INFINITY };
        if r.is_nan() {
            return f64::INFINITY;
        }
        w = w.max(r);
    }
    w
}

pub fn selftest() -> Result<(), String> {
    let a = [4.0, 1.0, 2.0, 1.0, 3.0, 0.5, 2.0, 0.5, 5.0];
    let inv = inverse(&a, 3).ok_or("inverse")?;
    let id = matmul(&a, &inv, 3, 3, 3);
    for i in 0..3 {
        for j in 0..3 {
            let e = if i == j { 1.0 } else { 0.0 };
            if (id[i * 3 + j] - e).abs() > 1e-15 {
                return Err(format!("solve_dd: A*inv = {:?}", id));
            }
        }
    }
    let ev = jacobi_eigenvalues(&[2.0, 1.0, 1.0, 2.0], 2);
    if (ev[0] - 1.0).abs() > 1e-14 || (ev[1] - 3.0).abs() > 1e-14 {
        return Err(format!("jacobi {:?}", ev));
    }
    // tridiagonal(-1,2,-1) of order 4: eigenvalues 2 - 2cos(k*pi/5)
    let t = [2.0, -1.0, 0.0, 0.0, -1.0, 2.0, -1.0, 0.0, 0.0, -1.0, 2.0, -1.0, 0.0, 0.0, -1.0, 2.0];
    let ev = jacobi_eigenvalues(&t, 4);
    for k in 1..=4 {
        let want = 2.0 - 2.0 * (k as f64 * std::f64::consts::PI / 5.0).cos();
        if (ev[k - 1] - want).abs() > 1e-13 {
            return Err(format!("jacobi 4x4 {:?}", ev));
        }
    }
    let l = cholesky(&a, 3).ok_or("chol")?;
    let llt = matmul(&l, &transpose(&l, 3, 3), 3, 3, 3);
    if llt.iter().zip(&a).any(|(x, y)| (x - y).abs() > 1e-14) {
        return Err("chol reconstruct".into());
    }
    if cholesky(&[1.0, 2.0, 2.0, 1.0], 2).is_some() {
        return Err("chol accepted indefinite".into());
    }
    // ridge_ls reproduces an exact line
    let x = [1.0, 0.0, 1.0, 1.0, 1.0, 2.0, 1.0, 3.0];
    let y = [1.0, 3.0, 5.0, 7.0];
    let b = ridge_ls(&x, &y, None, &[0.0, 0.0], 4, 2).ok_or("ridge")?;
    if (b[0] - 1.0).abs() > 1e-14 || (b[1] - 2.0).abs() > 1e-14 {
        return Err(format!("ridge_ls {:?}", b));
    }
    Ok(())
}
