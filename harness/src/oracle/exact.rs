//! Exact integer / rational references (no rounding at all).

/// Determinant of an integer matrix by fraction-free (Bareiss) elimination in i128.
/// Returns None on (checked) overflow.
pub fn bareiss_det(a: &[i64], n: usize) -> Option<i128> {
    assert_eq!(a.len(), n * n);
    if n == 0 {
        return Some(1);
    }
    let mut m: Vec<i128> = a.iter().map(|&x| x as i128).collect();
    let mut sign: i128 = 1;
    let mut prev: i128 = 1;
    for k in 0..n - 1 {
        if m[k * n + k] == 0 {
            let mut sw = None;
            for i in k + 1..n {
                if m[i * n + k] != 0 {
                    sw = Some(i);
                    break;
                }
            }
            match sw {
                None => return Some(0),
                Some(i) => {
                    for j in 0..n {
                        m.swap(k * n + j, i * n + j);
                    }
                    sign = -sign;
                }
            }
        }
        for i in k + 1..n {
            for j in k + 1..n {
                let t = m[i * n + j].checked_mul(m[k * n + k])?.checked_sub(m[i * n + k].checked_mul(m[k * n + j])?)?;
                m[i * n + j] = t / prev; // exact by Bareiss
            }
            m[i * n + k] = 0;
        }
        prev = m[k * n + k];
    }
    Some(sign * m[n * n - 1])
}

/// Exact cofactor matrix entries C_ij = (-1)^{i+j} det(minor_ij) for an integer matrix.
pub fn cofactors(a: &[i64], n: usize) -> Option<Vec<i128>> {
    let mut c = vec![0i128; n * n];
    if n == 1 {
        c[0] = 1;
        return Some(c);
    }
    for i in 0..n {
        for j in 0..n {
            let mut minor = Vec::with_capacity((n - 1) * (n - 1));
            for r in 0..n {
                if r == i {
                    continue;
                }
                for s in 0..n {
                    if s == j {
                        continue;
                    }
                    minor.push(a[r * n + s]);
                }
            }
            let d = bareiss_det(&minor, n - 1)?;
            c[i * n + j] = if (i + j) % 2 == 0 { d } else { -d };
        }
    }
    Some(c)
}

pub fn gcd(a: i128, b: i128) -> i128 {
    let (mut a, mut b) = (a.abs(), b.abs());
    while b != 0 {
        let t = a % b;
        a = b;
        b = t;
    }
    a
}

/// Exact rational number on i128 (checked; panics on overflow — callers keep magnitudes small).
#[derive(Clone, Copy, Debug, PartialEq, Eq)]
pub struct Rat {
    pub n: i128,
    pub d: i128,
}
impl Rat {
    pub fn new(n: i128, d: i128) -> Rat {
        assert!(d != 0);
        let g = gcd(n, d).max(1);
        let s = if d < 0 { -1 } else { 1 };
        Rat { n: s * n / g, d: s * d / g }
    }
    pub fn int(n: i128) -> Rat {
        Rat { n, d: 1 }
    }
    pub fn add(self, o: Rat) -> Rat {
        Rat::new(self.n.checked_mul(o.d).unwrap().checked_add(o.n.checked_mul(self.d).unwrap()).unwrap(), self.d.checked_mul(o.d).unwrap())
    }
    pub fn sub(self, o: Rat) -> Rat {
        self.add(Rat { n: -o.n, d: o.d })
    }
    pub fn mul(self, o: Rat) -> Rat {
        Rat::new(self.n.checked_mul(o.n).unwrap(), self.d.checked_mul(o.d).unwrap())
    }
    pub fn div(self, o: Rat) -> Rat {
        assert!(o.n != 0);
        Rat::new(self.n.checked_mul(o.d).unwrap(), self.d.checked_mul(o.n).unwrap())
    }
    /// correctly rounded-ish conversion (numerator and denominator < 2^100 here: go through Dd)
    pub fn f(self) -> f64 {
        let n = crate::oracle::dd::Dd::sum2(((self.n >> 40) as f64) * 1099511627776.0, (self.n & ((1i128 << 40) - 1)) as f64);
        let d = crate::oracle::dd::Dd::sum2(((self.d >> 40) as f64) * 1099511627776.0, (self.d & ((1i128 << 40) - 1)) as f64);
        (n / d).f()
    }
}

/// C(n,k) in u128 by Pascal-free multiplicative formula with exact division; None if it overflows u128.
pub fn binom_u128(n: u64, k: u64) -> Option<u128> {
    if k > n {
        return Some(0);
    }
    let k = k.min(n - k);
    let mut r: u128 = 1;
    for i in 1..=k {
        // r * (n-k+i) / i is exact at every step
        let f = (n - k + i) as u128;
        let g = gcd(f as i128, i as i128) as u128;
        let (f, i2) = (f / g, i as u128 / g);
        // r divisible by i2
        if r % i2 != 0 {
            // fall back: multiply first (may overflow)
            r = r.checked_mul(f)?;
            r /= i2;
        } else {
            r /= i2;
            r = r.checked_mul(f)?;
        }
    }
    Some(r)
}

pub fn selftest() -> Result<(), String> {
    let a = [2, 0, 1, 1, 3, 2, 1, 1, 1];
    if bareiss_det(&a, 3) != Some(2 * (3 - 2) - 0 + 1 * (1 - 3)) {
        return Err("bareiss 3x3".into());
    }
    // permutation matrix of a 3-cycle has det +1, of a transposition -1
    if bareiss_det(&[0, 1, 0, 0, 0, 1, 1, 0, 0], 3) != Some(1) || bareiss_det(&[0, 1, 1, 0], 2) != Some(-1) {
        return Err("bareiss perm".into());
    }
    if binom_u128(67, 33) != Some(14226520737620288370) || binom_u128(10, 3) != Some(120) || binom_u128(100, 50) != Some(100891344545564193334812497256) {
        return Err("binom_u128".into());
    }
    let r = Rat::new(1, 3).add(Rat::new(1, 6));
    if r != Rat::new(1, 2) || (Rat::new(1, 3).f() - 1.0 / 3.0).abs() > 1e-17 {
        return Err("rat".into());
    }
    Ok(())
}
