#!/usr/bin/env python3
"""Development tool (not a registered check): judge a BENIGN (property-preserving) change with ./check.

  tools/judge_benign.py <src_dir> <property-id> <name> [--base REF] [--tier quick] [--seed N]

<src_dir> holds patch.diff and notes.md, written by an independent sub-agent that saw only the property
text and was asked for a realistic change that KEEPS the property true while perturbing what the
property leaves open (rounding, evaluation order, internal structure, RNG consumption, threads).
Steps, in a scratch worktree of /repo outside /repo and /verif: the patch applies, the 66+3 tests pass,
then `VERIF_REPO=<worktree> ./check <id>` is run. Expected: exit 0, no VIOLATION line. Anything else is
either a false alarm of the monitor (fix the monitor) or a change that is not benign after all (say
why in the result). Writes /verif/benign/<name>/{patch.diff,notes.md,result.json}.
"""
import json
import os
import shutil
import subprocess
import sys
import time

ROOT = os.path.dirname(os.path.dirname(os.path.abspath(__file__)))
ENV = dict(os.environ, CARGO_NET_OFFLINE="true", CARGO_TERM_COLOR="never")


def sh(cmd, cwd=None, timeout=7200, env=None):
    p = subprocess.run(cmd, shell=True, cwd=cwd, capture_output=True, text=True, timeout=timeout, env=env or ENV)
    return p.returncode, p.stdout + p.stderr


def suite(wt):
    last = ""
    for _ in range(4):
        rc, out = sh("cargo test --workspace --no-fail-fast --offline 2>&1 | grep -E '^test result|FAILED|^error' | head -8", cwd=wt)
        last = out.strip()
        if "66 passed" in out and "3 passed" in out:
            return True, last
        if "error" in out and "test result" not in out:
            return False, last
    return False, last


def main():
    a = sys.argv[1:]
    src, pid, name = a[0], a[1], a[2]
    base = a[a.index("--base") + 1] if "--base" in a else "main"
    tier = a[a.index("--tier") + 1] if "--tier" in a else "quick"
    seed = a[a.index("--seed") + 1] if "--seed" in a else "1"
    wt = "/tmp/bn_" + name
    res = {"name": name, "property": pid, "tier": tier, "seed": int(seed)}
    sh("git -C /repo worktree remove --force %s" % wt)
    shutil.rmtree(wt, ignore_errors=True)
    rc, out = sh("git -C /repo worktree add --detach %s %s" % (wt, base))
    if rc != 0:
        print("worktree failed", out)
        sys.exit(2)
    try:
        res["base"] = sh("git -C %s rev-parse --short HEAD" % wt)[1].strip()
        shutil.copy("/repo/Cargo.lock", wt + "/Cargo.lock")
        rc, out = sh("git apply %s" % os.path.join(os.path.abspath(src), "patch.diff"), cwd=wt)
        res["patch_applies"] = rc == 0
        ok, summ = suite(wt) if rc == 0 else (False, out[-600:])
        res["suite_passes_with_patch"] = ok
        res["suite_summary"] = summ
        if ok:
            t0 = time.time()
            env = dict(ENV, VERIF_REPO=wt)
            rc, out = sh("./check %s --tier %s --seed %s" % (pid, tier, seed), cwd=ROOT, env=env)
            lines = out.splitlines()
            res["check"] = {
                "cmd": "VERIF_REPO=<scratch worktree with patch> ./check %s --tier %s --seed %s" % (pid, tier, seed),
                "exit": rc,
                "wall_s": round(time.time() - t0, 1),
                "violation_lines": [l for l in lines if l.startswith("VIOLATION")],
                "details": [l[:700] for l in lines if l.startswith("  # ")][:6],
                "last": lines[-1][:300] if lines else "",
            }
            res["silent"] = rc == 0 and not res["check"]["violation_lines"]
        dst = os.path.join(ROOT, "benign", name)
        os.makedirs(dst, exist_ok=True)
        for f in ("patch.diff", "notes.md"):
            if os.path.exists(os.path.join(src, f)):
                shutil.copy(os.path.join(src, f), os.path.join(dst, f))
        old = os.path.join(dst, "result.json")
        hist = []
        if os.path.exists(old):
            o = json.load(open(old))
            hist = o.get("history", []) + [{k: o.get(k) for k in ("silent", "check", "base", "verdict")}]
        res["history"] = hist
        json.dump(res, open(old, "w"), indent=1)
        print(json.dumps({k: res.get(k) for k in ("name", "patch_applies", "suite_passes_with_patch", "silent")}))
        if "check" in res and not res["silent"]:
            print("\n".join(res["check"]["details"][:3]))
    finally:
        sh("git -C /repo worktree remove --force %s" % wt)
        shutil.rmtree(wt, ignore_errors=True)
        sh("git -C /repo worktree prune")


if __name__ == "__main__":
    main()
