// development-time search: wyrand states s (as passed to alea::set_seed) whose NEXT u64 output has
// extreme 32-bit halves. output(s) = mix(s + C).
use std::sync::atomic::{AtomicBool, Ordering};
use std::sync::{Arc, Mutex};
const C: u64 = 0xa0761d6478bd642f;
fn out(seed: u64) -> u64 {
    let s = seed.wrapping_add(C);
    let t = (s as u128) * ((s ^ 0xe7037ed1a0b428db) as u128);
    ((t >> 64) as u64) ^ (t as u64)
}
fn main() {
    let kinds: [(&str, fn(u64) -> bool); 4] = [
        ("low32=ffffffff", |o| o as u32 == u32::MAX),
        ("low32=00000000", |o| o as u32 == 0),
        ("high32=ffffffff", |o| (o >> 32) as u32 == u32::MAX),
        ("high32=00000000", |o| (o >> 32) as u32 == 0),
    ];
    for (name, pred) in kinds {
        let found = Arc::new(Mutex::new(Vec::<u64>::new()));
        let stop = Arc::new(AtomicBool::new(false));
        let mut hs = vec![];
        for t in 0..16u64 {
            let found = found.clone();
            let stop = stop.clone();
            hs.push(std::thread::spawn(move || {
                let mut s: u64 = 0x1234_5678_9abc_def1u64.wrapping_mul(t + 1) | 1;
                let mut n = 0u64;
                while !stop.load(Ordering::Relaxed) {
                    if pred(out(s)) {
                        let mut f = found.lock().unwrap();
                        f.push(s);
                        if f.len() >= 4 { stop.store(true, Ordering::Relaxed); }
                    }
                    s = s.wrapping_add(0x9E3779B97F4A7C15);
                    n += 1;
                    if n > 40_000_000_000 { break; }
                }
            }));
        }
        for h in hs { h.join().unwrap(); }
        let f = found.lock().unwrap();
        println!("{} {:?} outs {:?}", name, &f[..f.len().min(4)], f.iter().take(4).map(|&s| format!("{:016x}", out(s))).collect::<Vec<_>>());
    }
}
