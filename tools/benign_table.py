#!/usr/bin/env python3
"""Prints the markdown table of DESIGN.md §11.1 from benign/*/result.json (development tool)."""
import glob
import json
import os
import re

ROOT = os.path.dirname(os.path.dirname(os.path.abspath(__file__)))
rows = []
for d in sorted(glob.glob(os.path.join(ROOT, "benign", "C*_b*"))) + sorted(glob.glob(os.path.join(ROOT, "benign", "SH*_s*"))):
    rp = os.path.join(d, "result.json")
    if not os.path.exists(rp):
        continue
    r = json.load(open(rp))
    notes = open(os.path.join(d, "notes.md")).read() if os.path.exists(os.path.join(d, "notes.md")) else ""
    title = re.sub(r"[#*`|]", "", notes.strip().splitlines()[0]).strip() if notes.strip() else ""
    title = re.sub(r"^(C\d\d_b\d|SH[A-D]_s\d)\s*[—:-]+\s*", "", title)
    hist = r.get("history", [])
    first = hist[0].get("silent") if hist else r.get("silent")
    rows.append((r["name"], r["property"], title[:200], "silent" if first else "ALARM", "silent" if r.get("silent") else "ALARM"))
print("| change | property | what it does (author's title) | first judgement | now |")
print("|---|---|---|---|---|")
for r in rows:
    print("| " + " | ".join(r) + " |")
print("\n%d benign changes; silent at first judgement: %d; silent now: %d." % (len(rows), sum(1 for r in rows if r[3] == "silent"), sum(1 for r in rows if r[4] == "silent")))
