#!/usr/bin/env python3
"""Re-generates the per-round summary between the ROUND-TABLE markers of DESIGN.md from seeded/*/meta.json."""
import glob, json, os, re
ROOT = os.path.dirname(os.path.dirname(os.path.abspath(__file__)))
BRIEF = {1: "two realistic slips per property (`_1`, `_2`)",
         2: "designed to slip past a randomised differential monitor (`_3`, `_4`)",
         3: "told which attack classes are covered, asked for something else (`_5`, `_6`)",
         4: "plausible pull requests at code sites no earlier round touched (`_7`, `_8`)",
         5: "break the property through a dependency, anchors untouched (`_9`, `_10`)",
         6: "two categories of a taxonomy of real-world numerical-library bugs (`_11`, `_12`)",
         7: "free choice: the most realistic change not yet used, one per property (`_13`)",
         8: "12-minute budget, one per property (C14's author produced no valid change): a mechanism and code site not in the list of thirteen used (`_14`)"}
rounds = {}
for d in glob.glob(os.path.join(ROOT, "seeded", "C*_*")):
    mp = os.path.join(d, "meta.json")
    if not os.path.exists(mp):
        continue
    k = int(os.path.basename(d).split("_")[1])
    r = (k + 1) // 2 if k <= 12 else k - 6  # rounds 7, 8: one change per property (`_13`, `_14`)
    m = json.load(open(mp))
    h = m.get("history", [])
    first = h[0]["detected"] if h else m["detected"]
    a = rounds.setdefault(r, [0, 0, 0])
    a[0] += 1
    a[1] += 1 if first else 0
    a[2] += 1 if m["detected"] else 0
rows = ["| round | brief given to the authors | changes | caught by the monitors as they stood | caught now |", "|---|---|---|---|---|"]
for r in sorted(rounds):
    a = rounds[r]
    rows.append("| %d | %s | %d | %d | %d |" % (r, BRIEF.get(r, ""), a[0], a[1], a[2]))
tot = [sum(rounds[r][i] for r in rounds) for i in range(3)]
rows.append("| all | | %d | %d | %d |" % tuple(tot))
p = os.path.join(ROOT, "DESIGN.md")
s = open(p).read()
s = re.sub(r"<!-- ROUND-TABLE -->.*<!-- /ROUND-TABLE -->", "<!-- ROUND-TABLE -->\n" + "\n".join(rows) + "\n<!-- /ROUND-TABLE -->", s, flags=re.S)
open(p, "w").write(s)
print(rows[-1])
