#!/usr/bin/env python3
"""Development tool (not a registered check): judge a BENIGN change to SHARED code with ALL 20 monitors.

  tools/judge_shared.py <src_dir> <name> [--base REF] [--seed N]

<src_dir> holds patch.diff and notes.md, written by an independent sub-agent that read the 20 property
texts and was asked for a realistic maintenance change to code many properties depend on (kernels,
reductions, factorizations, Vector/Matrix plumbing, special functions, default trait methods) that keeps
every property true. Steps, in a scratch worktree of /repo: patch applies, the 66+3 tests pass, then
`VERIF_REPO=<worktree> ./check <ID> --tier quick --layers native` for every property. Expected: twenty
times exit 0, no VIOLATION line. Writes /verif/benign/<name>/{patch.diff,notes.md,result.json}.
"""
import hashlib
import json
import os
import shutil
import subprocess
import sys
import time

ROOT = os.path.dirname(os.path.dirname(os.path.abspath(__file__)))
ENV = dict(os.environ, CARGO_NET_OFFLINE="true", CARGO_TERM_COLOR="never")


def sh(cmd, cwd=None, timeout=7200, env=None):
    p = subprocess.run(cmd, shell=True, cwd=cwd, capture_output=True, text=True, timeout=timeout, env=env or ENV)
    return p.returncode, p.stdout + p.stderr


def suite(wt):
    last = ""
    for _ in range(4):
        rc, out = sh("cargo test --workspace --no-fail-fast --offline 2>&1 | grep -E '^test result|FAILED|^error' | head -8", cwd=wt)
        last = out.strip()
        if "66 passed" in out and "3 passed" in out:
            return True, last
        if "error" in out and "test result" not in out:
            return False, last
    return False, last


def main():
    a = sys.argv[1:]
    src, name = a[0], a[1]
    base = a[a.index("--base") + 1] if "--base" in a else "main"
    seed = a[a.index("--seed") + 1] if "--seed" in a else "1"
    wt = "/tmp/bs_" + name
    res = {"name": name, "property": "all", "tier": "quick", "layers": "native", "seed": int(seed)}
    sh("git -C /repo worktree remove --force %s" % wt)
    shutil.rmtree(wt, ignore_errors=True)
    rc, out = sh("git -C /repo worktree add --detach %s %s" % (wt, base))
    if rc != 0:
        print("worktree failed", out)
        sys.exit(2)
    try:
        res["base"] = sh("git -C %s rev-parse --short HEAD" % wt)[1].strip()
        shutil.copy("/repo/Cargo.lock", wt + "/Cargo.lock")
        rc, out = sh("git apply %s" % os.path.join(os.path.abspath(src), "patch.diff"), cwd=wt)
        res["patch_applies"] = rc == 0
        ok, summ = suite(wt) if rc == 0 else (False, out[-600:])
        res["suite_passes_with_patch"] = ok
        res["suite_summary"] = summ
        per = {}
        if ok:
            t0 = time.time()
            env = dict(ENV, VERIF_REPO=wt)
            for i in range(1, 21):
                pid = "C%02d" % i
                rc, out = sh("./check %s --tier quick --layers native --seed %s" % (pid, seed), cwd=ROOT, env=env)
                lines = out.splitlines()
                ev = [l.split(" ", 1)[1] for l in lines if l.startswith("EVIDENCE ")]
                if ev:
                    shutil.rmtree(os.path.dirname(ev[0]), ignore_errors=True)
                per[pid] = {"exit": rc, "violation_lines": [l for l in lines if l.startswith("VIOLATION")][:6],
                            "details": [l[:600] for l in lines if l.startswith("  # ")][:4],
                            "last": [l[:300] for l in lines if l.startswith(("OK", "INCONCLUSIVE"))][-1:]}
            res["wall_s"] = round(time.time() - t0, 1)
            res["checks"] = per
            res["alarms"] = sorted(p for p, r in per.items() if r["exit"] != 0 or r["violation_lines"])
            res["silent"] = not res["alarms"]
        dst = os.path.join(ROOT, "benign", name)
        os.makedirs(dst, exist_ok=True)
        for f in ("patch.diff", "notes.md"):
            if os.path.exists(os.path.join(src, f)) and os.path.abspath(src) != os.path.abspath(dst):
                shutil.copy(os.path.join(src, f), os.path.join(dst, f))
        old = os.path.join(dst, "result.json")
        hist = []
        if os.path.exists(old):
            o = json.load(open(old))
            hist = o.get("history", []) + [{k: o.get(k) for k in ("silent", "alarms", "base")}]
        res["history"] = hist
        json.dump(res, open(old, "w"), indent=1)
        print(json.dumps({k: res.get(k) for k in ("name", "patch_applies", "suite_passes_with_patch", "silent", "alarms")}))
    finally:
        sh("git -C /repo worktree remove --force %s" % wt)
        shutil.rmtree(wt, ignore_errors=True)
        tag = hashlib.sha1(os.path.realpath(wt).encode()).hexdigest()[:12]
        shutil.rmtree(os.path.join(ROOT, "harness", ".alt", tag), ignore_errors=True)
        sh("git -C /repo worktree prune")


if __name__ == "__main__":
    main()
