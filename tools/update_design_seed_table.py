#!/usr/bin/env python3
"""Re-generates the table between the SEED-TABLE markers of DESIGN.md from seeded/*/meta.json."""
import os, subprocess, re
ROOT = os.path.dirname(os.path.dirname(os.path.abspath(__file__)))
tbl = subprocess.run(["python3", os.path.join(ROOT, "tools", "seed_table.py")], capture_output=True, text=True).stdout
p = os.path.join(ROOT, "DESIGN.md")
s = open(p).read()
s = re.sub(r"<!-- SEED-TABLE-BEGIN -->.*<!-- SEED-TABLE-END -->", "<!-- SEED-TABLE-BEGIN -->\n" + tbl.replace("\\", "\\\\") + "<!-- SEED-TABLE-END -->", s, flags=re.S)
btbl = subprocess.run(["python3", os.path.join(ROOT, "tools", "benign_table.py")], capture_output=True, text=True).stdout
s = re.sub(r"<!-- BENIGN-TABLE-BEGIN -->.*<!-- BENIGN-TABLE-END -->", "<!-- BENIGN-TABLE-BEGIN -->\n" + btbl.replace("\\", "\\\\") + "<!-- BENIGN-TABLE-END -->", s, flags=re.S)
open(p, "w").write(s)
print("table rows:", tbl.count("\n| C"))
