#!/usr/bin/env python3
"""Development tool (not a registered check): confirm a seeded breakage and judge it with ./check.

  tools/verify_seed.py <src_dir> <property-id> <name> [--base REF] [--tier quick] [--keep]

<src_dir> holds patch.diff, demo.rs, notes.md (written by an independent sub-agent that saw only the
property text). Steps, all in a scratch worktree of /repo outside /repo and /verif:
  1. demo passes on the base tree;  2. patch applies, crate builds, the 66+3 tests pass (flaky
  statistical tests retried);  3. demo fails with the patch;  4. `VERIF_REPO=<worktree> ./check <id>`
  must exit 1 with a VIOLATION line.
Writes /verif/seeded/<name>/{patch.diff,demo.rs,notes.md,meta.json} when 1-3 hold.
"""
import json
import os
import shutil
import subprocess
import sys
import time

ROOT = os.path.dirname(os.path.dirname(os.path.abspath(__file__)))
ENV = dict(os.environ, CARGO_NET_OFFLINE="true", CARGO_TERM_COLOR="never")


def sh(cmd, cwd=None, timeout=3600, env=None):
    p = subprocess.run(cmd, shell=True, cwd=cwd, capture_output=True, text=True, timeout=timeout, env=env or ENV)
    return p.returncode, p.stdout + p.stderr


def suite(wt):
    """Run the repository's suite; returns (ok, summary). Retries (statistically flaky tests)."""
    last = ""
    for _ in range(4):
        rc, out = sh("cargo test --workspace --no-fail-fast --offline 2>&1 | grep -E '^test result|FAILED|^error' | head -8", cwd=wt)
        last = out.strip()
        if "66 passed" in out and "3 passed" in out:
            return True, last
        if "error" in out and "test result" not in out:
            return False, last  # does not compile
    return False, last


def main():
    a = sys.argv[1:]
    src, pid, name = a[0], a[1], a[2]
    base = a[a.index("--base") + 1] if "--base" in a else "HEAD"
    tier = a[a.index("--tier") + 1] if "--tier" in a else "quick"
    layers = a[a.index("--layers") + 1] if "--layers" in a else None
    keep = "--keep" in a
    declared = a[a.index("--declared") + 1] if "--declared" in a else pid  # property the author aimed at
    wt = "/tmp/vs_" + name
    res = {"name": name, "property": pid, "base": None, "steps": {}}
    sh("git -C /repo worktree remove --force %s" % wt)
    shutil.rmtree(wt, ignore_errors=True)
    rc, out = sh("git -C /repo worktree add --detach %s %s" % (wt, base))
    if rc != 0:
        print("worktree failed", out)
        sys.exit(2)
    try:
        res["base"] = sh("git -C %s rev-parse --short HEAD" % wt)[1].strip()
        shutil.copy("/repo/Cargo.lock", wt + "/Cargo.lock")
        os.makedirs(wt + "/tests", exist_ok=True)
        shutil.copy(os.path.join(src, "demo.rs"), wt + "/tests/seed_demo.rs")
        rc, out = sh("cargo test --offline --test seed_demo 2>&1 | tail -15", cwd=wt)
        ok1 = "test result: ok" in out
        res["steps"]["demo_passes_on_base"] = ok1
        if not ok1:
            res["steps"]["demo_base_output"] = out[-1500:]
        rc, out = sh("git apply %s" % os.path.join(os.path.abspath(src), "patch.diff"), cwd=wt)
        res["steps"]["patch_applies"] = rc == 0
        if rc != 0:
            res["steps"]["apply_output"] = out[-800:]
        os.remove(wt + "/tests/seed_demo.rs")  # the repository's own suite, unedited
        ok2, summ = suite(wt) if rc == 0 else (False, "")
        shutil.copy(os.path.join(src, "demo.rs"), wt + "/tests/seed_demo.rs")
        res["steps"]["suite_passes_with_patch"] = ok2
        res["steps"]["suite_summary"] = summ
        rc3, out = sh("cargo test --offline --test seed_demo 2>&1 | tail -25", cwd=wt)
        ok3 = "test result: FAILED" in out or ("panicked" in out and "test result: ok" not in out)
        res["steps"]["demo_fails_with_patch"] = ok3
        res["steps"]["demo_patched_output"] = out[-1200:]
        confirmed = ok1 and res["steps"]["patch_applies"] and ok2 and ok3
        res["confirmed"] = confirmed
        if confirmed:
            os.remove(wt + "/tests/seed_demo.rs")
            t0 = time.time()
            cmd = "./check %s --tier %s" % (pid, tier) + (" --layers " + layers if layers else "")
            rc, out = sh(cmd, cwd=ROOT, env=dict(ENV, VERIF_REPO=wt), timeout=7200)
            res["check"] = {"cmd": "VERIF_REPO=<scratch worktree with patch> " + cmd, "exit": rc, "wall_s": round(time.time() - t0, 1),
                            "violation_lines": [l for l in out.splitlines() if l.startswith("VIOLATION")][:12],
                            "first_details": [l[:400] for l in out.splitlines() if l.startswith("  #")][:6],
                            "other": [l[:300] for l in out.splitlines() if l.startswith(("INCONCLUSIVE", "KNOWN", "OK"))][:6]}
            res["detected"] = rc == 1 and bool(res["check"]["violation_lines"])
            try:
                ev = json.load(open(os.path.join(ROOT, "evidence", pid + ".json")))
                res["check"]["signatures"] = ev.get("violation_signatures", [])[:20]
            except Exception:
                pass
            dst = os.path.join(ROOT, "seeded", name)
            os.makedirs(dst, exist_ok=True)
            for f in ("patch.diff", "demo.rs", "notes.md"):
                if os.path.exists(os.path.join(src, f)):
                    shutil.copy(os.path.join(src, f), os.path.join(dst, f))
            notes = open(os.path.join(src, "notes.md")).read() if os.path.exists(os.path.join(src, "notes.md")) else ""
            meta = {"breaks_property": declared, "judged_by_check": pid, "needs_to_manifest": notes[:1500], "base_commit": res["base"],
                    "author": "independent sub-agent given only the property text and a scratch worktree",
                    "confirmed_by_me": {"demo_passes_on_base": ok1, "suite_passes_with_patch": ok2, "suite_summary": summ, "demo_fails_with_patch": ok3},
                    "what_i_ran": ["git worktree add --detach /tmp/vs_%s %s" % (name, base), "cargo test --offline --test seed_demo   # base: pass",
                                   "git apply patch.diff; cargo test --workspace --no-fail-fast --offline   # 66+3 pass",
                                   "cargo test --offline --test seed_demo   # patched: fail", res["check"]["cmd"]],
                    "check_result": res["check"], "detected": res["detected"]}
            # keep earlier judgements (a seed missed at first and caught after the monitor was strengthened)
            mp = os.path.join(dst, "meta.json")
            hist = []
            if os.path.exists(mp):
                try:
                    old = json.load(open(mp))
                    hist = old.get("history", []) + [{"verif_commit": old.get("verif_commit"), "detected": old.get("detected"), "check_result": old.get("check_result")}]
                except Exception:
                    pass
            meta["verif_commit"] = sh("git -C %s rev-parse --short HEAD" % ROOT)[1].strip()
            meta["history"] = hist
            if res["detected"]:
                meta["caught_by"] = pid
            json.dump(meta, open(mp, "w"), indent=1)
    finally:
        if not keep:
            sh("git -C /repo worktree remove --force %s" % wt)
            shutil.rmtree(wt, ignore_errors=True)
            # the alt manifest/target dir built for this scratch path
            import hashlib
            tag = hashlib.sha1(os.path.realpath(wt).encode()).hexdigest()[:12]
            shutil.rmtree(os.path.join(ROOT, "harness", ".alt", tag), ignore_errors=True)
    print(json.dumps({k: v for k, v in res.items() if k != "steps"} | {"steps": {k: v for k, v in res["steps"].items() if not k.endswith("output")}}, indent=1)[:3000])
    if not res.get("confirmed"):
        print(json.dumps(res["steps"], indent=1)[:3000])


if __name__ == "__main__":
    main()
