#!/usr/bin/env python3
"""Prints the markdown table of DESIGN.md §11 from seeded/*/meta.json (development tool)."""
import glob
import json
import os
import re

ROOT = os.path.dirname(os.path.dirname(os.path.abspath(__file__)))


def first_sentence(notes):
    txt = re.sub(r"[#*`]", "", notes).strip()
    lines = [l.strip(" -") for l in txt.splitlines() if l.strip(" -")]
    body = " ".join(lines[:6])
    m = re.search(r"(.{40,260}?[.;])\s", body + " ")
    return (m.group(1) if m else body[:240]).replace("|", "/")


SUMMARY = json.load(open(os.path.join(ROOT, "seeded", "SUMMARY.json")))
rows = []
for d in sorted(glob.glob(os.path.join(ROOT, "seeded", "C*_*"))):
    mp = os.path.join(d, "meta.json")
    if not os.path.exists(mp):
        continue
    m = json.load(open(mp))
    name = os.path.basename(d)
    hist = m.get("history", [])
    first = hist[0]["detected"] if hist else m["detected"]
    sigs = m["check_result"].get("signatures", [])
    asserts = sorted(set(s.split("|")[0] for s in sigs))[:3]
    caught_by = m.get("caught_by", m["breaks_property"] if m["detected"] else "-")
    summ = SUMMARY.get(name)
    text = ("%s — needs: %s" % (summ[0], summ[1])) if summ else first_sentence(m.get("needs_to_manifest", ""))
    rows.append((name, m["breaks_property"], text.replace("|", "/"), "yes" if first else "no",
                 "yes" if m["detected"] else "NO", caught_by, ", ".join(asserts)))

print("| seed | property | change (from the author's notes) | caught at first | caught now | by check | assertions that fire |")
print("|---|---|---|---|---|---|---|")
for r in rows:
    print("| " + " | ".join(r) + " |")
n = len(rows)
print("\n%d seeded changes; caught by the monitors as first registered: %d; caught now: %d." % (
    n, sum(1 for r in rows if r[3] == "yes"), sum(1 for r in rows if r[4] == "yes")))
