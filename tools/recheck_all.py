#!/usr/bin/env python3
"""Development tool: re-judge every recorded seeded change (seeded/*) and benign change (benign/*) with
the CURRENT monitors, in parallel, check step only (the confirmation of each change — demo passes on the
base tree, suite passes with the patch, demo fails with the patch — is in its meta.json and is not
repeated).

  tools/recheck_all.py [--jobs N] [--only REGEX] [--seeds-only | --benign-only]

For each item: scratch worktree of /repo (main; the item's recorded base commit when the patch no longer
applies to main), `git apply patch.diff`, `VERIF_REPO=<worktree> ./check <ID> --tier quick`, then
seeded/<name>/meta.json (detected, check_result, history) or benign/<name>/result.json (silent, check,
history) is updated. Never runs two items of the same property at once on purpose-free grounds (runs use
private log directories), but keeps at most N items in flight.
"""
import concurrent.futures
import glob
import hashlib
import json
import os
import re
import shutil
import subprocess
import sys
import time

ROOT = os.path.dirname(os.path.dirname(os.path.abspath(__file__)))
ENV = dict(os.environ, CARGO_NET_OFFLINE="true", CARGO_TERM_COLOR="never")


def sh(cmd, cwd=None, timeout=7200, env=None):
    p = subprocess.run(cmd, shell=True, cwd=cwd, capture_output=True, text=True, timeout=timeout, env=env or ENV)
    return p.returncode, p.stdout + p.stderr


def worktree(name, patch, bases):
    wt = "/tmp/rc_" + name
    for base in bases:
        sh("git -C /repo worktree remove --force %s" % wt)
        shutil.rmtree(wt, ignore_errors=True)
        rc, out = sh("git -C /repo worktree add --detach %s %s" % (wt, base))
        if rc != 0:
            continue
        shutil.copy("/repo/Cargo.lock", wt + "/Cargo.lock")
        rc, out = sh("git apply %s" % patch, cwd=wt)
        if rc == 0:
            return wt, sh("git -C %s rev-parse --short HEAD" % wt)[1].strip()
    return None, None


def cleanup(wt):
    sh("git -C /repo worktree remove --force %s" % wt)
    shutil.rmtree(wt, ignore_errors=True)
    tag = hashlib.sha1(os.path.realpath(wt).encode()).hexdigest()[:12]
    shutil.rmtree(os.path.join(ROOT, "harness", ".alt", tag), ignore_errors=True)


def run_check(pid, wt):
    t0 = time.time()
    cmd = "./check %s --tier quick" % pid
    rc, out = sh(cmd, cwd=ROOT, env=dict(ENV, VERIF_REPO=wt))
    lines = out.splitlines()
    res = {"cmd": "VERIF_REPO=<scratch worktree with patch> " + cmd, "exit": rc, "wall_s": round(time.time() - t0, 1),
           "violation_lines": [l for l in lines if l.startswith("VIOLATION")][:12],
           "first_details": [l[:400] for l in lines if l.startswith("  #")][:6],
           "other": [l[:300] for l in lines if l.startswith(("INCONCLUSIVE", "KNOWN", "OK"))][:6]}
    ev = [l.split(" ", 1)[1] for l in lines if l.startswith("EVIDENCE ")]
    if ev and os.path.exists(ev[0]):
        try:
            res["signatures"] = json.load(open(ev[0])).get("violation_signatures", [])[:20]
        except Exception:
            pass
        shutil.rmtree(os.path.dirname(ev[0]), ignore_errors=True)
    return res


def seed_item(d):
    name = os.path.basename(d)
    mp = os.path.join(d, "meta.json")
    meta = json.load(open(mp))
    pid = meta.get("judged_by_check", meta["breaks_property"])
    wt, base = worktree(name, os.path.join(d, "patch.diff"), ["main", meta.get("base_commit", "main")])
    if not wt:
        return name, "patch does not apply"
    try:
        res = run_check(pid, wt)
    finally:
        cleanup("/tmp/rc_" + name)
    detected = res["exit"] == 1 and bool(res["violation_lines"])
    hist = meta.get("history", []) + [{"verif_commit": meta.get("verif_commit"), "detected": meta.get("detected"), "check_result": meta.get("check_result")}]
    meta.update(history=hist, check_result=res, detected=detected, base_commit=base,
                verif_commit=sh("git -C %s rev-parse --short HEAD" % ROOT)[1].strip())
    if detected:
        meta["caught_by"] = pid
    else:
        meta.pop("caught_by", None)
    json.dump(meta, open(mp, "w"), indent=1)
    return name, "caught" if detected else "MISSED (exit %s)" % res["exit"]


def benign_item(d):
    name = os.path.basename(d)
    rp = os.path.join(d, "result.json")
    r = json.load(open(rp))
    pid = r["property"]
    wt, base = worktree(name, os.path.join(d, "patch.diff"), ["main", r.get("base", "main")])
    if not wt:
        return name, "patch does not apply"
    try:
        res = run_check(pid, wt)
    finally:
        cleanup("/tmp/rc_" + name)
    silent = res["exit"] == 0 and not res["violation_lines"]
    hist = r.get("history", []) + [{k: r.get(k) for k in ("silent", "check", "base")}]
    r.update(history=hist, silent=silent, base=base,
             check={"cmd": res["cmd"], "exit": res["exit"], "wall_s": res["wall_s"], "violation_lines": res["violation_lines"],
                    "details": res["first_details"], "last": (res["other"] or [""])[-1]})
    json.dump(r, open(rp, "w"), indent=1)
    return name, "silent" if silent else "ALARM (exit %s)" % res["exit"]


def main():
    a = sys.argv[1:]
    jobs = int(a[a.index("--jobs") + 1]) if "--jobs" in a else 6
    only = re.compile(a[a.index("--only") + 1]) if "--only" in a else None
    items = []
    if "--benign-only" not in a:
        items += [("seed", d) for d in sorted(glob.glob(os.path.join(ROOT, "seeded", "C*_*"))) if os.path.exists(os.path.join(d, "meta.json"))]
    if "--seeds-only" not in a:
        items += [("benign", d) for d in sorted(glob.glob(os.path.join(ROOT, "benign", "C*_b*"))) if os.path.exists(os.path.join(d, "result.json"))]
    if only:
        items = [it for it in items if only.search(os.path.basename(it[1]))]
    print("%d items, %d jobs" % (len(items), jobs), flush=True)
    with concurrent.futures.ThreadPoolExecutor(max_workers=jobs) as ex:
        futs = {ex.submit(seed_item if k == "seed" else benign_item, d): d for k, d in items}
        for f in concurrent.futures.as_completed(futs):
            try:
                print("%s: %s" % f.result(), flush=True)
            except Exception as e:
                print("%s: tool error %r" % (os.path.basename(futs[f]), e), flush=True)


if __name__ == "__main__":
    main()
